"""C07 - Backpressure and storage outages never lose or duplicate acknowledged writes.

Proof: coq/theories/Buffer/{ProtocolDur,ShutdownProofs,ProofsC07,PropsC07}.v over the SAME
protocol model as C03 (Protocol.v): durability invariant for all interleavings and all
storage-fault sequences under the guard `benign`, at-most-once under `noredo`, eventually
exactly once, the shutdown coordinator's ordering for every registration table, and one
`_refuted` theorem per way in which the real code breaks the guards.
Tie 1 (translator): every shutdown Register/RegisterHook call of cmd/arc (name, kind, priority
evaluated by the Go compiler) -> coq/gen/Params_Shutdown.v; ObligationsC07.v decides the
obligation "WAL purge after the buffer's final flush" on it; the order of the calls inside the
maintenance tick of main.go and its constants are checked textually.
Tie 2 (correspondence): the real shutdown.Coordinator on the generated and on random tables;
fault traces on a real ArrowBuffer + real wal.Writer/Recovery (failing / blocking storage
backend, rotation per entry, file ages by Chtimes, the re-composed maintenance tick), stored
Parquet files, WAL files/entries and the failure flag compared with the model inside Coq.
"""
import json
import os
import random
import re
import time

import vlib
import lib_buffer as lb
from lib_buffer import coq_batch, coq_kfile
from vlib import cn, cbool, clist

AREA = "Buffer"
P = "Arc.Buffer.PropsC07"
O = "Arc.Buffer.ObligationsC07"
THEOREMS = [(O, "C07_deployed_purge_after_flush"),                      # PRIMARY obligation on the regenerated table
            (O, "C07_deployed_tick"),                                    # PRIMARY obligation on the transcribed maintenance tick
            (P, "C07_durable_inv"), (P, "C07_at_most_once"), (P, "C07_eventually_once"), (P, "C07_no_wal_guarded"),
            (P, "C07_shutdown_purge_safe"), (P, "C07_shutdown_order_spec"), (P, "C07_hooks_before_components"),
            (P, "C07_no_ack_without_wal_refuted"), (P, "C07_replay_duplicates_refuted"), (P, "C07_purge_before_replay_refuted"),
            (P, "C07_replay_then_fail_refuted"), (P, "C07_reset_after_skip_refuted"), (P, "C07_replay_buffered_old_refuted"),
            (P, "C07_shutdown_purge_refuted"), (P, "C07_shutdown_queue_refuted"),   # about the shutdown order before f1d141d / the Close before 2ed39c6
            (O, "C07_deployed_shutdown_decided"), (O, "C07_deployed_wal_close_last")]
MODULES = [P, O]
TIE_NAME = "C07 correspondence (ArrowBuffer + wal.Writer/Recovery + shutdown.Coordinator vs Arc.Buffer.ModelC07) / Params_Shutdown"

KF_SHUTDOWN = "shutdown-wal-purge-hook-runs-before-buffer-final-flush"
KF_NOWAL = "nowal-acknowledged-rows-dropped-on-queue-full-or-flush-failure"
KF_DUP = "wal-replay-restores-rows-already-stored"
KF_PURGE = "maintenance-purges-old-wal-before-replaying-it"
KF_REFAIL = "replay-deletes-wal-file-before-rows-are-flushed"
KF_RESET = "tick-resets-failure-flag-although-wal-files-were-skipped"
KF_ASYNC = "replayed-rows-queued-for-async-flush-when-wal-file-is-deleted"

T0 = 1_700_000_000_000_000
HARNESS_DUR = dict(lb.HARNESS_FILES)
HARNESS_DUR["internal/ingest/zz_durable_verif_test.go"] = "harness/buffer/durable_verif_test.go"


# ---------------------------------------------------------------------------------------
# the maintenance tick of main.go: order of the calls and constants (textual tie)
# ---------------------------------------------------------------------------------------

TICK_SKELETON = [
    'if arrowBuffer.HasFlushFailure() {',
    'recovery := wal.NewRecovery(cfg.WAL.Directory, walLogger)',
    'if walWriter != nil {',
    'activeFile = walWriter.CurrentFile()',
    'stats, err := recovery.RecoverWithOptions(context.Background(), recoveryCallback, &wal.RecoveryOptions{',
    'SkipActiveFile: activeFile,',
    'MinFileAge: 5 * time.Second,',
    'BatchSize: cfg.WAL.RecoveryBatchSize,',
    'ColumnarCallback: columnarCallback,',
    'FlushReplayed: arrowBuffer.FlushAll,',
    'if err != nil {',
    '} else {',
    'if stats.RecoveredFiles > 0 {',
    'arrowBuffer.ResetFlushFailure()',
    '} else {',
    'deleted, err := walWriter.PurgeOlderThan(safeAge)',
    'if err != nil {',
    '} else if deleted > 0 {',
]


def check_tick_source():
    """The maintenance tick is an inline goroutine body of main(); the harness re-composes it.  The
    control-flow skeleton of the CURRENT body (every if/else line and every line with a WAL / buffer
    call, whitespace-normalised, comments and log statements ignored) must be one of the transcribed
    variants; otherwise the tie is broken and the recomposition has to be re-validated."""
    src = open(os.path.join(vlib.REPO, "cmd/arc/main.go")).read()
    i0 = src.find("Start periodic WAL maintenance goroutine")
    if i0 < 0:
        raise vlib.TieBroken("cmd/arc/main.go: periodic WAL maintenance block not found")
    blk = src[i0:]
    a = blk.find("case <-ticker.C:")
    b = blk.find('Dur("interval", recoveryInterval)')
    if a < 0 or b < 0 or b < a:
        raise vlib.TieBroken("cmd/arc/main.go: maintenance ticker body not found")
    if "if safeAge < 30*time.Second {\n\t\t\tsafeAge = 30 * time.Second" not in blk[:a]:
        raise vlib.TieBroken("cmd/arc/main.go: the 30 s floor of safeAge changed")
    keys = ("PurgeOlderThan(", "NewRecovery(", "CurrentFile()", "RecoverWithOptions(", "SkipActiveFile:", "MinFileAge:", "BatchSize:",
            "ColumnarCallback:", "ResetFlushFailure()", "FlushReplayed", "FlushAll(")
    sk = []
    for ln in blk[a:b].splitlines():
        t = ln.strip()
        if not t or t.startswith("//"):
            continue
        if t.startswith("if ") or t.startswith("} else") or any(k in t for k in keys):
            sk.append(re.sub(r"\s+", " ", t))
    if sk != TICK_SKELETON:
        diff = [(i, x, y) for i, (x, y) in enumerate(zip(sk + [None] * 30, TICK_SKELETON + [None] * 30)) if x != y][:3]
        raise vlib.TieBroken("cmd/arc/main.go: the WAL maintenance tick body no longer matches its transcription: %r" % (diff,))
    variant = "replay-flush-delete"
    # recovery.go: FlushReplayed runs after the entries of a file were replayed and before os.Remove; its
    # failure keeps the file
    rsrc = open(os.path.join(vlib.REPO, "internal/wal/recovery.go")).read()
    i1 = rsrc.find("if allEntriesSucceeded && len(entries) > 0 && opts.FlushReplayed != nil {")
    i2 = rsrc.find("if err := opts.FlushReplayed(ctx); err != nil {", i1)
    i3 = rsrc.find("allEntriesSucceeded = false", i2)
    i4 = rsrc.find("if err := os.Remove(walFile); err != nil {", i3)
    if min(i1, i2, i3, i4) < 0 or not (i1 < i2 < i3 < i4):
        raise vlib.TieBroken("internal/wal/recovery.go: flush-before-delete (FlushReplayed before os.Remove, failure keeps the file) not found")
    m = re.search(r"func createColumnarRecoveryCallback\(.*?\n}\n", src, re.S)
    if not m or "arrowBuffer.WriteColumnarDirectNoWAL(ctx, database, measurement, columns)" not in m.group(0):
        raise vlib.TieBroken("createColumnarRecoveryCallback no longer forwards to WriteColumnarDirectNoWAL")
    if "walWriter.PurgeAll()" not in src:
        raise vlib.TieBroken("the wal-purge registration no longer calls walWriter.PurgeAll()")
    return {"tick_order": sk, "variant": variant}


# ---------------------------------------------------------------------------------------
# traces
# ---------------------------------------------------------------------------------------

def hour_dir(t):
    import datetime
    d = datetime.datetime(1970, 1, 1) + datetime.timedelta(microseconds=t)
    return ["%04d" % d.year, "%02d" % d.month, "%02d" % d.day, "%02d" % d.hour]


def mk_batch(rng, n=None, hours=1, sch=None):
    n = n or rng.randint(1, 3)
    ts = [T0 + rng.randrange(hours) * lb.H_DEFAULT + rng.randrange(1, 10**6) for _ in range(n)]
    if hours == 2:
        ts[0] = T0 + rng.randrange(1, 10**6)
        ts[-1] = T0 + lb.H_DEFAULT + rng.randrange(1, 10**6)
    cols = [{"n": "time", "t": "i", "i": ts}]
    for nm, ty in (sch if sch is not None else [("v", "i"), ("tag", "s")]):
        c = {"n": nm, "t": ty}
        if ty == "i":
            c["i"] = [rng.randrange(-1000, 1000) for _ in range(n)]
        elif ty == "f":
            c["u"] = [lb.fbits(rng.choice(lb.FLOATS)) for _ in range(n)]
        elif ty == "s":
            c["s"] = [rng.choice(["a", "b", "host-1"]) for _ in range(n)]
        else:
            c["b"] = [rng.random() < 0.5 for _ in range(n)]
        if rng.random() < 0.2 and n > 1:
            v = [rng.random() < 0.6 for _ in range(n)]
            if any(v) and not all(v):
                c["v"] = v
        cols.append(c)
    return {"cols": cols}


def W(key, b):
    return {"op": "write", "key": key, "batch": b}


def witness_traces(regs, guarded=False):
    b1 = {"cols": [{"n": "time", "t": "i", "i": [T0 + 5]}, {"n": "v", "t": "i", "i": [1]}]}
    b2 = {"cols": [{"n": "time", "t": "i", "i": [T0 + 6]}, {"n": "v", "t": "i", "i": [2]}]}
    b3 = {"cols": [{"n": "time", "t": "i", "i": [T0 + 7]}, {"n": "v", "t": "i", "i": [3]}]}
    two = {"cols": [{"n": "time", "t": "i", "i": [T0 + 5, T0 + lb.H_DEFAULT + 5]}, {"n": "v", "t": "i", "i": [1, 2]}]}
    rel = [r for r in regs]
    W1, W2 = (lambda b: W("db/m1", b)), (lambda b: W("db/m2", b))
    return [
        {"sig": KF_SHUTDOWN, "name": "shutdown-final-flush-fails", "max_size": 100, "queue": 8, "wal": True, "final": 2,
         "ops": [W1(b1), {"op": "fail", "mode": "all", "slow_ms": 150}, {"op": "shutdown", "regs": rel, "guarded": guarded}, {"op": "fail", "mode": "none"}]},
        {"sig": KF_NOWAL, "name": "nowal-queue-full", "max_size": 1, "queue": 1, "wal": False, "final": True,
         "ops": [{"op": "block"}, W1(b1), W1(b2), W1(b3), {"op": "unblock"}, {"op": "flushall"}]},
        {"sig": KF_NOWAL, "name": "nowal-flush-fails", "max_size": 1, "queue": 8, "wal": False, "final": True,
         "ops": [{"op": "fail", "mode": "all"}, W1(b1), {"op": "fail", "mode": "none"}, {"op": "flushall"}]},
        {"sig": KF_DUP, "name": "multi-hour-partial-then-replay", "max_size": 2, "queue": 8, "wal": True, "final": True,
         "ops": [{"op": "fail", "mode": "hours", "dirs": [hour_dir(T0 + lb.H_DEFAULT)]}, W1(two), {"op": "fail", "mode": "none"},
                 {"op": "age", "old": False}, {"op": "tick"}, {"op": "flushall"}]},
        {"sig": KF_DUP, "name": "stored-batch-replayed-with-failed-one", "max_size": 1, "queue": 8, "wal": True, "final": True,
         "ops": [W1(b1), {"op": "fail", "mode": "all"}, W2(b2), {"op": "fail", "mode": "none"}, {"op": "age", "old": False}, {"op": "tick"},
                 {"op": "flushall"}]},
        {"sig": KF_PURGE, "name": "old-wal-file-replayed-not-purged", "max_size": 1, "queue": 8, "wal": True, "final": True,
         "ops": [{"op": "fail", "mode": "all"}, W1(b1), {"op": "fail", "mode": "none"}, {"op": "age", "old": True}, {"op": "tick"},
                 {"op": "flushall"}]},
        {"sig": KF_ASYNC, "name": "replay-size-flush-async-fails-after-file-deleted", "max_size": 1, "queue": 8, "wal": True, "final": True,
         "ops": [{"op": "fail", "mode": "all"}, W1(b1), {"op": "age", "old": False}, {"op": "tick"}, {"op": "fail", "mode": "none"},
                 {"op": "age", "old": False}, {"op": "tick"}, {"op": "flushall"}]},
        {"sig": KF_REFAIL, "name": "replay-buffered-flush-fails-file-kept", "max_size": 100, "queue": 8, "wal": True, "final": 2,
         "ops": [{"op": "fail", "mode": "all"}, W1(b1), {"op": "flushall"}, {"op": "age", "old": False}, {"op": "tick"}]},
        {"sig": KF_RESET, "name": "tick-skips-young-file-resets-flag", "max_size": 1, "queue": 8, "wal": True, "final": True,
         "ops": [{"op": "fail", "mode": "all"}, W1(b1), {"op": "fail", "mode": "none"}, {"op": "tick"}, {"op": "age", "old": True}, {"op": "tick"},
                 {"op": "flushall"}]},
        {"sig": KF_RESET, "name": "tick-keeps-file-but-resets-flag", "max_size": 100, "queue": 8, "wal": True, "final": True,
         "ops": [{"op": "fail", "mode": "all"}, W1(b1), {"op": "flushall"}, {"op": "age", "old": False}, {"op": "tick"}, {"op": "fail", "mode": "none"},
                 {"op": "age", "old": True}, {"op": "tick"}, {"op": "flushall"}]},
        {"sig": KF_SHUTDOWN, "name": "shutdown-cancels-inflight-flush", "max_size": 1, "queue": 8, "wal": True, "final": 2,
         "ops": [{"op": "block_ctx"}, W1(b1), {"op": "shutdown", "regs": rel, "guarded": guarded}]},
        {"sig": None, "name": "outage-replay-stored-once", "max_size": 1, "queue": 8, "wal": True, "final": True,
         "ops": [{"op": "fail", "mode": "all"}, W1(b1), {"op": "fail", "mode": "none"}, {"op": "age", "old": False}, {"op": "tick"},
                 {"op": "flushall"}, {"op": "age", "old": True}, {"op": "tick"}]},
    ]


def gen_traces(rng, n):
    out = []
    for _ in range(n):
        wal = rng.random() < 0.8
        cfg = {"max_size": rng.choice([1, 1, 2, 3, 100]), "queue": rng.choice([1, 2, 8]), "wal": wal}
        keys = ["db/m1", "db/m2"]
        schs = [[("v", "i"), ("tag", "s")], [("v", "f")], [("v", "i"), ("ok", "b")]]
        ops, blocked, mode = [], False, "none"
        feats = set()
        for _ in range(rng.randint(3, 11)):
            r = rng.random()
            if r < 0.45:
                hours = 2 if (rng.random() < 0.2 and mode != "all") else 1
                b = mk_batch(rng, hours=hours, sch=rng.choice(schs) if rng.random() < 0.3 else schs[0])
                if blocked:       # while the worker is blocked: dedicated keys with one schema (no synchronous schema-change flush)
                    ops.append(W(rng.choice(["db/q1", "db/q2"]), mk_batch(rng, hours=1, sch=schs[0])))
                else:
                    ops.append(W(rng.choice(keys), b))
            elif r < 0.62:
                mode = rng.choice(["all", "none", "none", "hours"]) if not blocked else rng.choice(["all", "none"])
                op = {"op": "fail", "mode": mode}
                if mode == "hours":
                    op["dirs"] = [hour_dir(T0 + lb.H_DEFAULT)]
                ops.append(op)
                if mode != "none":
                    feats.add("fault")
            elif r < 0.70 and not blocked:
                ops.append({"op": "block"})
                blocked = True
                feats.add("block")
            elif r < 0.78 and blocked:
                ops.append({"op": "unblock"})
                blocked = False
            elif r < 0.84 and not blocked:
                ops.append({"op": "flushall"})
            elif r < 0.97 and wal and not blocked:
                ops.append({"op": "age", "old": rng.random() < 0.3})
                ops.append({"op": "tick"})
                feats.add("tick")
        final = rng.random() < 0.7
        if final:
            if blocked:
                ops.append({"op": "unblock"})
                blocked = False
            ops.append({"op": "fail", "mode": "none"})
            if wal:
                ops += [{"op": "age", "old": False}, {"op": "tick"}]
                feats.add("tick")
            ops.append({"op": "flushall"})
            if wal and rng.random() < 0.5:
                ops += [{"op": "age", "old": False}, {"op": "tick"}, {"op": "flushall"}]
        elif blocked and rng.random() < 0.5:
            ops.append({"op": "unblock"})
        c = dict(cfg)
        c.update({"ops": ops, "final": final, "sig": None, "name": "gen", "feats": sorted(feats)})
        out.append(c)
    return out


def normalise(c):
    for op in c["ops"]:
        if op["op"] == "write":
            from props.C03 import normalise_generic
            normalise_generic(op["batch"])


def coq_ops(c, o, keys, H):
    terms = []
    for op in c["ops"]:
        k = op["op"]
        if k == "write":
            terms.append("O7Write %s %s" % (cn(keys.id(op["key"])), coq_batch(op["batch"])))
        elif k == "fail":
            if op["mode"] == "none":
                terms.append("O7Fail FNone")
            elif op["mode"] == "all":
                terms.append("O7Fail FAll")
            else:
                terms.append("O7Fail (FHours %s)" % lb.coq_zlist([lb.dir_to_hour(d) for d in op["dirs"]]))
        elif k == "block":
            terms.append("O7Block")
        elif k == "unblock":
            terms.append("O7Unblock")
        elif k == "flushall":
            terms.append("O7FlushAll")
        elif k == "age":
            terms.append("O7Age %s" % cbool(op["old"]))
        elif k == "tick":
            terms.append("O7Tick")
        elif k == "block_ctx":
            terms.append("O7BlockCtx")
        elif k == "purge_all":
            terms.append("O7PurgeAll")
        elif k == "close":
            terms.append("O7Close")
        elif k == "shutdown":
            for name in o.get("order") or []:
                if name == "wal-purge":
                    terms.append("O7PurgeGuarded" if op.get("guarded") else "O7PurgeAll")
                elif name == "arrow-buffer":
                    terms.append("O7Close")
    return clist(terms) if terms else "[]"


def trace_term(c, o, H, thr):
    keys = lb.Keys()
    rej = set(o.get("rejected") or [])
    cc = dict(c)
    cc["ops"] = [op for i, op in enumerate(c["ops"]) if i not in rej]
    ops = coq_ops(cc, o, keys, H)
    files = clist([coq_kfile(keys, f) for f in o["files"]]) if o["files"] else "[]"
    obs = "{| o_files := %s; o_walfiles := %d; o_walentries := %d; o_failed := %s |}" % (
        files, o["wal_files"], o["wal_entries"], cbool(o["failed"]))
    cfg = "{| max_size := %d; queue_cap := %d; wal_on := %s; fix_drain := true |}" % (c["max_size"], c["queue"], cbool(c["wal"]))
    return "CTrace (%d) (%d) %s %s %s %s" % (H, thr, cfg, ops, cn(int(c["final"])), obs)


def coq_regs(regs):
    return clist([lb.coq_reg(r) for r in regs]) if regs else "[]"


def coq_events(events):
    return clist(['(%s, "%s")' % (cbool(e.startswith("+")), e[1:]) for e in events]) if events else "[]"


def order_term(regs, order, events):
    return "COrder %s %s %s" % (coq_regs(regs), clist(['"%s"' % n for n in order]) if order else "[]", coq_events(events))


COQ_HEADER7 = ("From Coq Require Import List ZArith NArith Bool String.\nFrom Arc Require Import Buffer.Model Buffer.Shutdown Buffer.ModelC07.\n"
               "Import ListNotations.\nOpen Scope Z_scope.\nOpen Scope string_scope.\n")


def gen_tables(rng, n):
    out = []
    for _ in range(n):
        k = rng.randint(1, 9)
        out.append([{"name": "r%d" % i, "kind": rng.choice(["RHook", "RComp"]), "prio": rng.choice([5, 10, 10, 20, 30, 30, 35, 40, 90, -1])}
                    for i in range(k)])
    return out


def run_traces(cases, tag):
    payload = [{"id": i, "max_size": c["max_size"], "queue": c["queue"], "wal": c["wal"], "ops": c["ops"]} for i, c in enumerate(cases)]
    obs = vlib.run_go_harness("C07", "./internal/ingest/", "^TestVerifDurable$", HARNESS_DUR, payload, rewrites=lb.REWRITES, timeout=900, tag=tag)
    if len(obs) != len(cases):
        raise vlib.TieBroken("C07 harness returned %d observations for %d traces" % (len(obs), len(cases)))
    return obs


def run_orders(tables, tag):
    payload = [{"id": i, "regs": t} for i, t in enumerate(tables)]
    obs = vlib.run_go_harness("C07", "./internal/shutdown/", "^TestVerifShutdownOrder$",
                              {"internal/shutdown/zz_shutdown_verif_test.go": "harness/buffer/shutdown_verif_test.go"}, payload, tag=tag + "_order")
    if len(obs) != len(tables):
        raise vlib.TieBroken("C07 shutdown harness returned %d observations for %d tables" % (len(obs), len(tables)))
    return obs


def explained(c, known):
    """a generated trace whose oracle fails exactly as the model predicts is explained by the open findings
    whose trigger it contains"""
    sigs = set()
    feats = set(c.get("feats") or [])
    if not c["wal"] and ("block" in feats or "fault" in feats):
        sigs.add(KF_NOWAL)
    if c["wal"] and "tick" in feats:
        sigs |= {KF_DUP, KF_RESET, KF_ASYNC}
    return sorted(s for s in sigs if s in known)


def setup():
    lb.translate_params()
    check_tick_source()
    lb.translate_shutdown(tick_purges_first=False, tick_flush_before_delete=True)


def warm():
    run_traces([], "warm")
    run_orders([], "warm")


def _run(res, tier, seed):
    rng = random.Random(seed * 7919 + 7)
    t0 = time.time()
    try:
        params = lb.translate_params()
        tick = check_tick_source()
        regs, hooks_first = lb.translate_shutdown(tick_purges_first=False, tick_flush_before_delete=True)
    finally:
        res.stage("translate_params", t0)
    H, thr = params["micro_per_hour"], params["radix_skip_threshold"]
    res.cov["params"] = {"micro_per_hour": H, "registrations": [(r["name"], r["kind"], r["prio"]) for r in regs],
                         "hooks_loop_first": hooks_first, "tick_variant": tick["variant"]}

    failed = vlib.std_proof_stage(res, "C07", AREA, MODULES, THEOREMS,
                                  extra_targets=["theories/Buffer/PropsC07.vo", "theories/Buffer/ObligationsC07.vo"])
    if tier == "thorough":
        ok, _ = vlib.coqchk_stage(res, ["Arc.Buffer.PropsC07", "Arc.Buffer.ObligationsC07"])
        if not ok:
            failed.append(("coqchk", "coqchk rejected the compiled development or reported inadmissible axioms"))
    res.cov["trusted_base"] += [
        "the periodic WAL maintenance tick and the recovery callback are inline in cmd/arc/main.go; the harness re-composes them (PurgeOlderThan(safeAge) -> RecoverWithOptions(SkipActiveFile, MinFileAge) -> ResetFlushFailure) and the check verifies the order of these calls and the constants textually on the current source",
        "WAL file ages are abstract classes (younger than MinFileAge / in between / older than safeAge) driven by os.Chtimes in the harness; the WAL writer rotates after every entry (MaxSizeBytes = 1) so that the active file is always empty",
        "the WAL append and the locked buffer append of one write are one model step; a WAL backpressure drop (ErrWALDropped) is the label LWrite _ _ false, excluded by guard G1 and not exercised on the real code",
        "storage failures are injected per write call by the harness backend (all writes / writes into given hour directories); context cancellation of in-flight writes is not injected",
        "msgpack encode/decode of WAL payloads, Parquet writer/reader: library code",
        "LRestart (process exit + startup recovery) is modelled and proved about, but not driven on the real code by this check (C05 does)",
    ]
    # what the obligations decided on the deployed table
    # evaluated on the regenerated table itself (not through ObligationsC07, which may fail to compile)
    vlib.coq_make(["gen/Params_Shutdown.vo"])
    rc, out = vlib.coq_eval("C07", "Deployed_C07", "From Coq Require Import List String.\nFrom Arc Require Import Buffer.Shutdown.\n"
                            "From ArcGen Require Import Params_Shutdown.\n"
                            "Definition dpaf := Eval vm_compute in purge_after_flush registrations.\nPrint dpaf.\n"
                            "Definition dord := Eval vm_compute in map r_name (shutdown_order registrations).\nPrint dord.\n")
    m = re.search(r"dpaf\s*=\s*(true|false)", out)
    if rc != 0 or not m:
        raise vlib.InfraError("cannot evaluate the deployed shutdown obligation: " + out[-1500:])
    purge_after_flush = m.group(1) == "true"
    model_order = re.findall(r'"([^"]+)"', out.split("dord", 1)[1]) if "dord" in out else []
    res.cov["deployed_purge_after_flush"] = purge_after_flush

    # ---- cases
    t1 = time.time()
    n = 300 if tier == "quick" else 4000
    wit = witness_traces(regs, lb.purge_is_guarded())
    traces = wit + load_corpus() + gen_traces(rng, n)
    for c in traces:
        normalise(c)
        pass
    tables = [regs] + gen_tables(rng, 60 if tier == "quick" else 600)
    obs = run_traces(traces, tier)
    oobs = run_orders(tables, tier)
    res.stage("impl_harness", t1)
    t2 = time.time()
    terms = [trace_term(c, o, H, thr) for c, o in zip(traces, obs)] + [order_term(t, o["order"], o.get("events") or []) for t, o in zip(tables, oobs)]
    # the shutdown ops executed inside fault traces (real ArrowBuffer.Close with a slow failing storage,
    # real PurgeAll) are judged by the same ordering oracle
    shut = [(i, op["regs"], o) for i, (c, o) in enumerate(zip(traces, obs)) for op in c["ops"] if op["op"] == "shutdown"]
    n_plain = len(terms)
    terms += [order_term(regs_, o.get("order") or [], o.get("events") or []) for _, regs_, o in shut]
    r = lb.par_check_cases("C07", COQ_HEADER7, "ccase7", terms, {"agree": "case7_agrees", "oracle": "case7_oracle"},
                           name="Cases_C07_%s" % tier, timeout=1500)
    dis, orf = set(r["agree"]), set(r["oracle"])
    res.stage("coq_eval", t2)

    ntr = len(traces)
    res.cov["evaluations"] = len(terms)
    nontriv = {json.dumps({k: c[k] for k in ("max_size", "queue", "wal", "ops")}, sort_keys=True) for c in traces
               if any(op["op"] == "fail" and op["mode"] != "none" or op["op"] == "block" for op in c["ops"])
               and any(op["op"] in ("tick", "shutdown", "close", "purge_all") for op in c["ops"])}
    res.cov["distinct_nontrivial"] = len(nontriv) + len({json.dumps(t) for t in tables if len({x["prio"] for x in t}) < len(t)})
    res.cov["rule"] = ("fault traces = random op sequences over {write (1-3 rows, 1-2 hours, 3 schemas, 2 keys), fail none/all/one hour, block/unblock the "
                       "single worker, FlushAll, age WAL files, maintenance tick, shutdown} with random max_size / queue capacity / WAL on-off, 70% ending in "
                       "the recovery suffix (faults off, age, tick, FlushAll); non-trivial = contains >= 1 fault (failing storage or blocked worker) and >= 1 "
                       "maintenance tick or shutdown/close; plus registration tables with >= 1 priority tie; distinct by canonical JSON")
    res.cov["histogram"] = {"traces": ntr, "tables": len(tables), "final_traces": sum(1 for c in traces if c["final"]),
                            "wal_off": sum(1 for c in traces if not c["wal"]),
                            "ops": {k: sum(1 for c in traces for op in c["ops"] if op["op"] == k) for k in
                                    ("write", "fail", "block", "unblock", "flushall", "age", "tick", "shutdown")},
                            "files_decoded": sum(len(o["files"]) for o in obs),
                            "traces_with_flush_failure_flag": sum(1 for o in obs if o["failed"])}
    res.cov["model_vs_impl_disagreements"] = len(dis)
    res.cov["oracle_failures"] = len(orf)
    res.cov["samples"] = [{k: v for k, v in traces[i].items()} for i in (2, len(wit) + 1, ntr - 1) if i < ntr][:3]

    known = {e["signature"]: e for e in vlib.known_for("C07")}
    # ---- shutdown order: real coordinator vs model vs obligation
    real_order = oobs[0]["order"]
    reported = False
    if ntr in dis or (model_order and model_order != real_order):
        pass  # reported with the disagreements below
    order_bad = ntr in orf                         # oracle on the real coordinator's run of the deployed table
    # the ordering property on the events of the real coordinator (deployed table with plain recorders, and
    # the shutdown ops inside fault traces with the real Close / PurgeAll): "wal-purge does not start
    # before arrow-buffer's Close has returned"
    shut_bad = [k for k in range(len(shut)) if (n_plain + k) in orf]
    if (order_bad or shut_bad) and KF_SHUTDOWN not in known:
        def overlap(events):
            return [e for e in events if e[1:] in ("wal-purge", "arrow-buffer", "wal")]
        repl = {"kind": "oracle-failure", "property": "wal-purge must not start before arrow-buffer's Close has returned",
                "registrations": [(r["name"], r["kind"], r["prio"]) for r in regs],
                "real_coordinator_events_plain_recorders": overlap(oobs[0].get("events") or [])}
        if shut_bad:
            ti, _, o_ = shut[shut_bad[0]]
            repl.update({"case": traces[ti], "observed": o_, "events_with_real_close_and_purge": overlap(o_.get("events") or []),
                         "stored_files": len(o_["files"]), "wal_entries_left": o_["wal_entries"],
                         "how_to_replay": "python3 tools/check.py C07 --replay <this file>"})
        res.violation("the real shutdown.Coordinator starts wal-purge before arrow-buffer's Close has returned (%s)"
                      % ("deployed table" + (", and the WAL is gone after a failing final flush" if shut_bad else "")), repl)
        reported = True
    elif order_bad != (not purge_after_flush) and ntr not in dis:
        res.violation("the deployed-table obligation decided by Coq and the order observed on the real coordinator differ",
                      {"kind": "obligation-vs-impl", "model_order": model_order, "real_order": real_order}, no_input=True)
        reported = True
    # ---- witnesses
    kf_hits = {}
    wit_bad = []
    for i, c in enumerate(wit):
        if i in orf and i not in dis and c["sig"] in known:
            kf_hits.setdefault(c["sig"], []).append(c["name"])
        elif i in orf:
            wit_bad.append(i)
    if wit_bad:
        i = wit_bad[0]
        res.violation("witness trace(s) %s: oracle fails on the implementation and the failure is not the listed one (model %s)"
                      % ([wit[j]["name"] for j in wit_bad], "disagrees" if i in dis else "agrees, finding not listed"),
                      {"kind": "oracle-failure", "case": wit[i], "observed": obs[i], "failing_witnesses": [wit[j]["name"] for j in wit_bad],
                       "how_to_replay": "python3 tools/check.py C07 --replay <this file>"})
        reported = True
    if (order_bad or shut_bad) and KF_SHUTDOWN in known:
        kf_hits.setdefault(KF_SHUTDOWN, []).insert(0, "real coordinator order: %s" % " < ".join(n for n in real_order if n in ("wal-purge", "arrow-buffer", "wal")))
    texts = {KF_SHUTDOWN: "graceful shutdown deletes the WAL (hook wal-purge) before the buffer's final flush (component arrow-buffer); a failing final flush loses the acknowledged rows",
             KF_NOWAL: "with the WAL disabled rows of a write that returned success are dropped when the flush queue is full or the flush fails",
             KF_DUP: "the WAL replay after a flush failure re-stores rows that were already stored (same rows in two Parquet files)",
             KF_PURGE: "the maintenance tick purges WAL files older than safeAge before replaying them: rows of the failed flush are gone",
             KF_REFAIL: "the replay deletes the WAL file as soon as the rows are re-buffered; a second flush failure loses them",
             KF_ASYNC: "rows whose re-buffering during the replay triggers the size flush are only queued when the WAL file is deleted (FlushAll does not wait for the worker); if that flush fails they are lost",
             KF_RESET: "the tick resets the flush-failure flag although the WAL file holding the failed rows was skipped (too young / active); the next normal tick purges it by age"}
    for sig in (KF_SHUTDOWN, KF_NOWAL, KF_DUP, KF_PURGE, KF_REFAIL, KF_ASYNC, KF_RESET):
        if sig in kf_hits:
            res.known_finding("%s: %s [%s; model predicts it]" % (sig, texts[sig], "; ".join(kf_hits[sig])))
    res.cov["witnesses"] = {c["name"]: {"oracle_fails": i in orf, "model_agrees": i not in dis} for i, c in enumerate(wit)}
    # ---- generated traces
    unexplained = []
    expl = 0
    for i in range(len(wit), ntr):
        if i in orf and i not in dis:
            if explained(traces[i], known):
                expl += 1
            else:
                unexplained.append(i)
    res.cov["generated_oracle_failures_explained_by_open_findings"] = expl
    if unexplained:
        i = min(unexplained, key=lambda j: len(json.dumps(traces[j])))
        res.violation("oracle fails on a generated trace that contains no trigger of an open finding (%d such traces)" % len(unexplained),
                      {"kind": "oracle-failure", "case": traces[i], "observed": obs[i], "how_to_replay": "python3 tools/check.py C07 --replay <this file>"})
        reported = True
    if failed and not reported:
        res.violation("proof obligation(s) no longer check: " + "; ".join(r for _, r in failed),
                      {"kind": "obligation-failed", "theorems": [t for t, _ in failed], "detail": [r for _, r in failed]},
                      no_input=True, suffix="obligation")
    if dis:
        idx = sorted(dis)
        tr = [i for i in idx if i < ntr]
        if tr:
            i = min(tr, key=lambda j: len(json.dumps(traces[j])))
            small = shrink_trace(traces[i], H, thr)
            ob = run_traces([small], "shrink")[0]
            rr = lb.par_check_cases("C07", COQ_HEADER7, "ccase7", [trace_term(small, ob, H, thr)],
                                    {"agree": "case7_agrees", "oracle": "case7_oracle"}, name="Shrink_C07", jobs=1)
            res.violation("model and implementation disagree on a fault trace (%d disagreeing traces)" % len(tr),
                          {"kind": "correspondence", "correspondence": TIE_NAME, "case": small, "observed": ob,
                           "oracle_fails_on_impl": bool(rr["oracle"])}, no_input=not rr["oracle"], suffix="corr")
        else:
            j = idx[0] - ntr
            if j < len(tables):
                tab, ob_ = tables[j], oobs[j]
            else:
                tab, ob_ = shut[idx[0] - n_plain][1], shut[idx[0] - n_plain][2]
            res.violation("the real shutdown.Coordinator and the model order / run a registration table differently",
                          {"kind": "correspondence", "correspondence": TIE_NAME, "table": tab, "real_order": ob_.get("order"),
                           "real_events": ob_.get("events"), "oracle_fails_on_impl": idx[0] in orf},
                          no_input=idx[0] not in orf, suffix="corr")


def shrink_trace(c, H, thr, rounds=5):
    cur = json.loads(json.dumps(c))
    for _ in range(rounds):
        n = len(cur["ops"])
        if n <= 1:
            break
        cands = []
        for i in range(n):
            cand = dict(cur)
            cand["ops"] = cur["ops"][:i] + cur["ops"][i + 1:]
            if sum(1 for o in cand["ops"] if o["op"] == "block") >= sum(1 for o in cand["ops"] if o["op"] == "unblock"):
                cands.append(cand)
        if not cands:
            break
        try:
            ob = run_traces(cands, "shrink")
            r = lb.par_check_cases("C07", COQ_HEADER7, "ccase7", [trace_term(x, o, H, thr) for x, o in zip(cands, ob)],
                                   {"agree": "case7_agrees"}, name="Shrink_C07")
        except (vlib.TieBroken, vlib.InfraError):
            break
        if not r["agree"]:
            break
        cur = cands[r["agree"][0]]
    return cur


def run(res, tier, seed):
    """A change of the code under test must never surface as an infrastructure error (exit 2) or as
    a Python traceback: whatever goes wrong while tying the model to the current source is a broken
    tie, reported as VIOLATION ... no-failing-input-found with the reason."""
    try:
        _run(res, tier, seed)
    except vlib.TieBroken:
        raise
    except vlib.InfraError as e:
        raise vlib.TieBroken("%s: the model could not be evaluated against the current source: %s" % (__name__, e))
    except Exception as e:                                   # noqa: BLE001
        import traceback
        raise vlib.TieBroken("%s: unexpected %s while checking the current source: %s\n%s"
                             % (__name__, type(e).__name__, e, traceback.format_exc()[-1500:]))


def load_corpus():
    d = os.path.join(vlib.ROOT, "corpus", "C07")
    out = []
    if os.path.isdir(d):
        for fn in sorted(os.listdir(d)):
            if fn.endswith(".json"):
                obj = json.load(open(os.path.join(d, fn)))
                out += obj if isinstance(obj, list) else [obj.get("case", obj)]
    return out


def replay(res, path):
    obj = json.load(open(path))
    c = obj.get("case")
    if not c:
        print("replay file names no concrete trace:", obj.get("summary"))
        return 1
    params = lb.translate_params()
    H, thr = params["micro_per_hour"], params["radix_skip_threshold"]
    ob = run_traces([c], "replay")[0]
    r = lb.par_check_cases("C07", COQ_HEADER7, "ccase7", [trace_term(c, ob, H, thr)], {"agree": "case7_agrees", "oracle": "case7_oracle"},
                           name="Replay_C07", jobs=1)
    print("stored files:", len(ob["files"]), "| wal files/entries:", ob["wal_files"], ob["wal_entries"], "| flush failure flag:", ob["failed"],
          "| model disagrees:", bool(r["agree"]), "| oracle fails:", bool(r["oracle"]))
    return 1 if (r["agree"] or r["oracle"]) else 0
