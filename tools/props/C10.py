"""C10 - Row-level delete removes exactly the rows the predicate selects.

Proof: coq/theories/Sql3VL (C10_exact for the repaired rewrite, C10_exact_refuted / C10_exact_guarded /
C10_safe for the code as it is, C10_count, C10_dry_run, C10_rejected_unchanged, C10_same_count(+_refuted,
+_guarded), C10_not_keeps_only_false; all for every dataset, predicate and configuration).
Tie (correspondence): the REAL DeleteHandler behind its fiber route with a real DuckDB and a real
LocalBackend on generated multi-file datasets with nullable columns of every type and predicates from the
grammar (comparisons, BETWEEN, IN / NOT IN with NULLs, LIKE, IS [NOT] NULL, boolean columns, NOT/AND/OR,
IS [NOT] TRUE), plus rejected and erroring WHERE texts and the confirmation gates; the files of a measurement may
differ in schema (the same field BIGINT in one file and DOUBLE in another, columns absent from some files).  Every case is sent as a
dry run and then for real; responses and the rows of every file afterwards are compared with the model
inside Coq.  The Kleene evaluator itself is compared with DuckDB's SELECT (<where>) on every generated
(row, predicate).  The refutation witness is run first and decides which variant of the rewrite
(NOT (p) / (p) IS NOT TRUE) the current source implements.
"""
import datetime
import hashlib
import json
import os
import random
import re
import time

import vlib
from vlib import cz, cbool, clist

AREA = "Sql3VL"
# primary statements = about the current code (KeepIsNotTrue since /repo 33a2304) or about both variants; the last
# five are about the previous variant (KeepNotPred) and stay as the record of the fixed finding
THEOREMS = [("Arc.Sql3VL.Props", t) for t in (
    "C10_exact", "C10_same_count", "C10_count", "C10_dry_run", "C10_rejected_unchanged", "C10_partial_reported", "C10_safe", "C10_any_search", "C10_ideal_search",
    "C10_search_unfaithful_refuted", "C10_search_unfaithful_count_refuted",
    "C10_not_keeps_only_false", "C10_exact_refuted", "C10_same_count_refuted", "C10_exact_guarded", "C10_same_count_guarded")]
MODULES = ["Arc.Sql3VL.Props"]
TIE_NAME = "C10 correspondence (api.DeleteHandler.handleDelete + DuckDB vs Arc.Sql3VL.Model.delete_run / eval)"
HARNESS = {"internal/api/zz_delete_verif_test.go": "harness/sql3vl/delete_verif_test.go"}
TAGS = "verif duckdb_arrow"
SIGNATURE = "null-verdict-row-in-affected-file"
SIG_SEARCH = "union-read-where-differs-from-single-file-read"

# ---------------------------------------------------------------------------------------------
# schema and values.  A value is None or ("n", quarter_units) / ("s", str) / ("b", bool) / ("t", micros).
# ---------------------------------------------------------------------------------------------
COLS = [("id", "int"), ("a", "int"), ("x", "dbl"), ("s", "str"), ("b", "bool"), ("time", "ts")]
NUMCOLS = [0, 1, 2]
T0 = 1704067200000000            # 2024-01-01 00:00:00 UTC
SELECT_LIST = 'id, a, CAST(x*4 AS BIGINT) AS x4, s, b, epoch_us("time") AS t_us'
ALPHA = "abAB %_'"


def sql_str(s):
    return "'" + s.replace("'", "''") + "'"


def sql_ts(us):
    d = datetime.datetime(1970, 1, 1) + datetime.timedelta(microseconds=us)
    return "TIMESTAMP '%s'" % d.strftime("%Y-%m-%d %H:%M:%S.%f")


def sql_num(q, as_int=False):
    if q % 4 == 0 and as_int:
        return str(q // 4)
    if q % 4 == 0:
        return "%d.0" % (q // 4)
    return ("-" if q < 0 else "") + "%d.%s" % (abs(q) // 4, {1: "25", 2: "5", 3: "75"}[abs(q) % 4])


def sql_value(v, typ, cast=False):
    """literal; with cast=True a typed literal for fixture creation"""
    tname = {"int": "BIGINT", "dbl": "DOUBLE", "str": "VARCHAR", "bool": "BOOLEAN", "ts": "TIMESTAMP"}[typ]
    if v is None:
        return "NULL::" + tname if cast else "NULL"
    k, x = v
    if k == "n":
        lit = sql_num(x, as_int=(typ == "int"))
    elif k == "s":
        lit = sql_str(x)
    elif k == "b":
        lit = "TRUE" if x else "FALSE"
    else:
        lit = sql_ts(x)
    if cast and k != "t":
        return "(%s)::%s" % (lit, tname)
    return lit


def gen_value(rng, typ, null_p):
    if rng.random() < null_p:
        return None
    if typ == "int":
        return ("n", 4 * rng.choice([-2, -1, 0, 1, 1, 2, 2, 3, 5]))
    if typ == "dbl":
        return ("n", rng.choice([-6, -1, 0, 2, 4, 4, 5, 6, 8, 8, 10, 12]))
    if typ == "str":
        return ("s", "".join(rng.choice(ALPHA) for _ in range(rng.choice([0, 1, 1, 2, 2, 3, 4]))))
    if typ == "bool":
        return ("b", rng.random() < 0.5)
    return ("t", T0 + 500000 * rng.choice([-2, 0, 1, 2, 2, 3, 4, 6]))


def file_schema(f):
    """per-file schema: physical numeric type of a and x in this file, and the absent columns"""
    return f.get("schema") or {"a": "int", "x": "dbl", "missing": []}


def col_type(f, i):
    name, typ = COLS[i]
    sc = file_schema(f)
    return sc.get(name, typ) if name in ("a", "x") else typ


def select_list(f):
    sc = file_schema(f)
    out = []
    for i, (name, _) in enumerate(COLS):
        q = '"time"' if name == "time" else name
        if i in sc["missing"]:
            out.append("NULL AS verif_absent_%s" % name)       # (not the column's name: DuckDB would bind the WHERE to the alias)
        elif name in ("a", "x"):
            out.append("CAST(%s*4 AS BIGINT) AS %s4" % (q, name))          # exact for BIGINT and for quarter-unit DOUBLEs
        elif name == "time":
            out.append('epoch_us("time") AS t_us')
        else:
            out.append(q)
    return ", ".join(out)


def gen_schemas(rng, nfiles):
    """mostly uniform; sometimes the same field is BIGINT in some files and DOUBLE in others (what schemaless
    ingest produces when a client sends 3 and later 2.75), sometimes a column is absent from some files"""
    k = rng.random()
    out = []
    for i in range(nfiles):
        sc = {"a": "int", "x": "dbl", "missing": []}
        if k < 0.40 and nfiles >= 2:
            sc["a"] = rng.choice(["int", "dbl"])
            sc["x"] = rng.choice(["dbl", "dbl", "int"])
        if 0.30 < k < 0.52 and nfiles >= 2 and rng.random() < 0.5:
            sc["missing"] = sorted(rng.sample([1, 2, 3, 4], rng.choice([1, 1, 2])))
        out.append(sc)
    if k < 0.40 and nfiles >= 2 and rng.random() < 0.6:
        out[0]["a"], out[1]["a"] = "int", "dbl"          # the narrower type in the file that lists first
    return out


def gen_dataset(rng, cid):
    nfiles = rng.choice([1, 2, 2, 3, 3, 4]) if rng.random() > 0.02 else 0     # 0: a measurement without parquet files
    null_p = rng.choice([0.0, 0.15, 0.2, 0.3, 0.3, 0.4, 0.5])
    files, nid = [], 1
    used = set()
    for k in range(nfiles):
        while True:
            p = "c%d/m/2024/%02d/%02d/%02d/f%d.parquet" % (cid, rng.choice([1, 1, 2]), rng.choice([1, 2]), rng.randint(0, 23), rng.randint(0, 9))
            if p not in used:
                used.add(p)
                break
        rows = []
        for _ in range(rng.choice([0, 1, 2, 3, 3, 4, 5, 6])):
            rows.append([("n", 4 * nid)] + [gen_value(rng, t, null_p) for _, t in COLS[1:]])
            nid += 1
        files.append({"path": p, "rows": rows})
    files.sort(key=lambda f: [c.encode() for c in f["path"].split("/")])
    for f, sc in zip(files, gen_schemas(rng, len(files))):
        f["schema"] = sc
        for r in f["rows"]:
            for i in sc["missing"]:
                r[i] = ("m", 0)                                   # the file has no such column
            for i, name in ((1, "a"), (2, "x")):
                if i in sc["missing"] or r[i] is None:
                    continue
                if sc[name] == "dbl" and name == "a" and rng.random() < 0.6:
                    r[i] = ("n", rng.choice([3, 5, 10, 11, 13, 6, 7, 9]))      # 0.75, 1.25, 2.5, 2.75 ... next to the integers
                if sc[name] == "int":
                    r[i] = ("n", 4 * round(r[i][1] / 4))
    return files


def create_sql(rows, f=None):
    f = f or {}
    keep = [i for i in range(len(COLS)) if i not in file_schema(f)["missing"]]
    names = ", ".join('"%s"' % COLS[i][0] if COLS[i][0] == "time" else COLS[i][0] for i in keep)
    if not rows:
        dummy = ", ".join(sql_value(None, col_type(f, i), cast=True) for i in keep)
        return "SELECT * FROM (VALUES (%s)) AS t(%s) WHERE false" % (dummy, names)
    body = ", ".join("(%s)" % ", ".join(sql_value(r[i], col_type(f, i), cast=True) for i in keep) for r in rows)
    return "SELECT * FROM (VALUES %s) AS t(%s)" % (body, names)


# ---------------------------------------------------------------------------------------------
# predicates: nested tuples mirroring Arc.Sql3VL.Model.pred
#   ("const", "T"|"F"|"U") ("cmp", op, A, B) ("between", A, LO, HI) ("in"|"notin", A, [values])
#   ("like"|"notlike", A, pattern) ("isnull"|"isnotnull", A) ("bool", A) ("not", p) ("and", p, q) ("or", p, q)
#   ("isnottrue", p) ("istrue", p);   operand = ("col", i) | ("lit", value, typ)
# ---------------------------------------------------------------------------------------------
OPS = ["=", "<>", "<", "<=", ">", ">="]
COQ_OP = {"=": "CEq", "<>": "CNe", "!=": "CNe", "<": "CLt", "<=": "CLe", ">": "CGt", ">=": "CGe"}


def gen_lit(rng, typ, null_p=0.08):
    if rng.random() < null_p:
        return ("lit", None, typ)
    if typ in ("int", "dbl"):
        q = rng.choice([-4, 0, 2, 4, 4, 5, 6, 8, 8, 12, 20])
        if q % 4 == 0 and rng.random() < 0.7:
            return ("lit", ("n", q), "int")
        return ("lit", ("n", q), "dbl")
    return ("lit", gen_value(rng, typ, 0.0), typ)


def gen_atom(rng):
    k = rng.random()
    if k < 0.30:
        c = rng.choice(NUMCOLS)
        a, b = ("col", c), gen_lit(rng, COLS[c][1])
        if rng.random() < 0.15:
            b = ("col", rng.choice(NUMCOLS))
        if rng.random() < 0.12:
            a, b = b, a
        return ("cmp", rng.choice(OPS), a, b)
    if k < 0.40:
        return ("cmp", rng.choice(OPS), ("col", 3), gen_lit(rng, "str"))
    if k < 0.47:
        return ("cmp", rng.choice(OPS), ("col", 5), gen_lit(rng, "ts"))
    if k < 0.52:
        return ("cmp", rng.choice(["=", "<>", "<", ">="]), ("col", 4), gen_lit(rng, "bool"))
    if k < 0.60:
        c = rng.choice(NUMCOLS)
        return ("between", ("col", c), gen_lit(rng, COLS[c][1]), gen_lit(rng, COLS[c][1]))
    if k < 0.72:
        c = rng.choice([0, 1, 2, 3, 3])
        typ = COLS[c][1]
        lits = [gen_lit(rng, typ, 0.2) for _ in range(rng.randint(1, 4))]
        return (rng.choice(["in", "in", "notin"]), ("col", c), [(l[1], l[2]) for l in lits])
    if k < 0.82:
        pat = "".join(rng.choice("abAB%_%_ ") for _ in range(rng.choice([0, 1, 2, 2, 3, 4])))
        return (rng.choice(["like", "like", "notlike"]), ("col", 3), pat)
    if k < 0.92:
        return (rng.choice(["isnull", "isnotnull"]), ("col", rng.randrange(len(COLS))))
    if k < 0.97:
        return ("bool", ("col", 4))
    return ("const", rng.choice(["T", "F", "U"]))


def gen_pred(rng, depth, top=False):
    if depth == 0 or rng.random() < (0.1 if top else 0.25):
        return gen_atom(rng)
    k = rng.random()
    if top and k < 0.18:
        k = 0.18 + rng.random() * 0.72          # the root is mostly a binary connective
    if k < 0.18:
        return ("not", gen_pred(rng, depth - 1))
    if k < 0.56:
        return ("and", gen_pred(rng, depth - 1), gen_pred(rng, depth - 1))
    if k < 0.90:
        return ("or", gen_pred(rng, depth - 1), gen_pred(rng, depth - 1))
    if k < 0.96:
        return ("isnottrue", gen_pred(rng, depth - 1))
    return ("istrue", gen_pred(rng, depth - 1))


def colname(i):
    return '"time"' if COLS[i][0] == "time" else COLS[i][0]


def sql_operand(o):
    if o[0] == "col":
        return colname(o[1])
    return sql_value(o[1], o[2])


def sql_pred(p):
    k = p[0]
    if k == "const":
        return {"T": "TRUE", "F": "FALSE", "U": "CAST(NULL AS BOOLEAN)"}[p[1]]
    if k == "cmp":
        return "(%s %s %s)" % (sql_operand(p[2]), p[1], sql_operand(p[3]))
    if k == "between":
        return "(%s BETWEEN %s AND %s)" % (sql_operand(p[1]), sql_operand(p[2]), sql_operand(p[3]))
    if k in ("in", "notin"):
        return "(%s %s (%s))" % (sql_operand(p[1]), "IN" if k == "in" else "NOT IN", ", ".join(sql_value(v, t) for v, t in p[2]))
    if k in ("like", "notlike"):
        return "(%s %s %s)" % (sql_operand(p[1]), "LIKE" if k == "like" else "NOT LIKE", sql_str(p[2]))
    if k == "isnull":
        return "(%s IS NULL)" % sql_operand(p[1])
    if k == "isnotnull":
        return "(%s IS NOT NULL)" % sql_operand(p[1])
    if k == "bool":
        return "(%s)" % sql_operand(p[1])
    if k == "not":
        return "(NOT %s)" % sql_pred(p[1])
    if k == "and":
        return "(%s AND %s)" % (sql_pred(p[1]), sql_pred(p[2]))
    if k == "or":
        return "(%s OR %s)" % (sql_pred(p[1]), sql_pred(p[2]))
    if k == "isnottrue":
        return "(%s IS NOT TRUE)" % sql_pred(p[1])
    if k == "istrue":
        return "(%s IS TRUE)" % sql_pred(p[1])
    raise ValueError(k)


def atoms(p):
    k = p[0]
    if k in ("not", "isnottrue", "istrue"):
        return atoms(p[1])
    if k in ("and", "or"):
        return atoms(p[1]) + atoms(p[2])
    return [p]


def referenced_cols(p):
    out = set()
    for a in atoms(p):
        for o in a[1:]:
            if isinstance(o, tuple) and len(o) >= 2 and o[0] == "col":
                out.add(o[1])
    return out


# ---------------------------------------------------------------------------------------------
# Coq printing
# ---------------------------------------------------------------------------------------------
def cvalue(v):
    if v is None:
        return "VNull"
    k, x = v
    if k == "m":
        return "VMissing"
    if k == "n":
        return "(VNum %s)" % cz(x)
    if k == "s":
        b = x.encode()
        return "(VStr %s)" % (("[" + "; ".join(str(c) for c in b) + "]%N") if b else "(@nil N)")
    if k == "b":
        return "(VBool %s)" % cbool(x)
    return "(VTs %s)" % cz(x)


def coperand(o):
    if o[0] == "col":
        return "(OCol %d)" % o[1]
    return "(OLit %s)" % cvalue(o[1])


def cbytes_n(s):
    b = s.encode()
    return ("[" + "; ".join(str(c) for c in b) + "]%N") if b else "(@nil N)"


def cpred(p):
    k = p[0]
    if k == "const":
        return "(PConst %s)" % p[1]
    if k == "cmp":
        return "(PCmp %s %s %s)" % (COQ_OP[p[1]], coperand(p[2]), coperand(p[3]))
    if k == "between":
        return "(PBetween %s %s %s)" % (coperand(p[1]), coperand(p[2]), coperand(p[3]))
    if k in ("in", "notin"):
        return "(%s %s %s)" % ("PIn" if k == "in" else "PNotIn", coperand(p[1]), clist([cvalue(v) for v, _ in p[2]]))
    if k in ("like", "notlike"):
        return "(%s %s %s)" % ("PLike" if k == "like" else "PNotLike", coperand(p[1]), cbytes_n(p[2]))
    if k == "isnull":
        return "(PIsNull %s)" % coperand(p[1])
    if k == "isnotnull":
        return "(PIsNotNull %s)" % coperand(p[1])
    if k == "bool":
        return "(PBool %s)" % coperand(p[1])
    if k == "not":
        return "(PNot %s)" % cpred(p[1])
    if k in ("and", "or"):
        return "(%s %s %s)" % ("PAnd" if k == "and" else "POr", cpred(p[1]), cpred(p[2]))
    if k == "isnottrue":
        return "(PIsNotTrue %s)" % cpred(p[1])
    if k == "istrue":
        return "(PIsTrue %s)" % cpred(p[1])
    raise ValueError(k)


def obs_value(x, typ):
    if x is None:
        return None
    if typ == "int":
        return ("n", 4 * int(x))
    if typ == "dbl":
        return ("n", int(x))
    if typ == "str":
        return ("s", x)
    if typ == "bool":
        return ("b", bool(x))
    return ("t", int(x))


def obs_row(r, f=None):
    miss = file_schema(f or {})["missing"]
    # a and x are read back in quarter units whatever their physical type in the file
    return [("m", 0) if i in miss else obs_value(x, "dbl" if i in (1, 2) else t) for i, (x, (_, t)) in enumerate(zip(r, COLS))]


HEADER = """From Coq Require Import List ZArith NArith Bool.
From Arc Require Import Sql3VL.Model.
Import ListNotations.
Close Scope Z_scope.
Open Scope nat_scope.
Definition tg (tab : list row) (i : nat) : row := nth i tab [].
Definition mk_ds (tab : list row) (l : list (N * list nat)) : dataset := map (fun f : N * list nat => (fst f, map (tg tab) (snd f))) l.
Definition mk_resp (x : Z * bool * Z * Z * Z * Z) : response :=
  let '(a, b, c, d, e, f) := x in {| rs_status := a; rs_success := b; rs_deleted := c; rs_affected := d; rs_rewritten := e; rs_failed := f |}.
Definition raw_case : Type :=
  list row * (variant * (Z * Z) * (wclass * bool * pred * bool) * list (N * list nat) * (list (list tri) * list (list bool)) *
              (Z * bool * Z * Z * Z * Z) * list (N * list nat) * (Z * bool * Z * Z * Z * Z) * list (N * list nat) * bool).
Definition mk_case (r : raw_case) : ccase :=
  let '(tab, (v, (th, mx), (cl, full, p, conf), ds, (duck, srch), dresp, dds, rresp, after, sib)) := r in
  {| c_variant := v; c_cfg := {| cf_threshold := th; cf_max_rows := mx |};
     c_req := {| rq_class := cl; rq_full := full; rq_pred := p; rq_dry := false; rq_confirm := conf |};
     c_ds := mk_ds tab ds; c_duck := duck; c_search := srch; c_dry_resp := mk_resp dresp; c_dry_ds := mk_ds tab dds;
     c_resp := mk_resp rresp; c_after := mk_ds tab after; c_sibling_ok := sib |}.
Definition flags (r : raw_case) : bool * bool * bool * bool * bool * bool * bool :=
  let c := mk_case r in
  (case_agrees c, eval_agrees c, oracle_dry_unchanged c, oracle_exact c, oracle_count c, oracle_same_count c, search_is_faithful c).
"""
LABELS = ("agree", "eval", "o_dry", "o_exact", "o_count", "o_same", "faithful")


SEARCH_WITNESS = "zz_union_read_pushdown_rounding_eq.json"


def detect_search(out):
    """which affected-file search does the source implement?  The witness (x BIGINT = 1 in one file, DOUBLE in the
    other, where x = 1.25) is announced as 1 row by a search that inherits DuckDB's rounded pushed-down comparison
    ("union-where": the model then runs with the union read's observed WHERE verdicts) and as 0 rows by a search
    that judges rows as the single-file reads do ("ideal": the model runs with the ideal search)."""
    for c in out:
        if c.get("corpus") == SEARCH_WITNESS:
            return "union-where" if c["obs"]["dry"]["deleted"] == 1 else "ideal"
    return "union-where"


def case_to_coq(c, variant, svariant="union-where"):
    o = c["obs"]
    tab, idx = [], {}

    def rid(row):
        key = json.dumps(row)
        if key not in idx:
            idx[key] = len(tab)
            tab.append(row)
        return idx[key]

    fid = {f["path"]: i + 1 for i, f in enumerate(c["files"])}

    def nextid(p):
        if p not in fid:
            fid[p] = 1000 + len(fid)
        return fid[p]

    ds = clist(["(%d%%N, %s)" % (fid[f["path"]], clist(["%d" % rid(r) for r in f["rows"]])) for f in c["files"]])

    if o["dry_bytes_unchanged"]:
        o = dict(o, dry_files=o["before"])

    by_path = {f["path"]: f for f in c["files"]}

    def obs_ds(files):
        return clist(["(%d%%N, %s)" % (nextid(f["path"]), clist(["%d" % rid(obs_row(r, by_path.get(f["path"]))) for r in (f["rows"] or [])])) for f in files])

    # the fixture as DuckDB reads it back must be the fixture that was generated
    gen_rows = [(f["path"], [[None if v is None else tuple(v) for v in r] for r in f["rows"]]) for f in c["files"]]
    if [(f["path"], [obs_row(r, by_path.get(f["path"])) for r in (f["rows"] or [])]) for f in o["before"]] != gen_rows:
        raise vlib.InfraError("C10 fixture read-back differs from the generated dataset in case %s" % c["id"])

    if c["class"] == "WValid" and not o["verdict_err"]:
        duck = clist([clist([v if v in ("T", "F", "U") else "U" for v in o["verdicts"].get(f["path"], [])]) for f in c["files"]])
    else:
        duck = "[]"
    if c["class"] == "WValid" and svariant == "ideal" and not o["verdict_err"]:
        srch = clist([clist([cbool(v == "T") for v in o["verdicts"].get(f["path"], [])]) for f in c["files"]])
    elif c["class"] == "WValid" and not o.get("search_err"):
        srch = clist([clist([cbool(r[0][1] // 4 in set(o["search"].get(f["path"], []))) for r in f["rows"]]) for f in c["files"]])
    else:
        srch = "[]"
    duck = "(%s, %s)" % (duck, srch)

    def cresp(r):
        return "(%s, %s, %s, %s, %s, %s)" % (cz(r["status"]), cbool(r["success"]), cz(r["deleted"]), cz(r["affected"]), cz(r["rewritten"]), cz(r["failed"]))

    sib = o["sibling_ok"] and not o["leftovers"]
    body = "(%s, (%s, %s), (%s, %s, %s, %s), %s, %s, %s, %s, %s, %s, %s)" % (
        variant, cz(c["threshold"]), cz(c["max_rows"]), c["class"], cbool(c["full"]), cpred(c["pred"]), cbool(c["confirm"]),
        ds, duck, cresp(o["dry"]), obs_ds(o["dry_files"]), cresp(o["real"]), obs_ds(o["after"]), cbool(sib))
    return "(%s, %s)" % (clist([clist([cvalue(v) for v in r]) for r in tab]), body)


def eval_cases(out, variant, name, chunk=400, svariant="union-where"):
    res = {k: [] for k in LABELS}
    for off in range(0, len(out), chunk):
        part = out[off:off + chunk]
        src = HEADER + "Definition verif_cases : list raw_case := [\n" + ";\n".join(case_to_coq(c, variant, svariant) for c in part) + "].\n"
        src += "Definition verif_flags := Eval vm_compute in map flags verif_cases.\nPrint verif_flags.\n"
        rc, o = vlib.coq_eval("C10", "%s_%d" % (name, off), src)
        m = re.search(r"verif_flags\s*=\s*(.*?)\s*:\s*list", o, re.S)
        b = r"\s*(true|false)\s*"
        tuples = re.findall(r"\(" + ",".join([b] * len(LABELS)) + r"\)", m.group(1)) if m else None
        if rc != 0 or tuples is None or len(tuples) != len(part):
            raise vlib.InfraError("C10 case evaluation failed: " + o[-2500:])
        for i, t in enumerate(tuples):
            for k, v in zip(LABELS, t):
                if v == "false":
                    res[k].append(off + i)
    res["oracle"] = sorted(set(res["o_dry"]) | set(res["o_exact"]) | set(res["o_count"]) | set(res["o_same"]))
    return res


# ---------------------------------------------------------------------------------------------
# cases
# ---------------------------------------------------------------------------------------------
REJECTED = ["", "   ", "a = 1; DROP TABLE x", "a = 1 -- c", "a = 1 /* c */ OR a = 2", "a IN (SELECT 1)", "s = 'it's'", "(a = 1",
            "a = 1)", "a = 1 OR glob('/x') IS NOT NULL", "a = 1 UNION ALL", "x = 1 or update = 2", "a = 1 AND read_parquet ('/etc/x') IS NULL",
            "id > 0 AND \"glob\"('*') IS NOT NULL", "a = 1 OR delete", "CALL pragma_version()"]
QUERYERR = ["nosuchcol = 1", "a = 1 +", "a = 'zz'", "(a = 1) AND (nosuch IS NULL)", "s LIKE", "a ===== 1", "WHERE a = 1"]
FULL = ["1=1", "TRUE", "true", " 1=1 ", "  True"]


def absent_everywhere(c):
    """columns the predicate names that NO file of the measurement has: the union read does not bind either,
    DuckDB refuses every count query (class WQueryError) - unless there is no parquet file at all"""
    if not c["files"]:
        return set()
    everywhere = set.intersection(*[set(file_schema(f)["missing"]) for f in c["files"]])
    return referenced_cols(c["pred"]) & everywhere


def classify(c):
    """class / full flag of a grammar predicate against this dataset"""
    c["full"] = is_full_text(c["where"])
    c["class"] = "WQueryError" if absent_everywhere(c) else "WValid"
    return c


def is_full_text(where):
    """validateWhereClause's full-table forms (the text, trimmed and upper-cased, is 1=1 / TRUE / 1)"""
    w = where.strip().upper()
    if w.startswith("WHERE "):
        w = w[6:].strip()
    return w in ("1=1", "TRUE", "1")


def gen_case(rng, cid):
    files = gen_dataset(rng, cid)
    k = rng.random()
    c = {"id": cid, "files": files, "confirm": rng.random() < 0.85, "threshold": 10000, "max_rows": 1000000, "full": False,
         "class": "WValid"}
    if k < 0.05:
        c.update({"class": "WRejected", "where": rng.choice(REJECTED), "pred": ("const", "F"), "kind": "rejected"})
    elif k < 0.09:
        w = rng.choice(QUERYERR + ["WHERE 1=1"])
        c.update({"class": "WQueryError", "where": w, "pred": ("const", "F"), "full": w == "WHERE 1=1", "kind": "queryerror"})
    elif k < 0.13:
        c.update({"where": rng.choice(FULL), "pred": ("const", "T"), "full": True, "kind": "full", "confirm": rng.random() < 0.7})
    else:
        p = gen_pred(rng, rng.choice([1, 2, 2, 2, 3]), top=True)
        c.update({"where": sql_pred(p), "pred": p, "kind": "pred"})
        classify(c)       # exactly TRUE = "full table delete"; a column no file has = DuckDB refuses the query
    g = rng.random()
    if g < 0.10:
        c["max_rows"] = rng.choice([0, 1, 2, 3])
    elif g < 0.22:
        c["threshold"] = rng.choice([0, 1, 2])
        c["confirm"] = rng.random() < 0.4
    return c


def witness_cases():
    out = []
    d = os.path.join(vlib.ROOT, "corpus", "C10")
    for fn in sorted(os.listdir(d)) if os.path.isdir(d) else []:
        if fn.endswith(".json"):
            c = json.load(open(os.path.join(d, fn)))
            c["corpus"] = fn
            c["pred"] = tuplify(c["pred"])
            for f in c["files"]:
                f["rows"] = [[None if v is None else tuple(v) for v in r] for r in f["rows"]]
            out.append(c)
    return out


def tuplify(x):
    if isinstance(x, list):
        return tuple(tuplify(y) for y in x) if (x and isinstance(x[0], str) and x[0] in (
            "const", "cmp", "between", "in", "notin", "like", "notlike", "isnull", "isnotnull", "bool", "not", "and", "or",
            "isnottrue", "istrue", "col", "lit", "n", "s", "b", "t")) else [tuplify(y) for y in x]
    return x


def to_harness(c, idx):
    """rename the database to c<idx> so that cases never share a directory"""
    def rp(p):
        return re.sub(r"^c\d+/", "c%d/" % idx, p)
    sib_rows = [[("n", 4 * 900), ("n", 4), ("n", 4), ("s", "a"), ("b", True), ("t", T0)], [("n", 4 * 901), None, None, None, None, None]]
    return {"id": idx, "database": "c%d" % idx, "measurement": "m",
            "files": [{"path": rp(f["path"]), "create_sql": create_sql(f["rows"], f), "select_list": select_list(f)} for f in c["files"]],
            "sibling": [{"path": "c%d/m2/2024/01/01/00/s.parquet" % idx, "create_sql": create_sql(sib_rows)},
                        {"path": "c%d/m/notes.txt" % idx, "create_sql": "not a parquet file"}],
            "select_list": SELECT_LIST, "where": c["where"], "confirm": c["confirm"], "threshold": c["threshold"], "max_rows": c["max_rows"]}


def run_impl(cases, tag, batch=800):
    if not cases:
        vlib.run_go_harness("C10", "./internal/api/", "^TestVerifDelete$", HARNESS, [], tags=TAGS, tag=tag)
        return []
    out = []
    for off in range(0, len(cases), batch):          # one `go test` per batch (go's 10 min test timeout)
        part = cases[off:off + batch]
        obs = vlib.run_go_harness("C10", "./internal/api/", "^TestVerifDelete$", HARNESS, [to_harness(c, i) for i, c in enumerate(part)],
                                  tags=TAGS, tag=tag if off == 0 else "%s_b%d" % (tag, off // batch), timeout=1500)
        if len(obs) != len(part):
            raise vlib.TieBroken("C10 harness returned %d results for %d cases" % (len(obs), len(part)))
        for i, (c, o) in enumerate(zip(part, obs)):
            c2 = dict(c)
            c2["files"] = [dict(f, path=re.sub(r"^c\d+/", "c%d/" % i, f["path"])) for f in c["files"]]
            c2["obs"] = o
            out.append(c2)
    return out


def detect_variant(w):
    ids = [r[0] for f in w["obs"]["after"] for r in (f["rows"] or [])]
    return "KeepNotPred" if ids == [3] else ("KeepIsNotTrue" if ids == [1, 3] else "KeepNotPred")


def has_signature(c):
    """a NULL verdict in a file that also has a TRUE verdict"""
    for vs in c["obs"]["verdicts"].values():
        if "T" in vs and "U" in vs:
            return True
    return False


def nontrivial(c):
    if c["class"] != "WValid" or len(atoms(c["pred"])) < 2:
        return False
    cols = referenced_cols(c["pred"])
    return any(r[i] is None for f in c["files"] for r in f["rows"] for i in cols)


def reclass(c):
    return classify(c) if c.get("kind") == "pred" else c


def shrink_case(c, fails, budget=30):
    cur, steps, changed = c, 0, True
    while changed and steps < budget:
        changed = False
        cands = []
        for i in range(len(cur["files"])):
            if len(cur["files"]) > 1:
                cands.append(reclass(dict(cur, files=cur["files"][:i] + cur["files"][i + 1:])))
            for j in range(len(cur["files"][i]["rows"])):
                fs = [dict(f) for f in cur["files"]]
                fs[i]["rows"] = fs[i]["rows"][:j] + fs[i]["rows"][j + 1:]
                cands.append(dict(cur, files=fs))
        p = cur["pred"]
        if cur["class"] == "WValid" and not cur["full"] and p[0] in ("not", "and", "or", "isnottrue", "istrue"):
            for sub in p[1:]:
                cands.append(reclass(dict(cur, pred=sub, where=sql_pred(sub))))
        for d in cands:
            steps += 1
            if steps > budget:
                break
            d = {k: v for k, v in d.items() if k != "obs"}
            if fails(d):
                cur, changed = d, True
                break
    return cur


def jsonable(c):
    return json.loads(json.dumps(c))


# ---------------------------------------------------------------------------------------------
# integer constants of delete.go -> Params_Sql3VL and file-count boundary cases
# ---------------------------------------------------------------------------------------------
def translate_params():
    """Every package-level integer constant of internal/api/delete.go, evaluated by the Go compiler from the
    CURRENT source.  The model has no batching, chunking or limit on the number of files, so any such constant
    that is a plausible file count is a boundary the generator must straddle."""
    decls = [c for c in vlib.goast("consts", "internal/api") if c["file"] == "internal/api/delete.go" and c["kind"] == "const"
             and c.get("value") and re.fullmatch(r"[0-9_\s+\-*/()<A-Za-z]+", c["value"]) and not re.search(r"[\"'`.]", c["value"])]
    items = [("c:" + c["name"], c["file"], c["name"]) for c in decls]
    vals = {}
    if items:
        try:
            vals = {k[2:]: v for k, v in vlib.go_eval_consts(items).items()}
        except vlib.TieBroken:
            for it in items:                       # one non-integer constant must not hide the others
                try:
                    vals[it[0][2:]] = vlib.go_eval_consts([it])[it[0]]
                except vlib.TieBroken:
                    pass
    body = "(* GENERATED by tools/props/C10.py from the current /repo sources - do not edit *)\n"
    body += "From Coq Require Import ZArith List String.\nImport ListNotations.\nOpen Scope Z_scope.\nOpen Scope string_scope.\n"
    body += "(* package-level integer constants of internal/api/delete.go, evaluated by the Go compiler *)\n"
    body += "Definition delete_int_consts : list (string * Z) := [" + "; ".join('("%s", %d)' % (k, v) for k, v in sorted(vals.items())) + "].\n"
    vlib.write_params("Params_Sql3VL", body)
    return vals


def big_case(rng, nfiles, marks, note):
    """a measurement of many tiny files (listing order = index order), predicate a = 1; the files at the indices in
    `marks` hold a selected row (plus rows that must stay)"""
    files = []
    nid = 1
    for i in range(nfiles):
        rows = []
        for k in range(rng.choice([1, 2, 2, 3])):
            rows.append([("n", 4 * nid), rng.choice([("n", 8), ("n", 12), None]), None, ("s", "a"), ("b", True), ("t", T0)])
            nid += 1
        if i in marks:
            rows[rng.randrange(len(rows))][1] = ("n", 4)
            rows.append([("n", 4 * nid), ("n", 8), None, ("s", "b"), ("b", False), ("t", T0)])      # so that the file survives
            nid += 1
        files.append({"path": "c0/m/2024/01/%02d/%02d/f%04d.parquet" % (1 + i // 2400, (i // 100) % 24, i), "rows": rows,
                      "schema": {"a": "int", "x": "dbl", "missing": []}})
    p = ("cmp", "=", ("col", 1), ("lit", ("n", 4), "int"))
    return {"id": 0, "kind": "many-files", "note": note, "files": files, "confirm": True, "threshold": 10 ** 6, "max_rows": 10 ** 9,
            "full": False, "class": "WValid", "where": sql_pred(p), "pred": p}


def big_cases(rng, consts):
    """file counts c-1, c, c+1, 2c, 2c+1 for every integer constant c <= 2000 of delete.go, selected rows in the first
    file, in the last file of every block of c files and in the file after it; without such a constant one
    130-file measurement with a selected row in every file"""
    out = []
    for name, c in sorted(consts.items()):
        if not (2 <= c <= 2000):
            continue
        for n in (c - 1, c, c + 1, 2 * c, 2 * c + 1):
            marks = {0, n - 1} | {k * c - 1 for k in range(1, n // c + 1)} | {k * c for k in range(1, n // c + 1) if k * c < n}
            marks |= {i for i in range(n) if rng.random() < 0.05}
            out.append(big_case(rng, n, marks, "%d files around delete.go constant %s = %d" % (n, name, c)))
    if not out:
        out.append(big_case(rng, 130, set(range(130)), "130 files (delete.go declares no integer constant <= 2000)"))
    return out


def setup():
    translate_params()


def warm():
    run_impl([], "warm")


def run(res, tier, seed):
    rng = random.Random(seed * 7919 + 10)
    failed = vlib.std_proof_stage(res, "C10", AREA, MODULES, THEOREMS)
    res.cov["trusted_base"] += [
        "DuckDB's evaluation of the WHERE text is modelled by the Kleene evaluator Arc.Sql3VL.Model.eval over the predicate AST; the SQL printer (tools/props/C10.py) and the evaluator are compared with DuckDB's SELECT (<where>) on every generated (row, predicate) - numbers in this file",
        "values: BIGINT/DOUBLE as exact quarter units (small magnitudes), ASCII strings (bytewise order, LIKE with % and _), booleans, microsecond timestamps; NaN/inf, non-ASCII text, collations, casts, arithmetic and functions in predicates are outside the grammar",
        "files of a measurement may differ in schema: a numeric field BIGINT in some files and DOUBLE in others (exact in the model; DuckDB's union type DOUBLE is exact for the generated magnitudes) and columns absent from some files (NULL through the union_by_name search, unbound in the single-file rewrite => reported failed file, modelled); other type conflicts (VARCHAR vs numeric) are outside the generator; local storage backend (the S3/Azure rewrite path runs the same SQL; upload not exercised); standalone mode (no cluster manifest)",
        "Parquet write/read round trip by DuckDB (COPY ... TO, read_parquet) preserves values and, with preserve_insertion_order forced as the code does, row order; checked on every case by reading the files back",
    ]
    if tier == "thorough":
        ok, _ = vlib.coqchk_stage(res, MODULES)
        if not ok:
            failed.append(("coqchk", "coqchk did not accept the compiled development"))

    n = int(os.environ.get("VERIF_N") or (300 if tier == "quick" else 4000))
    t1 = time.time()
    wit = witness_cases()
    t0 = time.time()
    consts = translate_params()
    res.stage("translate_params", t0)
    res.cov["params"] = {"delete_go_int_consts": consts}
    big = big_cases(rng, consts)
    cases = wit + big + [gen_case(rng, 1000 + i) for i in range(n)]
    out = run_impl(cases, tier)
    res.stage("impl_harness", t1)
    variant = detect_variant(out[0]) if wit else "KeepNotPred"
    res.cov["rewrite_variant"] = {"KeepNotPred": "as-is: WHERE NOT (p)", "KeepIsNotTrue": "repaired: WHERE (p) IS NOT TRUE"}[variant]

    t2 = time.time()
    svariant = detect_search(out)
    res.cov["search_variant"] = {"union-where": "as-is: one union_by_name read ... WHERE <p> (inherits DuckDB's pushed-down comparison on each file's own type)",
                                 "ideal": "judges rows as the single-file reads do"}[svariant]
    r = eval_cases(out, variant, "Cases_%s" % tier, svariant=svariant)
    res.stage("coq_eval", t2)
    dis = r["agree"]

    valid = [c for c in out if c["class"] == "WValid"]
    res.cov["evaluations"] = len(out)
    res.cov["evaluator_vs_duckdb"] = {"row_predicate_pairs": sum(len(f["rows"]) for c in valid for f in c["files"]),
                                      "disagreements": len(r["eval"]),
                                      "verdicts": {k: sum(vs.count(k) for c in valid for vs in c["obs"]["verdicts"].values()) for k in "TFU"}}
    keys = {hashlib.sha1(json.dumps({"f": c["files"], "w": c["where"], "c": [c["confirm"], c["threshold"], c["max_rows"]]}, sort_keys=True).encode()).hexdigest()
            for c in out if nontrivial(c)}
    res.cov["distinct_nontrivial"] = len(keys)
    res.cov["rule"] = ("datasets of 1-4 parquet files (0-6 rows, columns BIGINT/BIGINT/DOUBLE/VARCHAR/BOOLEAN/TIMESTAMP, NULL density 0-50 %) x WHERE texts "
                       "(grammar predicates of depth <= 3; rejected texts; texts DuckDB refuses; full-table forms) x confirm flag / threshold / max_rows gates; "
                       "per-file schemas (same field BIGINT in one file and DOUBLE in another, columns absent from some files); "
                       "each sent as dry run then for real; non-trivial = >= 1 NULL in a referenced column and >= 2 atoms; distinct by sha1(files, where, gates)")
    res.cov["model_vs_impl_disagreements"] = len(dis)
    res.cov["oracle_failures"] = len(r["oracle"])
    hist = {"kind": {}, "status_real": {}, "status_dry": {}, "atoms": {}, "files": {}, "atom_kinds": {},
            "cases_with_null_verdict_in_affected_file": sum(1 for c in valid if has_signature(c)),
            "files_removed_entirely": sum(1 for c in out if len(c["obs"]["after"]) < len(c["files"])),
            "datasets_with_mixed_numeric_type": sum(1 for c in out if len({file_schema(f)["a"] for f in c["files"]} ) > 1 or len({file_schema(f)["x"] for f in c["files"]}) > 1),
            "datasets_with_absent_column": sum(1 for c in out if any(file_schema(f)["missing"] for f in c["files"])),
            "files_judged_through_union_read": sum(len(c["obs"].get("unbound") or []) for c in out),
            "runs_with_failed_rewrite_207": sum(1 for c in out if c["obs"]["real"]["status"] == 207),
            "many_files_cases": [len(c["files"]) for c in out if c.get("kind") == "many-files"]}
    for c in out:
        hist["kind"][c.get("kind", "corpus")] = hist["kind"].get(c.get("kind", "corpus"), 0) + 1
        for k, rr in (("status_real", c["obs"]["real"]), ("status_dry", c["obs"]["dry"])):
            hist[k][str(rr["status"])] = hist[k].get(str(rr["status"]), 0) + 1
        hist["files"][str(len(c["files"]))] = hist["files"].get(str(len(c["files"])), 0) + 1
        if c["class"] == "WValid":
            na = len(atoms(c["pred"]))
            hist["atoms"][str(min(na, 6))] = hist["atoms"].get(str(min(na, 6)), 0) + 1
            for a in atoms(c["pred"]):
                hist["atom_kinds"][a[0]] = hist["atom_kinds"].get(a[0], 0) + 1
    res.cov["histogram"] = hist

    def brief(c):
        return {"where": c["where"], "class": c["class"], "files": [len(f["rows"]) for f in c["files"]], "confirm": c["confirm"],
                "dry": c["obs"]["dry"], "real": c["obs"]["real"], "verdicts": list(c["obs"]["verdicts"].values())}
    res.cov["samples"] = [brief(out[0]), brief(out[len(out) // 3]), brief(out[-1])]

    reported = False
    # the evaluator (oracle half of the model) disagrees with DuckDB: the model is wrong about SQL
    for i in r["eval"][:2]:
        res.violation("Kleene evaluator and DuckDB disagree on a (row, predicate)",
                      {"kind": "correspondence", "correspondence": TIE_NAME + " / evaluator vs SELECT (<where>)", "case": jsonable(out[i])},
                      no_input=(i not in r["oracle"]), suffix="eval")
        reported = True
    known = [k for k in vlib.known_for("C10") if k.get("signature") == SIGNATURE]
    pure_dis = [i for i in dis if i not in r["eval"]]
    kf = [i for i in r["oracle"] if i not in dis and has_signature(out[i]) and i not in r["faithful"] and not r["o_dry"].count(i) and not r["o_count"].count(i)]
    # the union read did not judge the rows as the single-file reads do (hypothesis search_faithful is false on
    # DuckDB's own answers), the model run with the OBSERVED search verdicts predicts the implementation exactly,
    # and the property fails: the finding about the affected-file search
    unfaithful = set(r["faithful"])
    known_s = [k for k in vlib.known_for("C10") if k.get("signature") == SIG_SEARCH]
    ks = [i for i in r["oracle"] if i not in dis and i in unfaithful and i not in r["o_dry"] and i not in r["o_count"]]
    res.cov["search_hypothesis"] = {"cases_checked": len(valid), "union_read_differs_from_single_file_reads": len(unfaithful),
                                    "of_which_property_fails": len(ks)}
    other = [i for i in r["oracle"] if i not in kf and i not in ks]
    if ks:
        if known_s and svariant == "union-where":
            res.known_finding("%s: for a field that is BIGINT in one file and DOUBLE in another, DuckDB's union_by_name read evaluates a pushed-down "
                              "comparison with a fractional constant on the BIGINT file with the constant rounded, so the affected-file search misses files "
                              "(selected rows survive a successful delete) or over-counts (dry-run count != deleted count) - %d of %d generated cases, each "
                              "exactly as Arc.Sql3VL.Model.delete_run_s with the observed search verdicts predicts; witness corpus/C10/zz_union_read_pushdown_rounding.json"
                              % (SIG_SEARCH, len(ks), len(out)))
            res.cov["known_finding_cases_search"] = len(ks)
        else:
            res.violation("the affected-file search (union read) judged rows differently from the per-file rewrite and the property failed",
                          {"kind": "oracle", "oracle": [k for k in ("o_exact", "o_same") if ks[0] in r[k]], "case": jsonable(out[ks[0]])}, suffix="oracle")
            reported = True
    if kf:
        if known and variant == "KeepNotPred":
            res.known_finding("%s: the rewrite keeps WHERE NOT (p), so rows where p is NULL in a file that also has a matching row are deleted too, "
                              "and the dry run reports a smaller count - %d of %d generated cases, each exactly as Arc.Sql3VL.Model.delete_run KeepNotPred "
                              "predicts; witness corpus/C10/witness_null_row.json" % (SIGNATURE, len(kf), len(out)))
            res.cov["known_finding_cases"] = len(kf)
        else:
            res.violation("delete removed rows whose predicate is NULL", {"kind": "oracle", "oracle": "oracle_exact", "case": jsonable(out[kf[0]])}, suffix="oracle")
            reported = True
    for i in other[:3]:
        which = [k for k in ("o_dry", "o_exact", "o_count", "o_same") if i in r[k]]
        res.violation("property oracle %s fails on the implementation's output" % ",".join(which),
                      {"kind": "oracle", "oracle": which, "case": jsonable(out[i])}, suffix="oracle")
        reported = True
    if failed and not reported:
        res.violation("proof obligation(s) no longer check: " + "; ".join(x for _, x in failed),
                      {"kind": "obligation-failed", "theorems": [t for t, _ in failed], "detail": [x for _, x in failed]},
                      no_input=True, suffix="obligation")
    if pure_dis:
        c = out[pure_dis[0]]

        def still(cand):
            o = run_impl([cand], "shrink")
            return bool(eval_cases(o, variant, "Shrink", svariant=svariant)["agree"])
        # (a many-files case is reported as it is: every shrink step would re-run hundreds of files)
        small = shrink_case(c, still) if (len(pure_dis) < 60 and len(c["files"]) <= 40) else c
        small_out = run_impl([{k: v for k, v in small.items() if k != "obs"}], "shrink")
        rr = eval_cases(small_out, variant, "Shrink", svariant=svariant)
        res.violation("model and implementation disagree on a delete request",
                      {"kind": "correspondence", "correspondence": TIE_NAME, "case": jsonable(small_out[0]), "disagreeing_cases": len(pure_dis),
                       "rewrite_variant": res.cov["rewrite_variant"], "oracle_fails_on_impl": bool(rr["oracle"])},
                      no_input=not rr["oracle"], suffix="corr")


def replay(res, path):
    obj = json.load(open(path))
    c = obj.get("case") or (obj if "files" in obj else None)
    if not c:
        print("replay file names no concrete case:", obj.get("summary"))
        return 1
    c = {k: v for k, v in c.items() if k != "obs"}
    c["pred"] = tuplify(c["pred"])
    for f in c["files"]:
        f["rows"] = [[None if v is None else tuple(v) for v in r] for r in f["rows"]]
    wit = witness_cases()
    wout = run_impl(wit, "replayw") if wit else []
    variant = detect_variant(wout[0]) if wit else "KeepNotPred"
    svariant = detect_search(wout)
    out = run_impl([c], "replay")
    r = eval_cases(out, variant, "Replay", svariant=svariant)
    o = out[0]["obs"]
    print("where:", c["where"], "| dry:", o["dry"], "| real:", o["real"], "| verdicts:", o["verdicts"],
          "| after ids:", [[row[0] for row in (f["rows"] or [])] for f in o["after"]],
          "| model disagrees:", bool(r["agree"]), "| evaluator disagrees:", bool(r["eval"]), "| oracle fails:", [k for k in LABELS[2:] if r[k]])
    return 1 if (r["agree"] or r["oracle"]) else 0
