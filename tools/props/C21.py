"""C21 - Revoked, deleted or rotated token values stop authenticating immediately.

(work in progress: overlay generation + harness runner)
"""
import json
import os
import random
import re
import time

import vlib
from vlib import cz, cn, cbool, clist

AREA = "TokenCache"
PKG = "./internal/auth/"
HARNESS = {"internal/auth/zz_tokencache_verif_test.go": "harness/tokencache/tokencache_verif_test.go"}
SEC = 10 ** 9
T0 = 1_700_000_000 * SEC


def func_span(text, header_re, rel):
    """(start, end) of the top-level function whose header matches header_re."""
    m = re.search(header_re, text, re.M)
    if not m:
        raise vlib.TieBroken("function %s not found in %s" % (header_re, rel))
    n = text.find("\nfunc ", m.end())
    return m.start(), (n if n >= 0 else len(text))


def sub_once(body, pattern, repl, what, rel):
    new, n = re.subn(pattern, repl, body, count=1, flags=re.M)
    if n != 1:
        raise vlib.TieBroken("overlay anchor for %s (%s) not found in %s" % (what, pattern, rel))
    return new


def instrument_sources():
    """Generated copies of the CURRENT auth.go / cluster_apply.go with the controlled clock and
    the schedule points.  Returns {rel: generated path}."""
    out = {}
    rel = "internal/auth/auth.go"
    text = open(os.path.join(vlib.REPO, rel)).read()
    a, b = func_span(text, r"^func \(am \*AuthManager\) VerifyToken\(", rel)
    body = text[a:b]
    # schedule point 1: after the cache lookup missed, before the token query
    body = sub_once(body, r"^(\s*)(rows, err :?= am\.db\.Query\()", r'\1verifPoint("v-after-lookup")\n\1\2', "token query in VerifyToken", rel)
    # schedule point 2: matching row read and checked, before the cache insert takes the lock
    body = sub_once(body, r"^(\s*)(am\.cacheMu\.Lock\(\))", r'\1verifPoint("v-after-dbread")\n\1\2', "cache insert lock in VerifyToken", rel)
    # schedule point 3: after the cache insert
    body = sub_once(body, r"^(\s*)(am\.cacheMu\.Unlock\(\))", r'\1\2\n\1verifPoint("v-after-insert")', "cache insert unlock in VerifyToken", rel)
    text = text[:a] + body + text[b:]
    # generic points, derived from the CURRENT source: VerifyToken and every function of the package
    # reachable from it that touches the cache get a point after every RUnlock/Unlock and before every
    # Lock/RLock of cacheMu (the exploration cases park there; model-driven cases run through)
    text, gpoints = insert_generic_points(text, rel)
    # schedule point of the cache janitor: after it read the clock (and whatever it does before), right before its WRITE lock
    a, b = func_span(text, r"^func \(am \*AuthManager\) cleanupExpiredCache\(", rel)
    body = sub_once(text[a:b], r"^(\s*)(am\.cacheMu\.Lock\(\))", r'\1verifPoint("j-before-lock")\n\1\2', "write lock in cleanupExpiredCache", rel)
    text = text[:a] + body + text[b:]
    text, n = re.subn(r"^(\s*)am\.InvalidateCache\(\)[ \t]*$", r'\1verifPoint("m-after-update")\n\1am.InvalidateCache()\n\1verifPoint("m-after-invalidate")', text, flags=re.M)
    if n < 3:
        raise vlib.TieBroken("fewer than 3 `am.InvalidateCache()` statements in %s (found %d): revoke/delete/rotate no longer invalidate directly" % (rel, n))
    if "time.Now()" not in text:
        raise vlib.TieBroken("time.Now() not used in %s" % rel)
    text = text.replace("time.Now()", "verifNow()")
    text = sub_once(text, r"^const pbkdf2Iterations = [\d_]+", "const pbkdf2Iterations = 1", "pbkdf2Iterations", rel)
    out[rel] = vlib.gen_file(os.path.join("C21", rel), text)

    rel = "internal/auth/cluster_apply.go"
    text = open(os.path.join(vlib.REPO, rel)).read()
    a, b = func_span(text, r"^func \(am \*AuthManager\) invalidateAndReturn\(", rel)
    body = sub_once(text[a:b], r"^(\s*)am\.InvalidateCache\(\)[ \t]*$",
                    r'\1verifPoint("m-after-update")\n\1am.InvalidateCache()\n\1verifPoint("m-after-invalidate")', "InvalidateCache in invalidateAndReturn", rel)
    text = text[:a] + body + text[b:]
    text = text.replace("time.Now()", "verifNow()")
    out[rel] = vlib.gen_file(os.path.join("C21", rel), text)
    return out


GENERIC_POINTS = {}


def insert_generic_points(text, rel):
    funcs = {f["name"]: f for f in vlib.goast("funcs", "internal/auth") if f["file"] == rel or f["pkg"] == "auth"}
    if "VerifyToken" not in funcs:
        raise vlib.TieBroken("VerifyToken not found by go/ast")
    reach, todo = set(), ["VerifyToken"]
    while todo:
        n = todo.pop()
        if n in reach or n not in funcs:
            continue
        reach.add(n)
        todo += [c for c in (funcs[n]["calls"] or []) if c in funcs]
    points = []
    for name in sorted(reach):
        f = funcs[name]
        if f["file"] != rel:
            continue
        m = re.search(r"^func (\([^)]*\) )?%s\(" % re.escape(name), text, re.M)
        if not m:
            continue
        end = text.find("\nfunc ", m.end())
        end = end if end >= 0 else len(text)
        body = text[m.start():end]
        if "am.cache" not in body and "cacheMu" not in body:
            continue
        cnt = [0]

        def after(mm):
            cnt[0] += 1
            points.append("g:%s:%d" % (name, cnt[0]))
            return '%s%s\n%sverifPoint("g:%s:%d")' % (mm.group(1), mm.group(2), mm.group(1), name, cnt[0])

        def before(mm):
            cnt[0] += 1
            points.append("g:%s:%d" % (name, cnt[0]))
            return '%sverifPoint("g:%s:%d")\n%s%s' % (mm.group(1), name, cnt[0], mm.group(1), mm.group(2))
        body = re.sub(r"^([ \t]*)(am\.cacheMu\.(?:RUnlock|Unlock)\(\))[ \t]*$", after, body, flags=re.M)
        body = re.sub(r"^([ \t]*)(am\.cacheMu\.(?:RLock|Lock)\(\))[ \t]*$", before, body, flags=re.M)
        text = text[:m.start()] + body + text[end:]
    if not points:
        raise vlib.TieBroken("no cacheMu lock boundary found in VerifyToken or its callees")
    GENERIC_POINTS["points"] = points
    return text, points


def run_impl(cases, tag):
    overlay = instrument_sources()
    for virt, real in HARNESS.items():
        overlay[virt] = os.path.join(vlib.ROOT, real)
    d = os.path.join(vlib.WORK, "cases", "C21")
    os.makedirs(d, exist_ok=True)
    cin, cout = os.path.join(d, tag + "_in.json"), os.path.join(d, tag + "_out.json")
    json.dump(cases, open(cin, "w"))
    if os.path.exists(cout):
        os.remove(cout)
    rc, out = vlib.go_test(PKG, "^TestVerifTokenCache$", overlay=overlay,
                           env={"VERIF_CASES": cin, "VERIF_OUT": cout}, name="C21_" + tag)
    if rc != 0 or not os.path.exists(cout):
        raise vlib.TieBroken("C21 harness failed against the current source (rc=%d):\n%s" % (rc, out[-3000:]))
    obs = json.load(open(cout))
    if len(obs) != len(cases):
        raise vlib.TieBroken("C21 harness returned %d results for %d cases" % (len(obs), len(cases)))
    nfatal = [o for o in obs if o.get("fatal")]
    if nfatal and len(nfatal) == len(obs):
        raise vlib.TieBroken("C21 harness: every case failed, e.g. case %s: %s" % (nfatal[0]["id"], nfatal[0]["fatal"]))
    return obs      # a case the harness could not drive to the end is a disagreement of that case


# ---------------------------------------------------------------------------------------
# parameters re-extracted from the current source (coq/gen/Params_TokenCache.v)
# ---------------------------------------------------------------------------------------
THEOREMS = [("Arc.TokenCache.Obligations", t) for t in (
    # PRIMARY: the statements about the code as it is now (parameters re-extracted each run)
    "C21_deployed_revoked_value_rejected", "C21_deployed_unexpired", "C21_deployed_single_connection",
    "C21_deployed_keeps_connection", "C21_deployed_clamped", "C21_deployed_writers_invalidate")] + [("Arc.TokenCache.Props", t) for t in (
        "C21_no_stale_after_return", "C21_revoked_value_rejected", "C21_unexpired_when_clamped", "C21_schedules_are_runs",
        # statements about other variants: pool of 2 (necessity of the single connection), unclamped cache expiry (before 7177f8c)
        "C21_pool2_stale_refuted", "C21_expiry_refuted", "C21_expiry_overshoot_bounded")]
MODULES = ["Arc.TokenCache.Props", "Arc.TokenCache.Obligations"]
TIE_NAME = ("C21 correspondence (forced schedules on the real AuthManager vs Arc.TokenCache.Model.run_sched) / "
            "Params_TokenCache (SetMaxOpenConns, cache expiry expression, api_tokens writers)")

CLAMP_FIXED_RE = re.compile(r"if\s+expiresAt\.Valid\s*&&\s*expiresAt\.Time\.Before\((\w+)\)\s*\{\s*\1\s*=\s*expiresAt\.Time\s*\}")


def translate_params():
    rel = "internal/auth/auth.go"
    sites = [s for s in vlib.goast("calls", "^SetMaxOpenConns$", rel) if s["func"] == "NewAuthManager"]
    if len(sites) != 1 or not sites[0]["args"]:
        raise vlib.TieBroken("expected exactly one db.SetMaxOpenConns(..) in NewAuthManager, found %d" % len(sites))
    arg = sites[0]["args"][0]
    if re.fullmatch(r"\d+", arg):
        pool = int(arg)
    elif sites[0]["constlike"][0]:
        pool = vlib.go_eval_consts([("pool", rel, arg)])["pool"]
    else:
        raise vlib.TieBroken("SetMaxOpenConns argument %r is not a constant" % arg)
    text = open(os.path.join(vlib.REPO, rel)).read()
    a, b = func_span(text, r"^func \(am \*AuthManager\) VerifyToken\(", rel)
    body = text[a:b]
    m = re.search(r"am\.cache\[key\]\s*=\s*cacheEntry\{(.*?)\n\s*\}", body, re.S)
    if not m:
        raise vlib.TieBroken("cache insert `am.cache[key] = cacheEntry{...}` not found in VerifyToken")
    m2 = re.search(r"expiresAt:\s*([^\n]*?),?\s*$", m.group(1), re.M)
    if not m2:
        raise vlib.TieBroken("expiresAt field of the cache entry not found in VerifyToken")
    expr = m2.group(1).strip()
    if expr == "now.Add(am.cacheTTL)":
        clamp = False
    else:
        mm = CLAMP_FIXED_RE.search(body)
        if re.fullmatch(r"\w+", expr) and mm and mm.group(1) == expr and re.search(r"\b%s\s*:=\s*now\.Add\(am\.cacheTTL\)" % re.escape(expr), body):
            clamp = True
        else:
            raise vlib.TieBroken("unrecognised cache expiry expression %r in VerifyToken (known forms: now.Add(am.cacheTTL); "
                                 "x := now.Add(am.cacheTTL) clamped by `if expiresAt.Valid && expiresAt.Time.Before(x) { x = expiresAt.Time }`)" % expr)
    # the query's rows (and with them the pooled connection) stay open until VerifyToken returns:
    # deferred Close, and no explicit rows.Close() before the cache insert
    ins = body.find("am.cache[key]")
    keeps_rows = bool(re.search(r"defer\s+rows\.Close\(\)", body)) and not re.search(r"^\s*rows\.Close\(\)", body[:ins], re.M)
    # writers of api_tokens and whether they invalidate the token cache
    writers = []
    for relf in ("internal/auth/auth.go", "internal/auth/cluster_apply.go"):
        src = open(os.path.join(vlib.REPO, relf)).read()
        for f in vlib.goast("funcs", relf):
            calls = f["calls"] or []
            if "Exec" not in calls:
                continue
            hdr = r"^func (\([^)]*\) )?%s\(" % re.escape(f["name"])
            fa, fb = func_span(src, hdr, relf)
            fbody = src[fa:fb]
            stmts = re.findall(r"(UPDATE\s+api_tokens\s+SET\s+[^`\"]*|DELETE\s+FROM\s+api_tokens[^`\"]*)", fbody)
            affecting = [s for s in stmts if not re.match(r"UPDATE\s+api_tokens\s+SET\s+(last_used_at\s*=\s*\?\s+WHERE|token_prefix\s*=\s*'__legacy__')", s)]
            if not affecting:
                continue
            writers.append((relf.split("/")[-1] + ":" + f["name"], "InvalidateCache" in calls or "invalidateAndReturn" in calls))
    if len(writers) < 4:
        raise vlib.TieBroken("found only %d functions updating/deleting api_tokens rows (expected the four mutation methods and their Apply* twins)" % len(writers))
    body = "(* GENERATED by tools/props/C21.py from the current /repo sources - do not edit *)\n"
    body += "From Coq Require Import List String Bool.\nImport ListNotations.\nOpen Scope string_scope.\n"
    body += "(* NewAuthManager: db.SetMaxOpenConns(%s) *)\nDefinition db_max_open_conns : nat := %d.\n" % (arg, pool)
    body += "(* VerifyToken cache insert: expiresAt: %s *)\nDefinition cache_expiry_clamped : bool := %s.\n" % (expr, cbool(clamp))
    body += "(* VerifyToken: `defer rows.Close()` and no earlier rows.Close(): the connection is kept across the cache insert *)\nDefinition verify_keeps_rows_open : bool := %s.\n" % cbool(keeps_rows)
    body += "(* functions that UPDATE/DELETE api_tokens rows (other than last_used_at) -> call InvalidateCache / invalidateAndReturn *)\n"
    body += "Definition token_writers : list (string * bool) := [\n  " + ";\n  ".join('("%s", %s)' % (n, cbool(v)) for n, v in writers) + "].\n"
    vlib.write_params("Params_TokenCache", body)
    return {"db_max_open_conns": pool, "verify_keeps_rows_open": keeps_rows, "cache_expiry_clamped": clamp, "cache_expiry_expr": expr, "token_writers": writers}


# ---------------------------------------------------------------------------------------
# Python mirror of Arc.TokenCache.Model.step - used ONLY to enumerate schedules (which steps
# are enabled / which thread holds the connection).  The judge is the Coq model: a mirror
# bug shows up as a disagreement, never as a silent pass.
# ---------------------------------------------------------------------------------------
class Mirror:
    def __init__(self, cfg, db, threads, t0):
        self.cfg = cfg
        self.db = [dict(r) for r in db]
        self.cache = {}                       # val -> (info, cexp); insertion order = list order irrelevant here
        self.free = cfg["pool"]
        self.now = t0
        self.pcs = [("V0",) if t["kind"] == "verify" else (("J0",) if t["kind"] == "janitor" else ("M0",)) for t in threads]
        self.threads = threads
        self.loc = [None] * len(threads)

    def clone(self):
        m = Mirror.__new__(Mirror)
        m.cfg, m.threads = self.cfg, self.threads
        m.db = [dict(r) for r in self.db]
        m.cache = dict(self.cache)
        m.free, m.now = self.free, self.now
        m.pcs = list(self.pcs)
        m.loc = list(self.loc)
        return m

    def find_row(self, v):
        for r in self.db:
            if r["enabled"] and r["val"] == v:
                return r
        return None

    def finished(self, i):
        return self.pcs[i][0] in ("VDone", "MDone", "JDone")

    def needs_conn(self, i):
        return self.pcs[i][0] in ("V1", "M0")

    def enabled(self, i):
        if self.finished(i):
            return False
        if self.needs_conn(i) and self.free == 0:
            return False
        return True

    def holds(self, i):
        return self.pcs[i][0] in ("V2", "V3")

    def step(self, i):
        """execute thread i's next step (must be enabled); returns label"""
        t = self.threads[i]
        pc = self.pcs[i]
        k = pc[0]
        if k == "V0":
            e = self.cache.get(t["val"])
            if e is not None and self.now < e[1]:
                self.pcs[i] = ("VDone", True)
                return "hit"
            self.loc[i] = self.now
            self.pcs[i] = ("V1",)
            return "miss"
        if k == "V1":
            r = self.find_row(t["val"])
            if r is None or (r["exp"] is not None and r["exp"] < self.loc[i]):
                self.pcs[i] = ("VDone", False)
                return "nomatch"
            self.free -= 1
            self.pcs[i] = ("V2", dict(r))
            return "match"
        if k == "V2":
            r = pc[1]
            cexp = self.loc[i] + self.cfg["ttl"]
            if self.cfg["clamp"] and r["exp"] is not None:
                cexp = min(cexp, r["exp"])
            if self.cfg["max"] <= len(self.cache) and self.cache:
                # oldest; ties are avoided by the generator (flagged)
                ks = sorted(self.cache.items(), key=lambda kv: kv[1][1])
                if len(ks) > 1 and ks[0][1][1] == ks[1][1][1]:
                    self.tie = True
                del self.cache[ks[0][0]]
            self.cache.pop(t["val"], None)
            self.cache[t["val"]] = (r["id"], cexp)
            self.pcs[i] = ("V3",)
            return "insert"
        if k == "V3":
            self.free += 1
            self.pcs[i] = ("VDone", True)
            return "vret"
        if k == "J0":
            self.pcs[i] = ("J1", self.now)
            return "jstart"
        if k == "J1":
            self.cache = {v: e for v, e in self.cache.items() if not e[1] < pc[1]}
            self.pcs[i] = ("JDone",)
            return "jsweep"
        if k == "M0":
            found = any(r["id"] == t["tok"] for r in self.db)
            if found:
                kind = t["kind"]
                if kind == "delete":
                    self.db = [r for r in self.db if r["id"] != t["tok"]]
                for r in self.db:
                    if r["id"] == t["tok"]:
                        if kind == "revoke":
                            r["enabled"] = False
                        elif kind == "rotate":
                            r["val"] = t["val"]
                        elif kind == "setexp":
                            r["exp"] = t["exp"]
                        elif kind == "setperms":
                            r["perms"] = t["perms"]
            cluster = self.cfg["mode"] == "cluster"
            if not cluster:
                inv = found
            elif t["kind"] == "delete" or t["kind"] in ("revoke", "rotate"):
                inv = True
            else:
                inv = found
            if inv:
                self.pcs[i] = ("M1",)
                return "update"
            self.pcs[i] = ("MDone",)
            return "updatedone"
        if k == "M1":
            self.cache = {}
            self.pcs[i] = ("M2",)
            return "invalidate"
        if k == "M2":
            self.pcs[i] = ("MDone",)
            return "mret"
        raise AssertionError("step of finished thread")


def enumerate_schedules(cfg, db, threads, t0, ticks=(), probes=True, limit=None, rng=None):
    """All maximal schedules of the mirror (every entry enabled), optionally with `try`
    probes: an entry for a thread that is waiting for the connection (observed: blocked);
    its retry is then forced right after the connection is released.  `ticks`: list of
    clock advances that may occur, in order, at any point.  Returns a list of schedules
    (each a list of {"t":i} / {"tick":dt})."""
    out = []

    def rec(m, sched, pending, tick_i, forced):
        if limit is not None and len(out) >= limit:
            return
        n = len(m.threads)
        if forced:
            # the head of the pending queue got the connection: its retry comes now
            j = pending[0]
            m2 = m.clone()
            m2.step(j)
            rest = pending[1:]
            rec(m2, sched + [{"t": j}], rest, tick_i, bool(rest) and m2.free > 0)
            return
        moves = []
        for i in range(n):
            if i in pending:
                continue
            if m.enabled(i):
                moves.append(("step", i))
            elif probes and not m.finished(i) and m.needs_conn(i) and m.free == 0 and not pending:   # database/sql serves waiters in random order: one at a time
                moves.append(("try", i))
        if tick_i < len(ticks):
            moves.append(("tick", ticks[tick_i]))
        if not [mv for mv in moves if mv[0] != "try"]:
            out.append(sched)
            return
        if rng is not None:
            rng.shuffle(moves)
        for kind, x in moves:
            if kind == "tick":
                m2 = m.clone()
                m2.now += x
                rec(m2, sched + [{"tick": x}], pending, tick_i + 1, False)
            elif kind == "try":
                rec(m, sched + [{"t": x}], pending + [x], tick_i, False)
            else:
                m2 = m.clone()
                releasing = m2.holds(x) and m2.pcs[x][0] == "V3"
                m2.step(x)
                rec(m2, sched + [{"t": x}], pending, tick_i, releasing and bool(pending))
    rec(Mirror(cfg, db, threads, t0), [], [], 0, False)
    return out


# ---------------------------------------------------------------------------------------
# case generation
# ---------------------------------------------------------------------------------------
def mk_case(cid, fam, mode, ttl, mx, tokens, threads, sched, t0=T0):
    return {"id": cid, "fam": fam, "mode": mode, "ttl": ttl, "max": mx, "t0": t0,
            "tokens": tokens, "threads": threads, "sched": sched}


def tok(name, val, exp=None, perms="read", enabled=True, legacy=False):
    return {"name": name, "val": val, "exp": exp, "perms": perms, "enabled": enabled, "legacy": legacy}


def db_of(tokens):
    return [{"id": i + 1, "val": t["val"], "enabled": t["enabled"], "exp": t["exp"], "perms": t["perms"]} for i, t in enumerate(tokens)]


def mut(kind, tokid, **kw):
    d = {"kind": kind, "tok": tokid}
    d.update(kw)
    return d


def ver(val):
    return {"kind": "verify", "val": val}


def schedules(params, mode, ttl, mx, tokens, threads, ticks=(), rng=None, sample=None, probes=True, deps=None):
    cfg = {"ttl": ttl, "max": mx, "pool": params["db_max_open_conns"], "clamp": params["cache_expiry_clamped"], "mode": mode}
    limit = None
    if sample is not None:
        limit = sample * 40
    scheds = enumerate_schedules(cfg, db_of(tokens), threads, T0, ticks=ticks, probes=probes, limit=limit,
                                 rng=rng if sample is not None else None)
    if deps:
        def ok(s):
            first = {}
            done_at = {}
            cnt = {}
            for pos, e in enumerate(s):
                if "t" in e:
                    first.setdefault(e["t"], pos)
                    cnt[e["t"]] = pos
            # thread i may only start after the LAST entry of deps[i]
            return all(i not in first or (d in cnt and first[i] > cnt[d]) for i, d in deps.items())
        scheds = [s for s in scheds if ok(s)]
    if sample is not None and len(scheds) > sample:
        scheds = rng.sample(scheds, sample)
    return scheds


def gen_cases(params, rng, tier):
    big = tier != "quick"
    cases = []

    def add(fam, mode, ttl, mx, tokens, threads, scheds):
        for s in scheds:
            cases.append(mk_case(len(cases), fam, mode, ttl, mx, tokens, threads, s))
    ttl = 60 * SEC
    one = [tok("a", 1)]
    # A: revoke / delete / rotate against two concurrent verifications: every schedule
    for mode in ("direct", "cluster"):
        for kind in ("revoke", "delete", "rotate"):
            m = mut(kind, 1, val=1000) if kind == "rotate" else mut(kind, 1)
            # every schedule in direct mode; in cluster-apply mode (same protocol, other functions) every
            # schedule in the thorough tier and a seeded half of them in the quick tier
            add("A:%s:%s" % (kind, mode), mode, ttl, 100, one, [m, ver(1), ver(1)],
                schedules(params, mode, ttl, 100, one, [m, ver(1), ver(1)], rng=rng, sample=None if (big or mode == "direct") else 160))
    # B: UpdateToken (permissions / expiry)
    for mode in ("direct", "cluster"):
        for m in (mut("setperms", 1, perms="read,write"), mut("setexp", 1, exp=T0 + 500 * SEC)):
            add("B1:%s:%s" % (m["kind"], mode), mode, ttl, 100, one, [m, ver(1)], schedules(params, mode, ttl, 100, one, [m, ver(1)]))
            add("B2:%s:%s" % (m["kind"], mode), mode, ttl, 100, one, [m, ver(1), ver(1)],
                schedules(params, mode, ttl, 100, one, [m, ver(1), ver(1)], rng=rng, sample=None if big else 50))
    # C: rotation, old and new value (the new value is only known once RotateToken returned)
    for mode in ("direct", "cluster"):
        th = [mut("rotate", 1, val=1000), ver(1), ver(1000)]
        add("C:rotate-new:%s" % mode, mode, ttl, 100, one, th,
            schedules(params, mode, ttl, 100, one, th, deps={2: 0}))
    # D: token expiry against the cache TTL (clock ticks interleaved)
    exp_tok = [tok("a", 1, exp=T0 + 10 * SEC, perms="read,write")]
    for mode in ("direct", "cluster"):
        for th, ticks in (([ver(1), ver(1)], (5 * SEC, 5 * SEC, 1, 49 * SEC, 10 * SEC)),
                          ([ver(1), ver(1), ver(1)], (10 * SEC, 1, 60 * SEC)),
                          ([mut("setexp", 1, exp=T0 + 30 * SEC), ver(1), ver(1)], (11 * SEC, 20 * SEC)),
                          ([mut("revoke", 1), ver(1), ver(1)], (11 * SEC,))):
            add("D:expiry:%s" % mode, mode, ttl, 100, exp_tok, th,
                schedules(params, mode, ttl, 100, exp_tok, th, ticks=ticks, rng=rng, sample=400 if big else 45, probes=False))
    short = 5 * SEC
    add("D:short-ttl", "direct", short, 100, exp_tok, [ver(1), ver(1), ver(1)],
        schedules(params, "direct", short, 100, exp_tok, [ver(1), ver(1), ver(1)], ticks=(4 * SEC, 1 * SEC, 1, 6 * SEC),
                  rng=rng, sample=300 if big else 40, probes=False))
    # E: eviction at capacity (distinct expiry times: a tick between verifications)
    three = [tok("a", 1), tok("b", 2, perms="write"), tok("c", 3, perms="admin")]
    for mx in (0, 1, 2):
        th = [ver(1), ver(2), ver(3), ver(1), ver(2)]
        scheds = schedules(params, "direct", ttl, mx, three, th, ticks=(1 * SEC, 2 * SEC, 3 * SEC, 4 * SEC), rng=rng,
                           sample=300 if big else 40, probes=False)
        add("E:evict:max%d" % mx, "direct", ttl, mx, three, th, [s for s in scheds if not evict_tie(params, ttl, mx, three, th, s)])
    # F: mutation of a token id that does not exist
    for mode in ("direct", "cluster"):
        for m in (mut("revoke", 9), mut("delete", 9), mut("rotate", 9, val=1000), mut("setperms", 9, perms="x"), mut("setexp", 9, exp=T0 + SEC)):
            add("F:notfound:%s:%s" % (m["kind"], mode), mode, ttl, 100, one, [m, ver(1), ver(1)],
                schedules(params, mode, ttl, 100, one, [m, ver(1), ver(1)], rng=rng, sample=None if big else 25))
    # G: disabled / duplicate-value / unknown-value tables
    tabs = [[tok("a", 1, enabled=False)], [tok("a", 1, enabled=False), tok("b", 1, perms="write")],
            [tok("a", 1), tok("b", 1, perms="write")], [tok("a", 2)]]
    for tb in tabs:
        th = [mut("revoke", 1), ver(1), ver(1)]
        add("G:tables", "direct", ttl, 100, tb, th, schedules(params, "direct", ttl, 100, tb, th, rng=rng, sample=None if big else 30))
    # H: more threads (sampled): three verifications; two mutations
    for mode in ("direct", "cluster"):
        th = [mut("revoke", 1), ver(1), ver(1), ver(1)]
        add("H:3v:%s" % mode, mode, ttl, 100, one, th, schedules(params, mode, ttl, 100, one, th, rng=rng, sample=3000 if big else 80))
        th = [mut("setperms", 1, perms="write"), mut("revoke", 1), ver(1), ver(1)]
        add("H:2m:%s" % mode, mode, ttl, 100, one, th, schedules(params, mode, ttl, 100, one, th, rng=rng, sample=3000 if big else 80))
    # L: legacy rows (token_prefix '__legacy__', sha256 hash) - selected by every query, matched by hash
    for mode in ("direct", "cluster"):
        leg = [tok("old", 1, legacy=True)]
        for kind in ("revoke", "delete", "rotate"):
            m = mut(kind, 1, val=1000) if kind == "rotate" else mut(kind, 1)
            add("L:legacy:%s:%s" % (kind, mode), mode, ttl, 100, leg, [m, ver(1)], schedules(params, mode, ttl, 100, leg, [m, ver(1)]))
            add("L:legacy2:%s:%s" % (kind, mode), mode, ttl, 100, leg, [m, ver(1), ver(1)],
                schedules(params, mode, ttl, 100, leg, [m, ver(1), ver(1)], rng=rng, sample=None if big else 25))
        for tb in ([tok("old", 1, legacy=True, enabled=False)], [tok("old", 2, legacy=True), tok("new", 1)],
                   [tok("old", 1, legacy=True, enabled=False), tok("new", 1, perms="write")],
                   [tok("old", 1, legacy=True, exp=T0 + 10 * SEC)]):
            th = [mut("revoke", 1), ver(1), ver(1)]
            add("L:legacy-tables:%s" % mode, mode, ttl, 100, tb, th, schedules(params, mode, ttl, 100, tb, th, ticks=(11 * SEC,), rng=rng,
                                                                              sample=None if big else 15, probes=False))
    # N: the cache janitor as a thread: an expired entry of another token is in the cache, the
    #    janitor runs (clock read / sweep under the write lock) while the token is revoked,
    #    deleted or rotated, then the old value is verified again
    two = [tok("a", 1), tok("b", 2, perms="write")]

    def interleavings(xs, ys):
        if not xs:
            return [ys]
        if not ys:
            return [xs]
        return [[xs[0]] + r for r in interleavings(xs[1:], ys)] + [[ys[0]] + r for r in interleavings(xs, ys[1:])]
    for mode in ("direct", "cluster"):
        for kind in ("revoke", "delete", "rotate"):
            m = mut(kind, 1, val=1000) if kind == "rotate" else mut(kind, 1)
            th = [ver(2), ver(1), {"kind": "janitor"}, m, ver(1), {"kind": "janitor"}]
            pre = [{"t": 0}] * 4 + [{"tick": ttl + 1}] + [{"t": 1}] * 4
            post = [{"t": 4}] * 4 + [{"t": 5}] * 2 + [{"t": 4}]
            for mid in interleavings([{"t": 2}] * 2, [{"t": 3}] * 3):
                for extra_tick in ((), ({"tick": ttl // 2},)):
                    cases.append(mk_case(len(cases), "N:janitor:%s:%s" % (kind, mode), mode, ttl, 100, two, th, pre + list(extra_tick) + mid + post))
    # X: exploration of EVERY lock boundary of VerifyToken and its callees (points derived from the
    #     current source): a warm-up verification fills the cache, the clock is put into each quarter
    #     of the entry's lifetime (and past it), a second verification is parked at its k-th point,
    #     the mutation runs to completion, the verification resumes, then the old value is verified
    #     again.  The model has no steps for these points: judged by the oracle only.
    for mode in ("direct", "cluster"):
        for kind in ("revoke", "delete", "rotate"):
            m = mut(kind, 1, val=1000) if kind == "rotate" else mut(kind, 1)
            th = [ver(1), ver(1), m, ver(1)]
            for quarter, dt in (("fresh", ttl // 8), ("mid", ttl // 2), ("last", ttl - ttl // 8), ("expired", ttl + 1)):
                for k in range(0, 9):
                    sched = [{"t": 0, "run": True}, {"tick": dt}] + [{"t": 1}] * k + [{"t": 2, "run": True}, {"t": 1, "run": True},
                                                                                        {"t": 2, "run": True}, {"t": 3, "run": True}]
                    c = mk_case(len(cases), "X:explore:%s:%s:%s" % (quarter, kind, mode), mode, ttl, 100, one, th, sched)
                    c["generic"] = True
                    c["oracle_only"] = True
                    cases.append(c)
    return cases


def evict_tie(params, ttl, mx, tokens, threads, sched):
    cfg = {"ttl": ttl, "max": mx, "pool": params["db_max_open_conns"], "clamp": params["cache_expiry_clamped"], "mode": "direct"}
    m = Mirror(cfg, db_of(tokens), threads, T0)
    m.tie = False
    for e in sched:
        if "tick" in e:
            m.now += e["tick"]
        elif m.enabled(e["t"]):
            m.step(e["t"])
    return m.tie


def witness_cases(params):
    """Refutation witnesses of the Coq development, run first on the real code:
    (1) the insert race of C21_pool2_stale_refuted (with the deployed pool the model says the
        revoke is blocked); (2) the expiry witness of C21_expiry_refuted."""
    ttl = 60 * SEC
    w = []
    for mode in ("direct", "cluster"):
        for kind in ("revoke", "delete", "rotate"):
            m = mut(kind, 1, val=1000) if kind == "rotate" else mut(kind, 1)
            # verify: lookup, query; mutation: update, invalidate, return; verify: insert, return; new verify
            sched = [{"t": 0}, {"t": 0}, {"t": 1}, {"t": 0}, {"t": 0}, {"t": 1}, {"t": 1}, {"t": 1}, {"t": 2}, {"t": 2}]
            w.append(mk_case(0, "W:race:%s:%s" % (kind, mode), mode, ttl, 100, [tok("a", 1)], [ver(1), m, ver(1)], sched))
            # the trace of C21_pool2_stale_refuted itself: the whole mutation is attempted while the
            # verification sits between its query and its insert (single connection: blocked thrice)
            sched2 = [{"t": 0}, {"t": 0}, {"t": 1}, {"t": 1}, {"t": 1}, {"t": 0}, {"t": 0}, {"t": 2}, {"t": 2}, {"t": 2}, {"t": 2}]
            w.append(mk_case(0, "W:race2:%s:%s" % (kind, mode), mode, ttl, 100, [tok("a", 1)], [ver(1), m, ver(1)], sched2))
        sched = [{"t": 0}] * 4 + [{"tick": 15 * SEC}, {"t": 1}, {"tick": 50 * SEC}, {"t": 2}, {"t": 2}]
        w.append(mk_case(0, "W:expiry:%s" % mode, mode, ttl, 100, [tok("a", 1, exp=T0 + 10 * SEC)], [ver(1), ver(1), ver(1)], sched))
    return w


# ---------------------------------------------------------------------------------------
# Coq evaluation
# ---------------------------------------------------------------------------------------
STEP_CODE = {"tick": 0, "blocked": 1, "done": 2, "already-done": 3, "at:v-after-lookup": 10, "at:v-after-dbread": 11,
             "at:v-after-insert": 12, "at:m-after-update": 13, "at:m-after-invalidate": 14}


class Intern:
    def __init__(self):
        self.t = {"": 0}

    def __call__(self, s):
        if s not in self.t:
            self.t[s] = len(self.t)
        return self.t[s]


def copt_z(x):
    return "None" if x is None else "(Some %s)" % cz(x)


def scenario_key(c):
    ticks = sorted({e["tick"] for e in c["sched"] if "tick" in e})
    return json.dumps({"mode": c["mode"], "ttl": c["ttl"], "max": c["max"], "t0": c["t0"], "tokens": c["tokens"],
                       "threads": c["threads"], "ticks": ticks}, sort_keys=True)


def scenario_to_coq(key, perm):
    c = json.loads(key)
    rows = ["{| r_id := %s; r_val := %s; r_enabled := %s; r_exp := %s; r_perms := %s; r_legacy := %s |}" % (
        cn(i + 1), cn(t["val"]), cbool(t["enabled"]), copt_z(t["exp"]), cn(perm(t["perms"])), cbool(t.get("legacy", False))) for i, t in enumerate(c["tokens"])]
    mode = "Direct" if c["mode"] == "direct" else "Cluster"
    ths = []
    for t in c["threads"]:
        k = t["kind"]
        if k == "verify":
            ths.append("V0 %s" % cn(t["val"]))
        elif k == "janitor":
            ths.append("J0")
        elif k == "revoke":
            ths.append("M0 %s (Revoke %s)" % (mode, cn(t["tok"])))
        elif k == "delete":
            ths.append("M0 %s (Delete %s)" % (mode, cn(t["tok"])))
        elif k == "rotate":
            ths.append("M0 %s (Rotate %s %s)" % (mode, cn(t["tok"]), cn(t["val"])))
        elif k == "setexp":
            ths.append("M0 %s (SetExp %s %s)" % (mode, cn(t["tok"]), cz(t["exp"])))
        elif k == "setperms":
            ths.append("M0 %s (SetPerms %s %s)" % (mode, cn(t["tok"]), cn(perm(t["perms"]))))
        else:
            raise vlib.InfraError("unknown thread kind " + k)
    return ("{| sc_cfg := CFG %s %d; sc_t0 := %s; sc_db := %s; sc_threads := %s; sc_ticks := %s |}" % (
        cz(c["ttl"]), c["max"], cz(c["t0"]), clist(rows), clist(ths), clist([cz(x) for x in c["ticks"]]) if c["ticks"] else "[]"))


def enc(digs, base):
    """little-endian digit string with a leading sentinel 1 (Arc.TokenCache.Model.digits)"""
    z = 1
    for d in reversed(digs):
        if not 0 <= d < base:
            raise vlib.InfraError("digit %d out of range for base %d" % (d, base))
        z = z * base + d
    return z


STEP_DIGIT = {"tick": 0, "blocked": 1, "done": 2, "already-done": 3, "at:v-after-lookup": 4, "at:v-after-dbread": 5,
              "at:v-after-insert": 6, "at:m-after-update": 7, "at:m-after-invalidate": 8, "at:j-before-lock": 9}


def case_to_coq(c, scen_index, perm):
    key = scenario_key(c)
    ticks = json.loads(key)["ticks"]
    if len(c["threads"]) > 32 or len(ticks) > 32 or len(c["sched"]) > 190:
        raise vlib.InfraError("case too large for the transport encoding")
    sd = [e["t"] if "t" in e else 32 + ticks.index(e["tick"]) for e in c["sched"]]
    od = [10 if s.startswith("at:g:") else STEP_DIGIT.get(s, 15) for s in c["obs"]["steps"]]
    rd = []
    for r in c["obs"]["results"]:
        if not r["finished"]:
            rd.append(0)
        else:
            pcode = perm(r["perms"])
            if r["tokid"] >= 64 or pcode >= 16:
                raise vlib.InfraError("result out of range for the transport encoding")
            rd.append(1 + 2 * int(r["ok"]) + 4 * r["tokid"] + 256 * pcode)
    return "(%d%%nat, %d, %d, %d)" % (scen_index[key], enc(sd, 64), enc(od, 16), enc(rd, 4096))


HEADER = ("From Coq Require Import List ZArith NArith Bool.\nFrom Arc Require Import TokenCache.Model.\nFrom ArcGen Require Import Params_TokenCache.\n"
          "Import ListNotations.\nOpen Scope Z_scope.\n"
          "Definition CFG (ttl : Z) (mx : nat) : cfg := {| c_ttl := ttl; c_max := mx; c_pool := db_max_open_conns; c_clamp := cache_expiry_clamped |}.\n")


def eval_in_coq(cases, name, chunk=2500):
    """case_agrees / case_oracle_fresh / case_oracle of every case, evaluated by coqc with
    vm_compute.  Cases travel in the compact encoding of Model.v (scenario table + digit
    strings): elaborating explicit list literals costs ~10 ms per case."""
    perm = Intern()
    keys = []
    seen = {}
    for c in cases:
        k = scenario_key(c)
        if k not in seen:
            seen[k] = len(keys)
            keys.append(k)
    header = HEADER + "Definition scens : list scenario := [\n" + ";\n".join(scenario_to_coq(k, perm) for k in keys) + "].\n"
    terms = [case_to_coq(c, seen, perm) for c in cases]
    return vlib.coq_check_cases("C21", header, "rcase", terms,
                                {"agree": "rc_pred case_agrees scens", "fresh": "rc_pred case_oracle_fresh scens",
                                 "oracle": "rc_pred case_oracle scens"}, chunk=chunk, name=name)


def run_cases(cases, tag):
    obs = run_impl([{k: v for k, v in c.items() if k not in ("fam", "obs", "oracle_only")} for c in cases], tag)
    return [dict(c, obs={"steps": o["steps"], "results": o["results"]}) for c, o in zip(cases, obs)]


def nontrivial(c):
    """a mutation step falls between two verifier steps"""
    kinds = [None if "tick" in e or c["threads"][e["t"]]["kind"] == "janitor" else ("v" if c["threads"][e["t"]]["kind"] == "verify" else "m")
             for e in c["sched"]]
    for i, k in enumerate(kinds):
        if k == "m" and "v" in kinds[:i] and "v" in kinds[i + 1:]:
            return True
    return False


def canon(c):
    return json.dumps({k: c[k] for k in ("mode", "ttl", "max", "tokens", "threads", "sched")}, sort_keys=True)


def shrink_case(c, pred_key):
    """shortest schedule prefix on which the predicate is still false: all prefixes in ONE harness run"""
    base = {k: v for k, v in c.items() if k != "obs"}
    cands = [dict(base, sched=c["sched"][:n], id=n - 1) for n in range(1, len(c["sched"]) + 1)]
    try:
        outs = run_cases(cands, "shrink")
        bad = eval_in_coq(outs, "Shrink_C21")[pred_key]
    except (vlib.TieBroken, vlib.InfraError):
        return base
    return {k: v for k, v in outs[min(bad)].items() if k != "obs"} if bad else base


def corpus_cases():
    """minimised past disagreements / refutation witnesses kept in corpus/C21 (run first)"""
    d = os.path.join(vlib.ROOT, "corpus", "C21")
    out = []
    for fn in sorted(os.listdir(d)) if os.path.isdir(d) else []:
        if fn.endswith(".json"):
            c = dict(json.load(open(os.path.join(d, fn)))["case"])
            c.pop("obs", None)
            c["fam"] = "K:corpus:" + fn[:-5]
            out.append(c)
    return out


def setup():
    translate_params()


def warm():
    run_impl([], "warm")


def run(res, tier, seed):
    rng = random.Random(seed * 7919 + 21)
    t0 = time.time()
    try:
        params = translate_params()
    finally:
        res.stage("translate_params", t0)
    res.cov["params"] = params
    failed = vlib.std_proof_stage(res, "C21", AREA, MODULES, THEOREMS, extra_targets=["theories/TokenCache/Obligations.vo"])
    res.cov["trusted_base"] += [
        "token hashes idealised: a stored hash verifies exactly the value it was made from (PBKDF2/bcrypt/sha256 not modelled; harness runs PBKDF2 with 1 iteration)",
        "database/sql pool: a Query whose rows are still open keeps its connection, Exec takes and returns one; SetMaxOpenConns(n) is the pool size (n re-extracted each run; blocked steps are observed on the real pool via DBStats.WaitCount)",
        "single node: the cluster-apply path is driven by a stand-in proposer that calls the real Apply*Token on the proposing node; replication lag to OTHER nodes is outside the property as modelled",
        "cache janitor and last_used_at writer are stopped in the harness (janitor = env_drop in the model; the writer only takes the connection transiently)",
        "schedule points are inserted textually into copies of the current auth.go / cluster_apply.go (anchors: token query, cache insert Lock/Unlock in VerifyToken, every am.InvalidateCache() statement)",
    ]

    if tier == "thorough":
        ok, _ = vlib.coqchk_stage(res, MODULES)
        if not ok:
            failed.append(("coqchk", "coqchk did not accept the compiled development"))
    t1 = time.time()
    cases = corpus_cases() + witness_cases(params) + gen_cases(params, rng, tier)
    for i, c in enumerate(cases):
        c["id"] = i
    out = run_cases(cases, tier)
    res.stage("impl_harness", t1)
    t2 = time.time()
    ev = eval_in_coq(out, "Cases_C21_%s" % tier)
    res.stage("coq_eval", t2)
    oracle_only = {i for i, c in enumerate(out) if c.get("oracle_only")}
    dis, fresh_fail, orf = [i for i in ev["agree"] if i not in oracle_only], ev["fresh"], ev["oracle"]
    res.cov["oracle_only_cases"] = len(oracle_only)
    res.cov["generic_points"] = GENERIC_POINTS.get("points", [])

    res.cov["evaluations"] = len(out)
    res.cov["distinct_nontrivial"] = len({canon(c) for c in out if nontrivial(c)})
    res.cov["rule"] = ("forced schedules enumerated from the model (all schedules of one revoke/delete/rotate + 2 verifications incl. "
                       "blocked-on-connection probes, both modes; sampled for 3 verifications / 2 mutations / expiry ticks / eviction); "
                       "non-trivial = a mutation step falls between two verifier steps; distinct by (mode, ttl, max, table, threads, schedule)")
    res.cov["model_vs_impl_disagreements"] = len(dis)
    res.cov["oracle_failures"] = len(orf)
    res.cov["oracle_failures_stale"] = len(fresh_fail)
    fam = {}
    for c in out:
        f = c["fam"].split(":")[0] + ":" + c["fam"].split(":")[1]
        fam[f] = fam.get(f, 0) + 1
    steps = {}
    for c in out:
        for s in c["obs"]["steps"]:
            steps[s] = steps.get(s, 0) + 1
    res.cov["histogram"] = {"families": fam, "observed_step_outcomes": steps,
                            "modes": {m: sum(1 for c in out if c["mode"] == m) for m in ("direct", "cluster")},
                            "schedule_length": {str(k): sum(1 for c in out if len(c["sched"]) == k) for k in sorted({len(c["sched"]) for c in out})},
                            "verifications_succeeded": sum(1 for c in out for r, t in zip(c["obs"]["results"], c["threads"]) if t["kind"] == "verify" and r["ok"]),
                            "verifications_rejected": sum(1 for c in out for r, t in zip(c["obs"]["results"], c["threads"]) if t["kind"] == "verify" and r["finished"] and not r["ok"])}
    res.cov["samples"] = [out[0], out[len(out) // 2], out[-1]]

    known = {e["signature"]: e for e in vlib.known_for("C21")}
    reported = False
    # 1. stale authentication on the real code: always a violation
    for idx in fresh_fail[:3]:
        c = out[idx]
        res.violation("the real AuthManager authenticated a token value after the mutation that killed it had returned (family %s)" % c["fam"],
                      {"kind": "stale-authentication", "case": c, "how_to_replay": "python3 tools/check.py C21 --replay <this file>"})
        reported = True
    # 2. expired-token authentications
    exp_only = [i for i in orf if i not in set(fresh_fail)]
    if exp_only:
        predicted = [i for i in exp_only if i not in set(dis)]
        sig = "cache-hit-after-token-expiry"
        if sig in known and not params["cache_expiry_clamped"] and len(predicted) == len(exp_only):
            res.known_finding("%s: VerifyToken authenticates an expired token from the cache for up to cacheTTL after its expires_at "
                              "(%d forced schedules, as predicted by the model; proposed repair fixes/C21_clamp_cache_expiry.patch)" % (sig, len(exp_only)))
        else:
            c = out[(set(exp_only) - set(predicted) or set(exp_only)).pop()]
            res.violation("the real AuthManager authenticated an expired token (family %s)" % c["fam"],
                          {"kind": "expired-authentication", "case": c})
            reported = True
    # 3. proof obligations
    if failed and not reported:
        res.violation("proof obligation(s) no longer check: " + "; ".join(r for _, r in failed),
                      {"kind": "obligation-failed", "theorems": [t for t, _ in failed], "detail": [r for _, r in failed]},
                      no_input=True, suffix="obligation")
    # 4. model / implementation disagreement: first look for a concrete failing input near the
    #    disagreeing schedules (run every thread to completion, then verify the value again)
    if dis and not reported:
        probes = []
        for idx in dis[:40]:
            c = out[idx]
            n = len(c["threads"])
            vals = sorted({t["val"] for t in c["threads"] if t["kind"] == "verify"})
            threads = c["threads"] + [ver(v) for v in vals]
            tail = [{"t": i} for _ in range(5) for i in range(n)] + [{"t": n + j} for j in range(len(vals)) for _ in range(4)]
            pc = mk_case(len(probes), "X:completion-of:" + c["fam"], c["mode"], c["ttl"], c["max"], c["tokens"], threads, c["sched"] + tail, c["t0"])
            probes.append(pc)
        pout = run_cases(probes, "probe")
        pev = eval_in_coq(pout, "Probe_C21")
        if pev["fresh"]:
            c = pout[pev["fresh"][0]]
            res.violation("the real AuthManager authenticated a token value after the mutation that killed it had returned "
                          "(found by completing a schedule on which model and implementation disagree; %s)" % c["fam"],
                          {"kind": "stale-authentication", "case": c, "disagreeing_cases": len(dis)})
            reported = True
    if dis and not reported:
        c = out[dis[0]]

        small = shrink_case(c, "agree")
        so = run_cases([small], "shrink")[0]
        e2 = eval_in_coq([so], "Shrink_C21")
        bad = bool(e2["fresh"]) or (bool(e2["oracle"]) and "cache-hit-after-token-expiry" not in known)
        res.violation("model and implementation disagree on a forced schedule (family %s; %d disagreeing cases)" % (c["fam"], len(dis)),
                      {"kind": "correspondence", "correspondence": TIE_NAME, "case": so, "disagreeing_cases": len(dis),
                       "oracle_fails_on_impl": bad}, no_input=not bad, suffix="corr")


def replay(res, path):
    obj = json.load(open(path))
    c = obj.get("case")
    if not c:
        print("replay file names no concrete case:", obj.get("summary"))
        return 1
    translate_params()
    c = dict(c)
    c.pop("obs", None)
    c.setdefault("fam", "replay")
    out = run_cases([c], "replay")
    ev = eval_in_coq(out, "Replay_C21")
    print("observed steps:", out[0]["obs"]["steps"])
    print("observed results:", out[0]["obs"]["results"])
    print("model disagrees:", bool(ev["agree"]), "| stale authentication:", bool(ev["fresh"]), "| oracle (incl. expiry) fails:", bool(ev["oracle"]))
    return 1 if (ev["agree"] or ev["oracle"]) else 0
