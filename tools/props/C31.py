"""C31 - File imports store every data row of the uploaded file.

Proof: coq/theories/Import (model of the code after fixes b90d6d7, fcf78a3, 53efdcd, 2599b0c).
Model of importCSV after encoding/csv (skip rows, BOM, sequential header validation incl. the
reserved '_' prefix, over-long rows rejected, short rows padded, the int -> float -> bool ->
string inference with lazy buffers, time conversion: checked multiplication for explicit units,
magnitude detection) and of importParquet with its checked per-type cell conversions.
Theorems for all inputs: C31_rows, C31_lossless_int/bool/string/float, C31_column_sound,
C31_stored_lossless (full strength), C31_time_checked, C31_auto_exact, C31_accepted_times_exact,
C31_time_overflow_rejected, C31_long_row_rejected, C31_underscore_column_rejected,
C31_all_or_nothing, C31_parquet_int_exact, C31_parquet_uint64_checked,
C31_parquet_ts_column_checked, C31_arrow_ts_checked; the former defect witnesses are rejected
(C31_overflow_witness_rejected, C31_former_witnesses_rejected, C31_former_parquet_witnesses_rejected).
Tie 1 (translator): thresholds and multipliers of autoIntEpochToMicros / intTimeToMicros /
arrowTimestampToMicros and of their checked variants are re-extracted from the source into
coq/gen/Params_Import.v.
Tie 2 (correspondence): the real importCSV / importParquet run in-package with a real
ArrowBuffer and a temporary backend; the stored Parquet files are read back and compared with
the model inside Coq; the property oracle is evaluated on the implementation's output.
"""
import base64
import json
import os
import random
import re
import time

import vlib
from vlib import cz, cn, cbool, clist

AREA = "Import"
P = "Arc.Import.Props"
O = "Arc.Import.Obligations"
THEOREMS = [(P, "C31_rows"), (P, "C31_lossless_int"), (P, "C31_lossless_bool"), (P, "C31_lossless_string"),
            (P, "C31_lossless_float"), (P, "C31_column_sound"), (P, "C31_time_checked"), (P, "C31_auto_exact"),
            (P, "C31_accepted_times_exact"), (P, "C31_time_overflow_rejected"), (P, "C31_overflow_witness_rejected"),
            (P, "C31_all_or_nothing"), (P, "C31_stored_lossless"),
            (P, "C31_long_row_rejected"), (P, "C31_underscore_column_rejected"), (P, "C31_former_witnesses_rejected"),
            (P, "C31_parquet_int_exact"), (P, "C31_parquet_uint64_checked"), (P, "C31_parquet_ts_column_checked"),
            (P, "C31_former_parquet_witnesses_rejected"), (P, "C31_arrow_ts_checked"),
            (O, "C31_params_good"), (O, "C31_deployed_auto_exact")]
MODULES = [P, O]
TIE_NAME = ("C31 correspondence (api.importCSV / importParquet + ingest.ArrowBuffer vs Arc.Import.Model.import_csv / "
            "stored_rows) / Params_Import")
SRC = "internal/api/import_inprocess.go"
HARNESS = {"internal/api/zz_import_verif_test.go": "harness/import/import_verif_test.go"}
FMT = {"": "Auto", "epoch_s": "EpochS", "epoch_ms": "EpochMs", "epoch_us": "EpochUs", "epoch_ns": "EpochNs"}
FINDINGS = {}      # signature -> class predicate of the OPEN known findings (none at present)


# ---------------------------------------------------------------------------------------
# parameters
# ---------------------------------------------------------------------------------------

def func_body(text, name):
    m = re.search(r"^func (?:\([^)]*\) )?%s\(" % re.escape(name), text, re.M)
    if not m:
        raise vlib.TieBroken("function %s not found in %s" % (name, SRC))
    i = text.index("{\n", m.end())      # the opening brace of the body ends the signature line
    depth, j = 0, i
    while True:
        ch = text[j]
        if ch == "{":
            depth += 1
        elif ch == "}":
            depth -= 1
            if depth == 0:
                return text[i:j + 1]
        j += 1


def one(pat, body, what):
    m = re.findall(pat, body)
    if len(m) != 1:
        raise vlib.TieBroken("%s: expected exactly one match of %r in %s, found %d" % (what, pat, SRC, len(m)))
    return m[0]


def translate_params():
    text = open(os.path.join(vlib.REPO, SRC)).read()
    auto = func_body(text, "autoIntEpochToMicros")
    itm = func_body(text, "intTimeToMicros")
    ats = func_body(text, "arrowTimestampToMicros")
    thr = re.findall(r"case absN < ([^:]+):", auto)
    if len(thr) != 3:
        raise vlib.TieBroken("autoIntEpochToMicros: expected three `case absN < <threshold>:` arms, found %d" % len(thr))
    rets = re.findall(r"return n (\*|/) ([0-9_eE.]+)", auto)
    if [r[0] for r in rets] != ["*", "*", "/"]:
        raise vlib.TieBroken("autoIntEpochToMicros: expected returns n*K, n*K, n, n/K; found %r" % (rets,))
    items = [("thr_s", SRC, "int64(%s)" % thr[0]), ("thr_ms", SRC, "int64(%s)" % thr[1]), ("thr_us", SRC, "int64(%s)" % thr[2]),
             ("mul_s", SRC, "int64(%s)" % rets[0][1]), ("mul_ms", SRC, "int64(%s)" % rets[1][1]), ("div_ns", SRC, "int64(%s)" % rets[2][1])]
    # the explicit-unit and Arrow conversions must use the same constants; a shape that can no
    # longer be read is recorded as a failed obligation (the correspondence then searches for a
    # concrete failing input) rather than stopping the run
    mismatch = []
    try:
        itc = func_body(text, "intTimeToMicrosChecked")
        atc = func_body(text, "arrowTimestampToMicrosChecked")
        func_body(text, "mulMicrosChecked")
    except vlib.TieBroken as e:
        itc = atc = ""
        mismatch.append("overflow-checked conversions of fix b90d6d7 not found: %s" % e)
    for label, body_, pat, what in (
            ("c_mul_s", itc, r'case "epoch_s":\s*return mulMicrosChecked\(n, ([0-9_]+)\)\n', "intTimeToMicrosChecked epoch_s"),
            ("c_mul_ms", itc, r'case "epoch_ms":\s*return mulMicrosChecked\(n, ([0-9_]+)\)\n', "intTimeToMicrosChecked epoch_ms"),
            ("ac_mul_s", atc, r'case arrow\.Second:\s*return mulMicrosChecked\(v, ([0-9_]+)\)\n', "arrowTimestampToMicrosChecked Second"),
            ("ac_mul_ms", atc, r'case arrow\.Millisecond:\s*return mulMicrosChecked\(v, ([0-9_]+)\)\n', "arrowTimestampToMicrosChecked Millisecond"),
            ("f_mul_s", itm, r'case "epoch_s":\s*return n \* ([0-9_]+)\n', "intTimeToMicros epoch_s"),
            ("f_mul_ms", itm, r'case "epoch_ms":\s*return n \* ([0-9_]+)\n', "intTimeToMicros epoch_ms"),
            ("f_div_ns", itm, r'case "epoch_ns":\s*return n / ([0-9_]+)\n', "intTimeToMicros epoch_ns"),
            ("f_us", itm, r'case "epoch_us":\s*return (n)\n', "intTimeToMicros epoch_us"),
            ("a_mul_s", ats, r'case arrow\.Second:\s*return v \* ([0-9_]+)\n', "arrowTimestampToMicros Second"),
            ("a_mul_ms", ats, r'case arrow\.Millisecond:\s*return v \* ([0-9_]+)\n', "arrowTimestampToMicros Millisecond"),
            ("a_div_ns", ats, r'case arrow\.Nanosecond:\s*return v / ([0-9_]+)\n', "arrowTimestampToMicros Nanosecond"),
            ("a_us", ats, r'case arrow\.Microsecond:\s*return (v)\n', "arrowTimestampToMicros Microsecond")):
        if not body_:
            continue
        try:
            lit = one(pat, body_, what)
        except vlib.TieBroken as e:
            mismatch.append(str(e))
            continue
        if label not in ("f_us", "a_us"):
            items.append((label, SRC, "int64(%s)" % lit))
    v = vlib.go_eval_consts(items)
    mismatch += ["%s=%d (autoIntEpochToMicros) vs %s=%d" % (a, v[a], b, v[b])
                 for a, b in (("mul_s", "f_mul_s"), ("mul_ms", "f_mul_ms"), ("div_ns", "f_div_ns"), ("mul_s", "a_mul_s"), ("mul_ms", "a_mul_ms"), ("div_ns", "a_div_ns"),
                              ("mul_s", "c_mul_s"), ("mul_ms", "c_mul_ms"), ("mul_s", "ac_mul_s"), ("mul_ms", "ac_mul_ms"))
                 if b in v and v[a] != v[b]]
    body = "(* GENERATED by tools/props/C31.py from the current /repo sources - do not edit *)\n"
    body += "From Coq Require Import ZArith.\nFrom Arc Require Import Import.Model.\nOpen Scope Z_scope.\n"
    body += ("Definition import_params : tparams :=\n  {| thr_s := %d; thr_ms := %d; thr_us := %d; mul_s := %d; mul_ms := %d; div_ns := %d |}.\n"
             % (v["thr_s"], v["thr_ms"], v["thr_us"], v["mul_s"], v["mul_ms"], v["div_ns"]))
    vlib.write_params("Params_Import", body)
    out = {k: v[k] for k in ("thr_s", "thr_ms", "thr_us", "mul_s", "mul_ms", "div_ns")}
    out["mismatch"] = mismatch       # the three functions must scale by the same constants (checked in run)
    return out


# ---------------------------------------------------------------------------------------
# CSV generation
# ---------------------------------------------------------------------------------------

INT_CELLS = ["0", "1", "-1", "42", "+7", "007", "-0", "9223372036854775807", "-9223372036854775808", "1000000", "12345678901"]
FLOAT_CELLS = ["1.5", "-2.25", "1e3", ".5", "1.", "3.14159", "-0.0", "1E-2", "9223372036854775808", "1e400", "inf", "NaN", "+Inf"]
BOOL_CELLS = ["true", "false", "TRUE", "False", "tRuE", "1", "0"]
STR_CELLS = ["x", "hello world", "a,b", 'say "hi"', "line1\nline2", " lead", "trail ", "café", "☃", "0x10", "1_000", "tru", "yes", "-", "+", "1e", "--1", "1 2", "\x00z"]
NAMES = ["a", "value", "host", "region", "temp c", "Time", "v2", "café", "x,y", "cnt", "flag", "s"]


def col_values(rng, kind, n):
    if kind == "int":
        return [rng.choice(INT_CELLS + [str(rng.randrange(-10 ** 6, 10 ** 6))]) for _ in range(n)]
    if kind == "float":
        return [rng.choice(FLOAT_CELLS[:8] + [repr(rng.uniform(-1e6, 1e6))]) for _ in range(n)]
    if kind == "floatx":
        return [rng.choice(FLOAT_CELLS + INT_CELLS) for _ in range(n)]
    if kind == "bool":
        return [rng.choice(BOOL_CELLS) for _ in range(n)]
    if kind == "bool01":
        return [rng.choice(["0", "1"]) for _ in range(n)]
    if kind == "str":
        return [rng.choice(STR_CELLS + INT_CELLS[:3]) for _ in range(n)]
    if kind == "empty":
        return [""] * n
    # demotions: a prefix of one kind then another kind
    a, b = kind.split(">")
    k = rng.randrange(0, n + 1)
    return col_values(rng, a, k) + col_values(rng, b, n - k)


KINDS = ["int", "int", "float", "floatx", "bool", "bool01", "str", "str", "empty",
         "int>float", "int>float", "int>bool", "bool01>bool", "int>str", "float>str", "bool>str", "float>int", "bool>int", "str>int"]


def time_values(rng, fmt, n):
    base = rng.choice([1_700_000_000, 1_600_000_000, 86400 * 365, 1_709_251_199])
    out = []
    style = rng.choice(["s", "ms", "us", "ns", "float", "text", "text2", "date", "mixed", "edge"]) if fmt == "" else fmt
    for i in range(n):
        t = base + rng.choice([0, 1, 59, 3599, 3600, 3601, 86400]) * rng.randrange(0, 3) + i
        if fmt == "":
            st = style if style != "mixed" else rng.choice(["s", "ms", "float", "text"])
            if st == "s":
                v = str(t)
            elif st == "ms":
                v = str(t * 1000 + rng.randrange(1000))
            elif st == "us":
                v = str(t * 10 ** 6 + rng.randrange(10 ** 6))
            elif st == "ns":
                v = str(t * 10 ** 9 + rng.randrange(10 ** 9))
            elif st == "float":
                v = "%d.%s" % (t, rng.choice(["5", "123", "000001", "999999"]))
            elif st == "text":
                v = time.strftime("%Y-%m-%dT%H:%M:%S", time.gmtime(t)) + rng.choice(["Z", "+02:00", ".25Z", ".123456789Z"])
            elif st == "text2":
                v = time.strftime("%Y-%m-%d %H:%M:%S", time.gmtime(t)) + rng.choice(["", ".5", ".123456"])
            elif st == "date":
                v = time.strftime("%Y-%m-%d", time.gmtime(t + 86400 * i))
            else:   # magnitude thresholds and signs
                v = str(rng.choice([9999999999, 10000000000, -9999999999, -10000000000, 9999999999999, 10000000000000,
                                    9999999999999999, 10000000000000000, -10000000000000000, 0, -1, 1,
                                    10 ** 18, -(10 ** 18), 9223372036854775807, -9223372036854775808]))
        elif fmt == "epoch_s":
            v = rng.choice([str(t), str(t), "%d.5" % t, str(-t), "1e9", "+%d" % t])
        elif fmt == "epoch_ms":
            v = rng.choice([str(t * 1000 + 7), "%d.25" % (t * 1000), str(-t * 1000)])
        elif fmt == "epoch_us":
            v = rng.choice([str(t * 10 ** 6 + 13), str(-t), "%d.75" % (t * 10 ** 6), "9223372036854775807"])
        elif fmt == "epoch_ns":
            v = rng.choice([str(t * 10 ** 9 + 999), str(-(t * 10 ** 9 + 999)), "%d.5" % (t * 10 ** 9), "-1", "999", "-999", "-1001"])
        else:
            v = str(t)
        if rng.random() < 0.08:
            v = rng.choice([" ", "\t"]) + v + rng.choice(["", " ", " \t"])
        out.append(v)
    return out


def csv_field(rng, s, delim):
    need = any(ch in s for ch in (delim, '"', "\n", "\r")) or s.startswith(" ") and rng.random() < 0.3
    if need or rng.random() < 0.08:
        return '"' + s.replace('"', '""') + '"'
    return s


def gen_csv(rng, cid):
    mode = rng.choice(["ok"] * 26 + ["header_err", "header_err", "time_err", "time_err", "norows", "csv_err", "delim", "empty",
                                     "underscore", "longrow", "overflow", "lazyquote", "unsupported"])
    delim = rng.choice([",", ",", ",", ";", "\t", "|"])
    tc = rng.choice(["time", "time", "time", "ts", "timestamp"])
    fmt = rng.choice(["", "", "", "epoch_s", "epoch_ms", "epoch_us", "epoch_ns"])
    n = rng.randint(2, 12)
    ncols = rng.randint(2, 5)
    names = rng.sample(NAMES, ncols)
    kinds = [rng.choice(KINDS) for _ in range(ncols)]
    cols = [col_values(rng, k, n) for k in kinds]
    # sprinkle empty cells
    for c in cols:
        for i in range(n):
            if rng.random() < 0.15:
                c[i] = ""
    tvals = time_values(rng, fmt, n)
    tpos = rng.randrange(0, ncols + 1)
    header = names[:tpos] + [tc] + names[tpos:]
    rows = [[c[i] for c in cols[:tpos]] + [tvals[i]] + [c[i] for c in cols[tpos:]] for i in range(n)]
    time_column = tc
    skip = 0
    if mode == "header_err":
        k = rng.choice(["empty", "dup", "missing", "collision", "case"])
        if k == "empty":
            header[rng.randrange(len(header))] = ""
        elif k == "dup" and len(header) > 1:
            header[-1] = header[0]
        elif k == "missing":
            time_column = "nope"
        elif k == "collision" and tc != "time" and names:
            header[(tpos + 1) % len(header) if (tpos + 1) % len(header) != tpos else 0] = "time"
        else:
            time_column = tc.upper()
    elif mode == "time_err":
        i = rng.randrange(n)
        rows[i][tpos] = rng.choice(["", "  ", "yesterday", "12:00", "2024-13-01", "1e", "0x10", "NaN", "inf", "1e400", "--5"])
    elif mode == "norows":
        rows = []
    elif mode == "underscore" and names:
        j = rng.randrange(len(header))
        if j != tpos:
            header[j] = "_" + header[j]
    elif mode == "longrow":
        i = rng.randrange(n)
        rows[i] = rows[i] + [rng.choice(["EXTRA", "9", ""])] * rng.randint(1, 2)
    elif mode == "overflow":
        fmt = rng.choice(["epoch_s", "epoch_ms"])
        big = {"epoch_s": [9223372036855, 9223372036854776, -9223372036855, 10 ** 15, 9223372036854775807],
               "epoch_ms": [9223372036854776, -9223372036854776, 10 ** 17, -9223372036854775808]}[fmt]
        tv = time_values(rng, fmt, n)
        for i in range(n):
            rows[i][tpos] = tv[i].strip() if tv[i].strip().lstrip("+-").isdigit() else str(1_700_000_000 + i)
        rows[rng.randrange(n)][tpos] = str(rng.choice(big))
    elif mode == "unsupported":
        fmt = rng.choice(["iso", "rfc3339", "epoch", "EPOCH_S"])
    # ragged short rows
    if rows and rng.random() < 0.2:
        i = rng.randrange(len(rows))
        cut = rng.randrange(1, len(rows[i]) + 1)
        if cut > tpos:
            rows[i] = rows[i][:cut]
    lines = [header] + rows
    if rng.random() < 0.15:
        skip = rng.randint(1, 2)
        junk = [["# exported by tool"], ["junk", "1", "2", "3", "4", "5", "6", "7"], ["", ""]]
        lines = [rng.choice(junk) for _ in range(skip)] + lines
        if rng.random() < 0.2:
            skip += rng.choice([-1, 1, 30])
            skip = max(skip, 0)
    eol = rng.choice(["\n", "\n", "\r\n"])
    text = eol.join(delim.join(csv_field(rng, f, delim) for f in ln) for ln in lines)
    if rng.random() < 0.8:
        text += eol
    if rng.random() < 0.1:
        text = text.replace(eol, eol + eol, 1)          # a blank line
    if rng.random() < 0.12:
        text = "﻿" + text
    if mode == "csv_err":
        text += rng.choice(['"unterminated', 'a' + delim + '"b" c' + eol, '"x"y"' + eol])
    if mode == "lazyquote":
        text += 'ab"c' + delim + rng.choice(['1', '"q"uote']) + eol
    if mode == "empty":
        text = rng.choice(["", "\n", "\n\n", "﻿"])
    dl = delim
    if mode == "delim":
        dl = rng.choice([";;", "ab", "§", "", "\n", '"'])
    return {"id": cid, "kind": "csv", "mode": mode, "data": base64.b64encode(text.encode("utf-8", "surrogateescape")).decode(),
            "time_column": time_column, "time_format": fmt, "delimiter": dl, "skip_rows": skip}


# ---------------------------------------------------------------------------------------
# Parquet generation (the harness builds the file from the column descriptions)
# ---------------------------------------------------------------------------------------

import struct

IRANGE = {"int8": (-128, 127), "int16": (-32768, 32767), "int32": (-2 ** 31, 2 ** 31 - 1), "int64": (-2 ** 63, 2 ** 63 - 1),
          "uint8": (0, 255), "uint16": (0, 65535), "uint32": (0, 2 ** 32 - 1), "uint64": (0, 2 ** 63 - 1)}
ITYPE = {"int8": "I8", "int16": "I16", "int32": "I32", "int64": "I64", "uint8": "U8", "uint16": "U16", "uint32": "U32", "uint64": "U64"}
TUNIT = {"ts_s": "USecond", "ts_ms": "UMilli", "ts_us": "UMicro", "ts_ns": "UNano"}


def f64bits(x):
    return struct.unpack(">Q", struct.pack(">d", x))[0]


def pq_values(rng, typ, n, nulls=0.22):
    out = []
    for _ in range(n):
        if rng.random() < nulls:
            out.append(None)
            continue
        if typ in IRANGE:
            lo, hi = IRANGE[typ]
            out.append(str(rng.choice([lo, hi, 0, 1, rng.randint(lo, hi), rng.randint(max(lo, -1000), min(hi, 1000))])))
        elif typ == "float64":
            out.append(str(f64bits(rng.choice([0.0, -0.0, 1.5, -2.25, 1e300, float("inf"), float("nan"), rng.uniform(-1e6, 1e6)]))))
        elif typ == "float32":
            x = rng.choice([0.0, 1.5, -2.25, 3.0e38, rng.uniform(-1e6, 1e6)])
            out.append(str(struct.unpack(">I", struct.pack(">f", x))[0]))
        elif typ == "bool":
            out.append(rng.choice(["0", "1"]))
        elif typ in ("string", "binary"):
            out.append(base64.b64encode(rng.choice(STR_CELLS + INT_CELLS + [""]).encode("utf-8")).decode())
        elif typ in TUNIT:
            base = 1_700_000_000 + rng.randrange(0, 10 ** 6)
            scale = {"ts_s": 1, "ts_ms": 10 ** 3, "ts_us": 10 ** 6, "ts_ns": 10 ** 9}[typ]
            out.append(str(rng.choice([base * scale + rng.randrange(scale), -(base * scale + rng.randrange(scale)), 0, -1, -999, -1001, 1999])))
        elif typ == "date32":
            out.append(str(rng.randrange(0, 20000)))
    return out


def gen_pq(rng, cid):
    mode = rng.choice(["ok"] * 16 + ["time_null", "time_null", "bad_time_type", "missing_time", "collision", "unsupported_col", "underscore",
                                     "biguint", "overflow", "tscol_overflow", "unsupported_fmt", "norows", "time_nan"])
    n = rng.randint(2, 8)
    if mode == "norows":
        n = 0
    tc = rng.choice(["time", "time", "ts", "when"])
    fmt = rng.choice(["", "", "epoch_s", "epoch_ms", "epoch_us", "epoch_ns"])
    names = rng.sample(NAMES, rng.randint(1, 4))
    types = [rng.choice(list(IRANGE) + ["float64", "float32", "bool", "string", "binary", "ts_s", "ts_ms", "ts_us", "ts_ns"]) for _ in names]
    cols = [{"name": nm, "type": t, "values": pq_values(rng, t, n)} for nm, t in zip(names, types)]
    base = 1_700_000_000 + rng.randrange(0, 10 ** 6)
    ttype = rng.choice(["ts_s", "ts_ms", "ts_us", "ts_ns", "int64", "int64", "int32", "uint32", "uint64", "int16", "float64", "string", "binary"])
    tv = []
    for i in range(n):
        t = base + i * rng.choice([1, 60, 3600])
        if ttype in TUNIT:
            tv.append(str(t * {"ts_s": 1, "ts_ms": 10 ** 3, "ts_us": 10 ** 6, "ts_ns": 10 ** 9}[ttype] + (7 if ttype != "ts_s" else 0)))
        elif ttype in ("int64", "uint64"):
            unit = {"": rng.choice([1, 10 ** 3, 10 ** 6, 10 ** 9]), "epoch_s": 1, "epoch_ms": 10 ** 3, "epoch_us": 10 ** 6, "epoch_ns": 10 ** 9}[fmt]
            tv.append(str(t * unit + (rng.randrange(unit) if unit > 1 else 0)))
        elif ttype in ("int32", "uint32"):
            tv.append(str(t))
        elif ttype == "int16":
            tv.append(str(rng.randrange(-32768, 32767)))
        elif ttype == "float64":
            tv.append(str(f64bits(t + rng.choice([0.0, 0.5, 0.123456]))))
        else:
            tv.append(base64.b64encode(rng.choice([str(t), " %d " % t, "%d.5" % t, time.strftime("%Y-%m-%dT%H:%M:%SZ", time.gmtime(t)),
                                                   time.strftime("%Y-%m-%d %H:%M:%S", time.gmtime(t))]).encode()).decode())
    time_column = tc
    if mode == "time_null" and n:
        tv[rng.randrange(n)] = None
    elif mode == "bad_time_type":
        ttype = rng.choice(["int8", "uint8", "uint16", "bool", "date32"])
        tv = pq_values(rng, ttype, n, nulls=0)
    elif mode == "missing_time":
        time_column = "nope"
    elif mode == "collision" and tc != "time":
        cols.append({"name": "time", "type": "int64", "values": pq_values(rng, "int64", n)})
    elif mode == "unsupported_col":
        cols.insert(rng.randrange(len(cols) + 1), {"name": "d32", "type": "date32", "values": pq_values(rng, "date32", n)})
    elif mode == "underscore":
        cols[0]["name"] = "_" + cols[0]["name"]
    elif mode == "biguint":
        cols.append({"name": "big", "type": "uint64", "values": [str(rng.choice([2 ** 63, 2 ** 63 + 5, 2 ** 64 - 1])) if i == 0 or rng.random() < 0.5 else "7" for i in range(n)]})
    elif mode == "tscol_overflow" and n:
        unit = rng.choice(["ts_s", "ts_ms"])
        big = 9223372036855 if unit == "ts_s" else 9223372036854776
        cols.append({"name": "seen", "type": unit, "values": [str(rng.choice([big, -big])) if i == 0 else str(1_700_000_000 + i) for i in range(n)]})
    elif mode == "overflow" and n:
        ttype, fmt = rng.choice([("ts_s", ""), ("ts_ms", ""), ("int64", "epoch_s"), ("int64", "epoch_ms")])
        big = 9223372036855 if (ttype == "ts_s" or fmt == "epoch_s") else 9223372036854776
        tv = [str(base + i) for i in range(n)]
        tv[rng.randrange(n)] = str(rng.choice([big, -big, big * 10]))
    elif mode == "unsupported_fmt":
        fmt = rng.choice(["iso", "epoch"])
    elif mode == "time_nan" and n:
        ttype = "float64"
        tv = [str(f64bits(base + i + 0.5)) for i in range(n)]
        tv[rng.randrange(n)] = str(f64bits(rng.choice([float("nan"), float("inf")])))
    cols.insert(rng.randrange(len(cols) + 1), {"name": tc, "type": ttype, "values": tv})
    for c in cols:
        c["name"] = base64.b64encode(c["name"].encode("utf-8")).decode()
    return {"id": cid, "kind": "parquet", "mode": "pq_" + mode, "pq": cols, "data": "", "time_column": time_column, "time_format": fmt,
            "delimiter": "", "skip_rows": 0}


def pq_witness_cases():
    """Parquet files that witnessed repaired defects (b90d6d7, 2599b0c): all rejected now."""
    def col(name, typ, values):
        return {"name": base64.b64encode(name.encode()).decode(), "type": typ, "values": values}

    def c(cid, cols):
        return {"id": cid, "kind": "parquet", "mode": "regression", "data": "", "time_column": "time", "time_format": "",
                "delimiter": "", "skip_rows": 0, "pq": cols}
    return [c("regression-pq-uint64", [col("time", "ts_us", ["1700000000000000"]), col("big", "uint64", ["9223372036854775813"])]),
            c("regression-pq-ts-overflow", [col("time", "ts_s", ["9223372036855"]), col("v", "int64", ["1"])]),
            c("regression-pq-tscol-overflow", [col("time", "ts_us", ["1700000000000000"]), col("seen", "ts_s", ["9223372036855"])])]


def pq_null_time_cases():
    """A NULL in the TIME column must reject the whole file: every accepted time-column type
    (timestamp s/ms/us/ns, int16/32/64, uint32/64, float32/64, string, binary) x NULL at the first /
    middle / last row, next to one ordinary column."""
    def col(name, typ, values):
        return {"name": base64.b64encode(name.encode()).decode(), "type": typ, "values": values}
    base = 1_700_000_000
    out = []
    for typ in ("ts_s", "ts_ms", "ts_us", "ts_ns", "int64", "int32", "int16", "uint32", "uint64", "float64", "float32", "string", "binary"):
        if typ in TUNIT:
            vals = [str((base + i) * {"ts_s": 1, "ts_ms": 10 ** 3, "ts_us": 10 ** 6, "ts_ns": 10 ** 9}[typ]) for i in range(3)]
        elif typ == "int16":
            vals = [str(1000 + i) for i in range(3)]
        elif typ == "float64":
            vals = [str(f64bits(base + i + 0.5)) for i in range(3)]
        elif typ == "float32":
            vals = [str(struct.unpack(">I", struct.pack(">f", 1000.0 + i))[0]) for i in range(3)]
        elif typ in ("string", "binary"):
            vals = [base64.b64encode(str(base + i).encode()).decode() for i in range(3)]
        else:
            vals = [str(base + i) for i in range(3)]
        for pos, where in ((0, "first"), (1, "middle"), (2, "last")):
            tv = list(vals)
            tv[pos] = None
            out.append({"id": "nulltime-%s-%s" % (typ, where), "kind": "parquet", "mode": "pq_null_time", "data": "",
                        "time_column": "time", "time_format": "", "delimiter": "", "skip_rows": 0,
                        "pq": [col("time", typ, tv), col("v", "int64", ["1", "2", "3"])]})
    return out


def pqcol_to_coq(c, widen=True):
    t, vals = c["type"], c["values"]

    def opt(f):
        return clist(["None" if v is None else "(Some %s)" % f(v) for v in vals])
    if t in ITYPE:
        return "PInt %s %s" % (ITYPE[t], opt(lambda v: hz(int(v))))
    if t == "float64":
        return "PFloat %s" % opt(lambda v: hz(int(v)))
    if t == "float32":
        return "PFloat %s" % opt(lambda v: hz(f64bits(struct.unpack(">f", struct.pack(">I", int(v)))[0])))
    if t == "bool":
        return "PBool %s" % opt(lambda v: cbool(v == "1"))
    if t in ("string", "binary"):
        return "PStr %s" % opt(lambda v: cb(b64bytes(v)))
    if t in TUNIT:
        return "PTs %s %s" % (TUNIT[t], opt(lambda v: hz(int(v))))
    return "POther"


def pqcase_to_coq(c):
    ob = c["obs"]
    fmt = FMT.get(c["time_format"], "Unsupported")
    cols = clist(["(%s, %s)" % (cb(b64bytes(col["name"])), pqcol_to_coq(col)) for col in c["pq"]])
    nrows = len(c["pq"][0]["values"]) if c["pq"] else 0
    table = ["(%s, {| a_pf := %s; a_fl := %s; a_text := %s |})" % (cb(b64bytes(k)), copt(a["pf"]), copt(a["fl"]), copt(a["text"]))
             for k, a in sorted(ob["table"].items())]
    fl = ["(%s, %s)" % (hz(int(k)), copt(v)) for k, v in sorted((ob.get("float_tab") or {}).items())]
    tcb = c["time_column"].encode("utf-8")
    other = [b64bytes(col["name"]) for col in c["pq"] if b64bytes(col["name"]) != tcb]
    rows, bad_time = [], False
    for r in ob["stored"]:
        cells = []
        for h in other:
            cell = r["cells"].get(base64.b64encode(h).decode())
            cells.append(cell_to_coq(cell) if cell is not None else "VAbsent")
        try:
            tv = int(r["time"])
        except (ValueError, TypeError):
            tv, bad_time = 0, True
        rows.append("(%s, %s)" % (hz(tv), clist(cells)))
    code = ob["class"] if not bad_time else 97
    req = "{| pq_time_column := %s; pq_fmt := %s; pq_cols := %s; pq_nrows := %d%%nat |}" % (cb(tcb), fmt, cols, nrows)
    return ("{| pc_req := %s; pc_table := %s; pc_fl := %s; pc_params := import_params; pc_code := %s; pc_rows := %s; pc_files := %s |}"
            % (req, clist(table), clist(fl), cn(code), clist(rows), cn(ob["files"])))


PQ_PREDS = {"agree": "pqcase_agrees", "oracle": "pqcase_oracle"}


def witness_cases():
    """The uploads that witnessed the four repaired CSV defects, kept as regression cases
    (each must now be rejected with nothing stored)."""
    def c(cid, text, **kw):
        d = {"id": cid, "kind": "csv", "mode": "regression", "data": base64.b64encode(text.encode()).decode(),
             "time_column": "time", "time_format": "", "delimiter": ",", "skip_rows": 0}
        d.update(kw)
        return d
    return [c("regression-overflow", "time,v\n9223372036855,1\n", time_format="epoch_s"),          # b90d6d7
            c("regression-underscore", "time,_hidden,v\n1700000000,5,6\n"),                         # 53efdcd
            c("regression-longrow", "time,v\n1700000000,5,EXTRA\n1700000001,6\n")]                  # fcf78a3


def corpus_cases():
    d = os.path.join(vlib.ROOT, "corpus", "C31")
    out = []
    if os.path.isdir(d):
        for fn in sorted(os.listdir(d)):
            if fn.endswith(".json"):
                c = json.load(open(os.path.join(d, fn)))
                c = c.get("case", c)
                c = {k: c[k] for k in ("kind", "data", "time_column", "time_format", "delimiter", "skip_rows", "pq") if k in c}
                c["id"], c["mode"] = "corpus-" + fn[:-5], "corpus"
                out.append(c)
    return out


# ---------------------------------------------------------------------------------------
# running and evaluating
# ---------------------------------------------------------------------------------------

def run_impl(cases, tag):
    hc = [dict({k: c.get(k) for k in ("kind", "data", "time_column", "time_format", "delimiter", "skip_rows", "pq", "via")}, id=i) for i, c in enumerate(cases)]
    obs = vlib.run_go_harness("C31", "./internal/api/", "^TestVerifImport$", HARNESS, hc, tags="verif duckdb_arrow", timeout=2400, tag=tag)
    if len(obs) != len(cases):
        raise vlib.TieBroken("C31 harness returned %d results for %d cases" % (len(obs), len(cases)))
    return [dict(c, obs=o) for c, o in zip(cases, obs)]


def b64bytes(s):
    return base64.b64decode(s)


def hz(n):
    """Z literal; hexadecimal for large values (Coq converts decimal literals slowly)"""
    n = int(n)
    if -10 < n < 10:
        return "(%d)%%Z" % n
    return "(%s0x%x)%%Z" % ("-" if n < 0 else "", abs(n))


def cb(b):
    """bytes as the compact literal B <length> <big-endian integer> of Import/Model.v"""
    return "(B %d%%nat %s)" % (len(b), hz(int.from_bytes(b, "big"))) if b else "(@nil N)"


def copt(v):
    return "None" if v is None else "(Some %s)" % hz(int(v))


def cell_to_coq(cell):
    t = cell["t"]
    if t == "n":
        return "VNull"
    if t == "i":
        return "VInt %s" % hz(int(cell["v"]))
    if t == "f":
        return "VFloat %s" % hz(int(cell["v"]))
    if t == "b":
        return "VBool %s" % cbool(cell["v"] == "1")
    if t == "s":
        return "VStr %s" % cb(b64bytes(cell["v"]))
    return "VAbsent"


def header_of(c):
    """Header (bytes, BOM stripped) as the import sees it, from the harness' independent parse."""
    ob = c["obs"]
    recs = ob["records"][c["skip_rows"]:] if c["skip_rows"] <= len(ob["records"]) else []
    if not recs:
        return []
    h = [b64bytes(x) for x in recs[0]]
    if h and h[0].startswith(b"\xef\xbb\xbf"):
        h[0] = h[0][3:]
    return h


def case_to_coq(c):
    ob = c["obs"]
    fmt = FMT.get(c["time_format"], "Unsupported")
    recs = clist([clist([cb(b64bytes(x)) for x in r]) for r in ob["records"]])
    table, i2f = [], {}
    for k, a in sorted(ob["table"].items()):
        table.append("(%s, {| a_pf := %s; a_fl := %s; a_text := %s |})" % (cb(b64bytes(k)), copt(a["pf"]), copt(a["fl"]), copt(a["text"])))
        if a["int"] is not None:
            i2f[int(a["int"])] = int(a["i2f"])
    i2f_t = clist(["(%s, %s)" % (hz(k), hz(v)) for k, v in sorted(i2f.items())])
    tcb = c["time_column"].encode("utf-8", "surrogateescape")
    header = header_of(c)
    other = [h for h in header if h != tcb]
    rows = []
    bad_time = False
    for r in ob["stored"]:
        cells = []
        for h in other:
            cell = r["cells"].get(base64.b64encode(h).decode())
            cells.append(cell_to_coq(cell) if cell is not None else "VAbsent")
        try:
            tv = int(r["time"])
        except (ValueError, TypeError):
            tv, bad_time = 0, True
        rows.append("(%s, %s)" % (hz(tv), clist(cells)))
    code = ob["class"] if not bad_time else 97
    req = ("{| q_time_column := %s; q_fmt := %s; q_skip := %d%%nat; q_delim_runes := %s; q_records := %s; q_csv_err := %s |}"
           % (cb(tcb), fmt, min(c["skip_rows"], 100000), cn(ob["delim_runes"]), recs, cbool(ob["csv_err"])))
    return ("{| c_req := %s; c_table := %s; c_i2f := %s; c_params := import_params; c_code := %s; c_rows := %s; c_files := %s |}"
            % (req, clist(table), i2f_t, cn(code), clist(rows), cn(ob["files"])))


HEADER = ("From Coq Require Import List ZArith Bool NArith.\nFrom Arc Require Import Import.Model.\n"
          "From ArcGen Require Import Params_Import.\nImport ListNotations.\nOpen Scope Z_scope.\n")
PREDS = {"agree": "case_agrees", "oracle": "case_oracle"}


def eval_coq(cases, name, workers=6):
    """Evaluate the predicates inside Coq; chunks are compiled by parallel coqc processes
    (elaborating the case terms dominates the cost).  CSV and Parquet cases have their own
    case types and predicates; the result uses the keys of PREDS plus "biguint"."""
    from concurrent.futures import ThreadPoolExecutor
    jobs = []
    for kind, typ, preds, conv in (("csv", "ccase", PREDS, case_to_coq), ("parquet", "pqcase", PQ_PREDS, pqcase_to_coq)):
        idx = [i for i, c in enumerate(cases) if c["kind"] == kind]
        terms = [conv(cases[i]) for i in idx]
        per = max(20, -(-len(terms) // workers)) if terms else 1
        for off in range(0, len(terms), per):
            jobs.append((kind, typ, preds, idx[off:off + per], terms[off:off + per], off))

    def one(job):
        kind, typ, preds, idx, terms, off = job
        r = vlib.coq_check_cases("C31", HEADER, typ, terms, preds, chunk=len(terms), name="%s_%s_%d" % (name, kind, off))
        return {k: [idx[x] for x in v] for k, v in r.items()}
    res = {k: [] for k in PREDS}
    with ThreadPoolExecutor(max_workers=workers) as ex:
        for r in ex.map(one, jobs):
            for k, v in r.items():
                res[k] += v
    return {k: sorted(v) for k, v in res.items()}


def nontrivial(c):
    ob = c["obs"]
    if ob["class"] != 0 or not ob["stored"]:
        return False
    types = set()
    for r in ob["stored"]:
        for cell in r["cells"].values():
            if cell["t"] != "n":
                types.add(cell["t"])
    if c["kind"] == "parquet":
        has_empty = any(cell["t"] == "n" for r in ob["stored"] for cell in r["cells"].values())
        return len(types) >= 2 and has_empty
    recs = ob["records"][c["skip_rows"] + 1:]
    has_empty = any(x == "" for r in recs for x in r) or any(len(r) < len(ob["records"][c["skip_rows"]]) for r in recs)
    return len(types) >= 2 and has_empty


def shrink(case, fails, rounds=8):
    """Shrink the upload row by row (all single-row removals of a round in one harness run)."""
    cur = {k: v for k, v in case.items() if k != "obs"}
    for _ in range(rounds):
        cands = []
        if cur["kind"] == "parquet":
            n = len(cur["pq"][0]["values"]) if cur["pq"] else 0
            if n <= 1:
                break
            for i in range(n):
                cand = dict(cur)
                cand["pq"] = [dict(col, values=col["values"][:i] + col["values"][i + 1:]) for col in cur["pq"]]
                cands.append(cand)
        else:
            lines = base64.b64decode(cur["data"]).split(b"\n")
            if len(lines) <= 2:
                break
            for i in range(1, len(lines)):
                cand = dict(cur)
                cand["data"] = base64.b64encode(b"\n".join(lines[:i] + lines[i + 1:])).decode()
                cands.append(cand)
        verdicts = fails(cands)
        nxt = [c for c, v in zip(cands, verdicts) if v]
        if not nxt:
            break
        cur = nxt[0]
    return cur


def setup():
    translate_params()


def warm():
    run_impl([], "warm")


def run(res, tier, seed):
    rng = random.Random(seed * 7919 + 31)
    t0 = time.time()
    try:
        params = translate_params()
    finally:
        res.stage("translate_params", t0)
    res.cov["params"] = params

    failed = vlib.std_proof_stage(res, "C31", AREA, MODULES, THEOREMS, extra_targets=["theories/Import/Obligations.vo"])
    if params["mismatch"]:
        res.cov["obligations"] += 1
        failed.append(("C31_scaling_constants_agree", "time scaling constants disagree between the conversion functions: " + "; ".join(params["mismatch"])))
    if tier == "thorough":
        ok, _ = vlib.coqchk_stage(res, MODULES)
        if not ok:
            failed.append(("coqchk", "coqchk did not accept the compiled development"))
    res.cov["trusted_base"] += [
        "encoding/csv record splitting (FieldsPerRecord=-1, LazyQuotes, Comma) is the model's input: the harness re-parses the upload with an independent reader",
        "strconv.ParseFloat, float64(int64), the float epoch path int64(f*unit) and time.Parse over the layout list are oracles, recomputed independently in the harness for every distinct cell (a change of the real float / text path shows up as a disagreement)",
        "strings.TrimSpace / EqualFold are modelled on ASCII (generated time cells and boolean spellings are ASCII)",
        "ArrowBuffer.WriteTypedColumnarDirect + FlushAll + the Parquet writer are exercised as they are; the model states what they must store (every row once; columns whose name starts with '_' are skipped by inferSchema)",
        "four fifths of the uploads call importCSV/importParquet in-package; one fifth go through the real handleCSVImport/handleParquetImport (multipart form, query options, importPreamble) on ONE reused fasthttp.RequestCtx with max_buffer_size=1 and a held flush worker, the next request overwriting the connection buffers before the flush builds the storage path - the model has value semantics: rows must be found under the request's own database/measurement and nowhere else; RBAC and the size limit are not exercised",
    ]

    n, m = (260, 80) if tier == "quick" else (6000, 2500)
    t1 = time.time()
    fixed = witness_cases() + pq_witness_cases() + pq_null_time_cases() + corpus_cases()
    cases = fixed + [gen_csv(rng, i) for i in range(n)] + [gen_pq(rng, n + i) for i in range(m)]
    # every fifth generated upload goes through the real HTTP handler on a reused connection whose
    # request buffers are overwritten by a following import while this one's flush is still queued
    for k, c in enumerate(cases[len(fixed):]):
        if k % 5 == 0:
            c["via"] = "handler"
    out = run_impl(cases, tier)
    res.stage("impl_harness", t1)
    t2 = time.time()
    ev = eval_coq(out, "Cases_%s" % tier)
    res.stage("coq_eval", t2)
    known = {e["signature"]: e for e in vlib.known_for("C31")}
    dis = set(ev["agree"])
    orf = set(ev["oracle"])
    cls = {}            # index sets of the classes of open known findings (none at present)

    res.cov["evaluations"] = len(out)
    res.cov["distinct_nontrivial"] = len({json.dumps([c["data"], c.get("pq"), c["time_column"], c["time_format"], c["delimiter"], c["skip_rows"]]) for c in out if nontrivial(c)})
    res.cov["rule"] = ("generated CSV uploads: 1-12 rows x 1-5 columns, delimiters , ; tab |, quoting/embedded newlines, CRLF, BOM, blank lines, skipped rows, "
                       "ragged rows, empty cells, column kinds int/float/bool/string/all-empty and every demotion order, time as epoch s/ms/us/ns "
                       "(auto by magnitude incl. the thresholds, or explicit format), fractional epochs, RFC 3339 / space / date text, padded values; "
                       "malformed stream: header errors, bad time cells, no rows, csv errors, bad delimiters, unsupported formats; generated Parquet files (built by "
                       "the harness with arrow-go): int8..uint64, float32/64, bool, string, binary, timestamp s/ms/us/ns columns with nulls, time column as "
                       "timestamp / integer / float / text, NULL times (every time-column type x first/middle/last row) or NaN times, unsupported types; + the refutation witnesses + corpus.  non-trivial = accepted "
                       "upload storing >= 2 distinct cell types and containing >= 1 empty cell / null; distinct by upload content and options.  The uploads "
                       "that witnessed the repaired defects (overflowing epoch, '_' column, over-long row, uint64 > MaxInt64, timestamp overflow) run first as regression cases")
    res.cov["model_vs_impl_disagreements"] = len(dis)
    res.cov["oracle_failures"] = len(orf)
    modes, classes, types = {}, {}, {}
    for c in out:
        modes[c["mode"]] = modes.get(c["mode"], 0) + 1
        classes[str(c["obs"]["class"])] = classes.get(str(c["obs"]["class"]), 0) + 1
        for r in c["obs"]["stored"]:
            for cell in r["cells"].values():
                types[cell["t"]] = types.get(cell["t"], 0) + 1
    res.cov["histogram"] = {"modes": modes, "outcome_classes(0=stored)": classes, "stored_cell_types": types,
                            "stored_rows": sum(len(c["obs"]["stored"]) for c in out),
                            "time_formats": {f or "auto": sum(1 for c in out if c["time_format"] == f) for f in sorted({c["time_format"] for c in out})}}

    def slim(c):
        d = {k: v for k, v in c.items() if k != "obs"}
        if c["kind"] == "csv":
            d["csv_text"] = base64.b64decode(c["data"]).decode("utf-8", "replace")
        d["obs"] = {k: c["obs"][k] for k in ("status", "class", "msg", "rows_reported", "files")}
        d["obs"]["stored_rows"] = len(c["obs"]["stored"])
        return d
    res.cov["samples"] = [slim(out[0]), slim(out[len(fixed) + 1]), slim(out[-1])]
    res.cov["histogram"]["kinds"] = {k: sum(1 for c in out if c["kind"] == k) for k in ("csv", "parquet")}

    reproduced, violations, not_reproduced = set(), [], 0
    res.cov["histogram"]["via_handler"] = sum(1 for c in out if c.get("via") == "handler")
    res.cov["rows_stored_under_another_request"] = sum(1 for c in out if c["obs"].get("foreign"))
    for i, c in enumerate(out):
        if c["obs"].get("foreign"):
            violations.append(("rows of an accepted import were stored under ANOTHER request's database/measurement "
                               "(the handler kept strings that alias the connection's request buffer)", c, "oracle", True))
            continue
        agrees = i not in dis
        oracle_ok = i not in orf
        in_classes = [sig for sig, s in cls.items() if i in s]
        if not in_classes:
            if not oracle_ok:
                violations.append(("an accepted/rejected upload violates the import property on the real code", c, "oracle", True))
            elif not agrees:
                violations.append(("model and implementation disagree on an upload", c, "correspondence", False))
            continue
        if agrees:
            if oracle_ok:
                continue
            if all(sig in known for sig in in_classes):
                reproduced.update(in_classes if c.get("witness") is None else [c["witness"]])
            else:
                violations.append(("import property fails on the real code outside the listed findings (%s)" % ",".join(in_classes), c, "oracle", True))
        else:
            if oracle_ok and any(sig in known for sig in in_classes):
                not_reproduced += 1
            else:
                violations.append(("model and implementation disagree on an upload", c, "correspondence", False))
    # report a case outside the classes of the listed findings first when there is one
    violations.sort(key=lambda v: 0 if not any(out.index(v[1]) in s_ for s_ in cls.values()) else 1)
    res.cov["excluded_class_cases_not_reproducing_finding"] = not_reproduced
    if not_reproduced:
        res.notes.append("%d uploads in the class of a listed finding no longer behave as the (pre-fix) model predicts while satisfying the "
                         "import property: the finding appears repaired; update Import/Model.v to the fixed code" % not_reproduced)
    # a finding is reported when its dedicated witness still reproduces
    said = set()
    for c, i in ((c, i) for i, c in enumerate(out) if c.get("witness")):
        if i in orf and i not in dis and c["witness"] in known and c["witness"] not in said:
            said.add(c["witness"])
            res.known_finding(known[c["witness"]]["what"])

    reported = False
    seen = set()
    for summary, c, kind, has_input in violations:
        if kind in seen:
            continue
        seen.add(kind)

        def fails(cands, kind=kind):
            o = run_impl(cands, "shrink")
            e = eval_coq(o, "Shrink")
            bad = set(e["agree"]) if kind == "correspondence" else (set(e["oracle"]) | {j for j, x in enumerate(o) if x["obs"].get("foreign")})
            return [j in bad for j in range(len(cands))]
        small = shrink(c, fails) if len(violations) < 60 else {k: v for k, v in c.items() if k != "obs"}
        so = run_impl([small], "shrunk")[0]
        e = eval_coq([so], "Shrunk")
        rep = slim(so)
        rep["obs_full"] = so["obs"]
        res.violation(summary, {"kind": kind, "correspondence": TIE_NAME, "case": rep,
                                "violating_cases": sum(1 for v in violations if v[2] == kind),
                                "model_disagrees": bool(e["agree"]), "oracle_fails_on_impl": bool(e["oracle"]),
                                "how_to_replay": "python3 tools/check.py C31 --replay <this file>"},
                      no_input=not (has_input or bool(e["oracle"])), suffix=kind)
        reported = True
    if failed and not reported:
        res.violation("proof obligation(s) no longer check: " + "; ".join(r for _, r in failed),
                      {"kind": "obligation-failed", "theorems": [t for t, _ in failed], "detail": [r for _, r in failed]},
                      no_input=True, suffix="obligation")


def replay(res, path):
    obj = json.load(open(path))
    c = obj.get("case")
    if not c:
        print("replay file names no concrete case:", obj.get("summary"))
        return 1
    translate_params()
    c = {k: c[k] for k in ("kind", "data", "time_column", "time_format", "delimiter", "skip_rows", "pq", "via") if k in c}
    c["mode"] = "replay"
    out = run_impl([c], "replay")
    e = eval_coq(out, "Replay")
    ob = out[0]["obs"]
    print("upload:", repr(base64.b64decode(c["data"])[:300]) if c["kind"] == "csv" else [(base64.b64decode(x["name"]), x["type"], x["values"]) for x in c["pq"]])
    print("status:", ob["status"], ob["msg"], "| rows reported:", ob["rows_reported"], "| stored rows:", len(ob["stored"]), "| files:", ob["files"])
    for r in ob["stored"][:10]:
        print("  time=%s %s" % (r["time"], {base64.b64decode(k).decode("utf-8", "replace"): (v["t"], v["v"]) for k, v in r["cells"].items()}))
    print("model disagrees:", bool(e["agree"]), "| import property fails on the real code:", bool(e["oracle"]),
          "| rows stored under another request:", ob.get("foreign", 0))
    return 1 if (e["agree"] or e["oracle"] or ob.get("foreign")) else 0
