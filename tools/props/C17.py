"""C17 - Performance rewrites do not change query results.

Proof: coq/theories/Rewrites (time_bucket / date_trunc epoch arithmetic = DuckDB's own
functions under exactly the hypotheses the arithmetic needs, refuted for each dropped
hypothesis; URL-domain CASE = regexp_replace/regexp_extract of the canonical pattern on
well-formed URLs, refuted elsewhere; LIKE/empty-string reordering sound for WHERE clauses
without a top-level OR, refuted with one).

Tie (every run): the REAL Go rewrite functions (rewriteTimeBucket, rewriteDateTrunc,
RewriteRegexToStringFuncs, OptimizeLikePatterns) produce SQL text; the original and the
emitted text are BOTH evaluated by a real DuckDB opened through internal/database on
generated rows; inside Coq the model must (a) predict the emitted text, (b) predict both
values of every row (this validates the Gallina definitions of the DuckDB primitives - the
oracle half of the model), and the property oracle (original = rewritten) is evaluated on
DuckDB's own answers.  Rows where the oracle fails must fall into a class listed in
known_findings/C17.json AND be predicted exactly by the model.
"""
import json
import os
import random
import re
import time
from datetime import datetime, timedelta, timezone

import vlib

AREA = "Rewrites"
P = "Arc.Rewrites.Props"
THEOREMS = [(P, n) for n in (
    "C17_time_bucket_eq", "C17_time_bucket_origin_eq", "C17_date_trunc_eq", "C17_month_unrewritten", "C17_rounding_exact",
    "C17_origin_class_refuted", "C17_week_refuted", "C17_date_trunc_week_refuted",
    "C17_origin_fraction_unrewritten", "C17_origin_fraction_guard_needed",
    "C17_subsecond_refuted", "C17_pre_epoch_refuted", "C17_before_origin_refuted",
    "C17_url_canonical_replace_eq", "C17_url_canonical_extract_eq",
    "C17_url_nonmatching_refuted", "C17_url_pattern_refuted", "C17_url_empty_host_refuted",
    "C17_like_sound", "C17_like_opt1_sound", "C17_like_opt2_sound")]
MODULES = [P]
TIE_NAME = ("C17 correspondence (api.rewriteTimeBucket/rewriteDateTrunc/RewriteRegexToStringFuncs/"
            "OptimizeLikePatterns + real DuckDB vs Arc.Rewrites.Model)")
HARNESS = {"internal/api/zz_rewrites_verif_test.go": "harness/rewrites/rewrites_verif_test.go"}
MICROS = 10 ** 6
G = 946857600          # DuckDB default origin (s)
UNITS = ["second", "minute", "hour", "day", "week", "month"]
UNIT_S = {"second": 1, "minute": 60, "hour": 3600, "day": 86400, "week": 604800, "month": 0}
UNIT_COQ = {"second": "USecond", "minute": "UMinute", "hour": "UHour", "day": "UDay", "week": "UWeek", "month": "UMonth"}


def cz(n):
    return "(%d)" % n




def copt(v, f):
    return "None" if v is None else "(Some %s)" % f(v)


def sqlstr(s):
    return "'" + s.replace("'", "''") + "'"


# ---------------------------------------------------------------------------------------
# time expressions
# ---------------------------------------------------------------------------------------

def fmt_ts(sec, layout):
    d = datetime(1970, 1, 1, tzinfo=timezone.utc) + timedelta(seconds=sec)
    return d.strftime(layout)


def texpr_text(e):
    """SQL text of a time expression over column t."""
    k = e["kind"]
    if k == "opaque":
        return e["text"]
    col = e.get("col", "t")
    if k == "dt":
        return "date_trunc('%s', %s)" % (e["unit"], col)
    lit = "%d %s%s" % (e["amount"], e["unit"], "s" if e.get("plural") else "")
    iv = ("INTERVAL '%s'" if e.get("kw", True) else "'%s'") % lit
    if k == "tb2":
        return "time_bucket(%s, %s)" % (iv, col)
    o = fmt_ts(e["origin"], e.get("layout", "%Y-%m-%d %H:%M:%S"))
    if e.get("frac"):                     # fractional second (layouts ending in seconds only)
        fr = ("%06d" % e["frac"]).rstrip("0")
        o = o[:-1] + "." + fr + "Z" if o.endswith("Z") else o + "." + fr
    return "time_bucket(%s, %s, %s'%s')" % (iv, col, "TIMESTAMP " if e.get("tskw", True) else "", o)


def texpr_coq(e):
    k = e["kind"]
    if k == "opaque":
        return "TOpaque"
    if k == "dt":
        return "(DT %s)" % UNIT_COQ[e["unit"]]
    if k == "tb2":
        return "(TB2 %s %s)" % (cz(e["amount"]), UNIT_COQ[e["unit"]])
    return "(TB3 %s %s %s)" % (cz(e["amount"]), UNIT_COQ[e["unit"]], cz(e["origin"] * MICROS + e.get("frac", 0)))


RE_E2 = re.compile(r"^to_timestamp\(\(epoch\(t(?:::TIMESTAMP)?\)::BIGINT // (-?\d+)\) \* (-?\d+)\)$")
RE_E3 = re.compile(r"^to_timestamp\((-?\d+) \+ \(\(epoch\(t(?:::TIMESTAMP)?\)::BIGINT - (-?\d+)\) // (-?\d+)\) \* (-?\d+)\)$")


def parse_emitted(src, out):
    if out == src:
        return "EUnch"
    m = RE_E2.match(out)
    if m:
        return "(E2 %s %s)" % (cz(int(m.group(1))), cz(int(m.group(2))))
    m = RE_E3.match(out)
    if m:
        return "(E3 %s %s %s %s)" % tuple(cz(int(m.group(i))) for i in (1, 2, 3, 4))
    return "EOther"


WITNESS_T = [  # the refutation witnesses of Props.v, always in the row set
    1704844800 * MICROS,                 # 2024-01-10 00:00 (Wednesday): week buckets Monday vs Thursday
    1704848399 * MICROS + 600000,        # 2024-01-10 00:59:59.6 : ::BIGINT rounds up to 01:00
    -1800 * MICROS,                      # 1969-12-31 23:30 : // truncates toward zero
    1704069000 * MICROS - 1800 * MICROS,  # half an hour before the 3-arg origin 2024-01-01 00:30
]


def time_exprs(rng, tier):
    ex = []
    amounts = {"second": [1, 7, 10, 30, 45], "minute": [1, 5, 15, 30, 64], "hour": [1, 4, 7, 9, 16],
               "day": [1, 2, 7], "week": [1, 2], "month": [1, 2]}
    for u in UNITS:
        for a in amounts[u]:
            ex.append({"kind": "tb2", "amount": a, "unit": u, "plural": a > 1 and rng.random() < 0.7,
                       "kw": rng.random() < 0.6})
    for u in UNITS:
        ex.append({"kind": "dt", "unit": u})
    origins = [1704069000, 1704067200, 0, -3600, 946857600, 1700000000 + rng.randrange(10 ** 6), -86400 * 365]
    layouts = ["%Y-%m-%d %H:%M:%S", "%Y-%m-%dT%H:%M:%S", "%Y-%m-%d %H:%M:%SZ", "%Y-%m-%dT%H:%M:%SZ"]
    for i, o in enumerate(origins):
        u = rng.choice(["second", "minute", "hour", "day", "week"])
        ex.append({"kind": "tb3", "amount": rng.choice(amounts[u]), "unit": u, "origin": o,
                   "layout": layouts[i % 4], "plural": False})
    ex.append({"kind": "tb3", "amount": 30, "unit": "minute", "origin": 1704067200, "layout": "%Y-%m-%d"})
    ex.append({"kind": "tb3", "amount": 1, "unit": "month", "origin": 1704067200})
    ex.append({"kind": "tb3", "amount": 1, "unit": "hour", "origin": 1704069000, "frac": 500000})     # witness: origin 00:30:00.5
    ex.append({"kind": "tb3", "amount": 10, "unit": "second", "origin": 1704069000, "frac": 250000, "layout": "%Y-%m-%dT%H:%M:%SZ"})
    ex.append({"kind": "tb3", "amount": 1, "unit": "day", "origin": -86400, "frac": 1})
    n_extra = 6 if tier == "quick" else 40
    for _ in range(n_extra):
        u = rng.choice(["second", "minute", "hour", "day", "week"])
        a = rng.choice([1, 2, 3, 5, 6, 8, 12, 20, 24, 36, 90, 100, 281, 1000, rng.randrange(1, 5000)])
        if rng.random() < 0.5:
            ex.append({"kind": "tb2", "amount": a, "unit": u, "plural": True})
        else:
            ex.append({"kind": "tb3", "amount": a, "unit": u, "origin": rng.randrange(-10 ** 9, 4 * 10 ** 9),
                       "layout": rng.choice(layouts)})
    # branches of the Go code whose original DuckDB cannot (or need not) evaluate: emitted text only
    emit_only = [
        {"kind": "tb2", "amount": 0, "unit": "hour"},                                   # seconds == 0 -> unchanged
        {"kind": "tb2", "amount": 2 ** 63, "unit": "second"},                           # Atoi overflow -> unchanged
        {"kind": "tb2", "amount": 2 ** 62, "unit": "minute"},                           # product wraps
        {"kind": "tb2", "amount": 2 ** 63 - 1, "unit": "week"},
        {"kind": "tb3", "amount": 1, "unit": "hour", "origin": 1704069000, "tskw": False},   # plain string origin
        {"kind": "opaque", "text": "time_bucket(INTERVAL '1 hour', t, TIMESTAMP '2024-01-01 00:30')"},
        {"kind": "opaque", "text": "time_bucket(INTERVAL '1 hour', (t))"},
        {"kind": "opaque", "text": "time_bucket(INTERVAL '1 hour', coalesce(t, t), TIMESTAMP '2024-01-01')"},
        {"kind": "opaque", "text": "date_trunc('hour', coalesce(t, t))"},
        {"kind": "opaque", "text": "date_trunc('quarter', t)"},
        {"kind": "opaque", "text": "time_bucket(INTERVAL '1 HOURS', t)"},
        {"kind": "opaque", "text": "time_bucket(INTERVAL '90 minutes 30 seconds', t)"},
    ]
    for e in emit_only:
        e["emit_only"] = True
    for i, e in enumerate(ex):              # t is TIMESTAMPTZ (the production type of `time`); every third
        if i % 3 == 1:                      # expression reads it as a plain TIMESTAMP
            e["col"] = "t::TIMESTAMP"
    return ex + emit_only


def time_rows(rng, tier, exprs):
    rows = list(WITNESS_T) + [None, 0, -1, 1, G * MICROS, G * MICROS - 1]
    n = 200 if tier == "quick" else 1200
    widths = sorted({e["amount"] * UNIT_S[e["unit"]] for e in exprs if e["kind"] in ("tb2", "tb3") and UNIT_S[e["unit"]]
                     and e["amount"] < 10 ** 6} | {1, 60, 3600, 86400, 604800})
    bases = [0, G, 1704067200, 1704069000, 86400 * 365 * 200, -86400 * 365 * 100, 4 * 10 ** 9]
    seen = set(rows)
    while len(rows) < n:
        r = rng.random()
        if r < 0.45:                       # around a bucket boundary of some width / origin
            w = rng.choice(widths)
            base = rng.choice(bases)
            kb = rng.randrange(-50, 50) if rng.random() < 0.5 else rng.randrange(-10 ** 5, 10 ** 5)
            sec = base + kb * w + rng.choice([0, 0, -1, 1, w // 2])
            us = rng.choice([0, 0, 1, 499999, 500000, 500001, 999999, rng.randrange(MICROS)])
            t = sec * MICROS + us
        elif r < 0.6:                      # pre-1970
            t = -rng.randrange(1, 86400 * 365 * 250) * MICROS + rng.choice([0, 1, 500000, 600000, rng.randrange(MICROS)])
        elif r < 0.7:                      # far future (DOUBLE exact below 2^53 us = year 2255)
            t = rng.randrange(2 * 10 ** 9, 9 * 10 ** 9) * MICROS + rng.randrange(MICROS)
        else:
            t = rng.randrange(0, 2 * 10 ** 9) * MICROS + rng.choice([0, rng.randrange(MICROS)])
        if abs(t) < 2 ** 53 and t not in seen:
            seen.add(t)
            rows.append(t)
    return rows


def time_class(e, t):
    """Known-finding signature of a row on which original and rewritten value differ: the first
    violated hypothesis of the guarded theorem, in the order of known_findings/C17.json."""
    k = e["kind"]
    unit = e["unit"]
    s = (e["amount"] if k != "dt" else 1) * UNIT_S[unit]
    if unit == "week" and k in ("tb2", "dt"):
        return "time-unit-week"
    if k == "tb2" and s and G % s != 0:
        return "time-bucket-width-not-dividing-origin-gap"
    lo = e["origin"] * MICROS if k == "tb3" else 0
    if t < lo:
        return "time-before-epoch-or-origin"
    sub = t % MICROS
    if sub > 500000 or (sub == 500000 and (t // MICROS) % 2 == 1):
        return "time-subsecond-rounds-up"
    return None


# ---------------------------------------------------------------------------------------
# URL-domain rewrite: patterns as ASTs
# ---------------------------------------------------------------------------------------
# AST: ("chr", c) ("any",) ("set", neg, [(lo, hi)]) ("seq", [..]) ("alt", a, b) ("star", a)
#      ("plus", a) ("opt", a) ("grp", n, a) ("bol",) ("eol",)

SPECIAL = set("\\.[](){}*+?|^$")


def lit(s):
    return ("seq", [("chr", c) for c in s])


def re_text(a, esc_slash=False, top=True):
    k = a[0]
    if k == "chr":
        c = a[1]
        if c == "/" and esc_slash:
            return "\\/"
        return "\\" + c if c in SPECIAL else c
    if k == "any":
        return "."
    if k == "set":
        body = ""
        for lo, hi in a[2]:
            lo_t = "\\/" if (lo == "/" and esc_slash) else lo
            body += lo_t if lo == hi else "%s-%s" % (lo, hi)
        return "[" + ("^" if a[1] else "") + body + "]"
    if k == "seq":
        return "".join(re_text(x, esc_slash, False) if x[0] != "alt" else "(?:" + re_text(x, esc_slash) + ")" for x in a[1])
    if k == "alt":
        return re_text(a[1], esc_slash) + "|" + re_text(a[2], esc_slash)
    if k in ("star", "plus", "opt"):
        inner = a[1]
        t = re_text(inner, esc_slash, False)
        single = inner[0] in ("chr", "any", "set", "grp")
        if not single:
            t = "(?:" + t + ")"
        return t + {"star": "*", "plus": "+", "opt": "?"}[k]
    if k == "grp":
        return "(" + re_text(a[2], esc_slash) + ")"
    if k == "bol":
        return "^"
    if k == "eol":
        return "$"
    raise ValueError(a)


def re_coq(a):
    k = a[0]
    if k == "chr":
        return "(RChar %d%%N)" % ord(a[1])
    if k == "any":
        return "RAny"
    if k == "set":
        return "(RSet %s [%s])" % ("true" if a[1] else "false", ";".join("(%d%%N,%d%%N)" % (ord(lo), ord(hi)) for lo, hi in a[2]))
    if k == "seq":
        if not a[1]:
            return "REps"
        out = re_coq(a[1][-1])
        for x in reversed(a[1][:-1]):
            out = "(RSeq %s %s)" % (re_coq(x), out)
        return out
    if k == "alt":
        return "(RAlt %s %s)" % (re_coq(a[1]), re_coq(a[2]))
    if k == "star":
        return "(RStar %s)" % re_coq(a[1])
    if k == "plus":
        return "(RPlus %s)" % re_coq(a[1])
    if k == "opt":
        return "(ROpt %s)" % re_coq(a[1])
    if k == "grp":
        return "(RGroup %d %s)" % (a[1], re_coq(a[2]))
    if k == "bol":
        return "RBol"
    if k == "eol":
        return "REol"
    raise ValueError(a)


NOSLASH = ("set", True, [("/", "/")])
SCHEME = ("seq", [lit("http"), ("opt", ("chr", "s")), lit("://")])
WWW = ("opt", lit("www."))
CANON_REPLACE = ("seq", [("bol",), SCHEME, WWW, ("grp", 1, ("plus", NOSLASH)), ("chr", "/"), ("star", ("any",)), ("eol",)])
CANON_EXTRACT = ("seq", [("bol",), SCHEME, WWW, ("grp", 1, ("plus", NOSLASH))])


def url_patterns(rng, tier):
    pats = [
        ("replace", CANON_REPLACE, False, "canonical"),
        ("extract", CANON_EXTRACT, False, "canonical"),
        ("replace", CANON_REPLACE, True, "canonical"),          # same regex spelled with \/
        ("extract", CANON_EXTRACT, True, "canonical"),
        ("extract", ("seq", [("bol",), SCHEME, ("grp", 1, ("plus", NOSLASH))]), False, "nowww"),
        ("replace", ("seq", [("bol",), SCHEME, ("grp", 1, ("plus", NOSLASH)), ("chr", "/"), ("star", ("any",)), ("eol",)]), False, "nowww"),
        ("extract", ("seq", [("bol",), lit("HTTP"), ("opt", ("chr", "S")), lit("://"), WWW, ("grp", 1, ("plus", NOSLASH))]), False, "upper"),
        ("extract", ("seq", [("bol",), SCHEME, ("plus", NOSLASH), ("grp", 1, ("seq", [("chr", "/"), ("star", ("set", True, [("?", "?")]))]))]), False, "path"),
        ("replace", ("seq", [SCHEME, WWW, ("grp", 1, ("plus", NOSLASH))]), False, "unanchored"),
        ("extract", ("seq", [("bol",), lit("https://"), ("grp", 1, ("star", NOSLASH))]), False, "httpsonly"),
        ("extract", ("seq", [("bol",), ("alt", lit("https"), lit("ftp")), lit("://"), ("grp", 1, ("plus", NOSLASH))]), False, "alt"),
        # patterns that do NOT trigger the rewrite
        ("extract", ("seq", [("bol",), lit("http://"), ("grp", 1, ("plus", NOSLASH))]), False, "no-https"),
        ("replace", ("seq", [("bol",), lit("http://"), ("grp", 1, ("plus", NOSLASH)), ("star", ("any",))]), False, "no-https"),
        ("replace", ("seq", [("bol",), lit("HTTP://"), ("grp", 1, ("plus", NOSLASH)), ("star", ("any",))]), True, "no-https"),
        ("extract", ("seq", [("bol",), lit("ftps://"), ("grp", 1, ("plus", NOSLASH))]), True, "no-https"),
        ("extract", ("seq", [("bol",), SCHEME, ("grp", 1, ("plus", ("set", False, [("a", "z"), (".", ".")])))]), False, "no-noslash"),
        ("replace", ("seq", [("bol",), SCHEME, ("grp", 1, ("plus", ("set", False, [("a", "z"), ("0", "9"), (".", ".")]))), ("star", ("any",))]), False, "no-noslash"),
    ]
    n_rand = 6 if tier == "quick" else 40
    for _ in range(n_rand):
        parts = []
        if rng.random() < 0.7:
            parts.append(("bol",))
        parts.append(rng.choice([SCHEME, lit("https://"), ("seq", [lit("https"), ("opt", lit("://"))]), ("seq", [("star", ("any",)), lit("https")])]))
        if rng.random() < 0.5:
            parts.append(rng.choice([WWW, ("opt", lit("www")), ("star", ("chr", "w"))]))
        body = rng.choice([("plus", NOSLASH), ("star", NOSLASH), ("seq", [NOSLASH, ("opt", NOSLASH)]),
                           ("seq", [("plus", NOSLASH), ("opt", ("seq", [("chr", "/"), ("star", NOSLASH)]))])])
        parts.append(("grp", 1, body))
        if rng.random() < 0.5:
            parts.append(rng.choice([("chr", "/"), ("opt", ("chr", "/")), ("seq", [("chr", "/"), ("star", ("any",)), ("eol",)]), ("eol",)]))
        pats.append((rng.choice(["replace", "extract"]), ("seq", parts), rng.random() < 0.2, "random"))
    out = []
    for fn, ast, esc, tag in pats:
        out.append({"fn": fn, "ast": ast, "esc": esc, "tag": tag, "pat": re_text(ast, esc), "shape_ok": True})
    # calls the outer regexp of the rewriter does not accept: emitted text only
    for txt in ["regexp_replace(lower(u), '^https?://(?:www\\.)?([^/]+)/.*$', '\\1')",
                "regexp_replace(u, '^https?://(?:www\\.)?([^/]+)/.*$', '\\1', 'g')",
                "regexp_extract(u, '^https?://(?:www\\.)?([^/]+)', 0)",
                "regexp_extract(u, '^https?://(?:www\\.)?([^/]+)')"]:
        out.append({"fn": "replace" if "replace" in txt else "extract", "ast": CANON_EXTRACT, "esc": False, "tag": "shape",
                    "pat": "^https?://(?:www\\.)?([^/]+)", "shape_ok": False, "text": txt, "emit_only": True})
    return out


def uexpr_text(p):
    if "text" in p:
        return p["text"]
    if p["fn"] == "replace":
        return "regexp_replace(u, %s, '\\1')" % sqlstr(p["pat"])
    return "regexp_extract(u, %s, 1)" % sqlstr(p["pat"])


def url_rows(rng, tier):
    rows = [None, "", "a/b", "http://www./x", "https://www.x.com/p", "http://www.", "https://x.com",
            "https://www.example.com/path/a?b=1", "HTTPS://X.COM/p", "ftp://h/p", "//x/y", "/", "https:///"]
    schemes = ["http://", "https://", "https://", "HTTP://", "ftp://", "", "https:/", "http:/", "x https://"]
    wwws = ["", "", "www.", "www.", "WWW.", "www", "www.www."]
    hosts = ["", "x.com", "a", "sub.d.org", "www.", "h:8080", "ex ample", "xn--bcher-kva.example", "w", "1.2.3.4"]
    rests = ["", "/", "/p", "/p/q?x=1", "/a\nb", "?q", "//", "/https://www.y.org/z", "\n", "/\t"]
    n = 130 if tier == "quick" else 800
    seen = set(r for r in rows if r is not None)
    while len(rows) < n:
        if rng.random() < 0.85:
            s = rng.choice(schemes) + rng.choice(wwws) + rng.choice(hosts) + rng.choice(rests)
        else:
            s = "".join(rng.choice("htps:/w.xa \n?") for _ in range(rng.randrange(0, 14)))
        if s not in seen:
            seen.add(s)
            rows.append(s)
    return rows


PY_CANON_REPLACE = re.compile(r"^https?://(?:www\.)?([^/]+)/.*$")
PY_CANON_EXTRACT = re.compile(r"^https?://(?:www\.)?([^/]+)")
PY_AFTER = re.compile(r"^https?://(?:www\.)(.*)$", re.S)


def url_class(p, s):
    if p["tag"] != "canonical":
        return "url-pattern-not-canonical"
    m = (PY_CANON_REPLACE if p["fn"] == "replace" else PY_CANON_EXTRACT).search(s)
    if not m or (p["fn"] == "replace" and "\n" in s and not re.match(r"^https?://(?:www\.)?([^/]+)/[^\n]*$", s)):
        return "url-input-not-matching-pattern"
    a = PY_AFTER.match(s)
    if a and (a.group(1) == "" or a.group(1).startswith("/")):
        return "url-empty-host-after-www"
    return None


# ---------------------------------------------------------------------------------------
# LIKE optimiser: clauses
# ---------------------------------------------------------------------------------------
COLS = ["a", "b", "c", "d", "likes"]
TAILS = ["", " ORDER BY id", " LIMIT 1000", " GROUP BY id"]
LIKE_PATS = ["x%", "%x%", "_", "%", "a_c", "%like%", "x", "%c", "x'%",
             "%(x%", "x)%", "%(%", "%)", "% OR %", "%x AND c%", "(%"]          # unbalanced parentheses / keywords inside literals
LITS = ["", "x", "1", "dislike", "axc", "o'k", "(x", "x OR y", "a) AND (b"]
NE_LITS = ["'x", "'", "x", "'%", "x'", "''c", "like"]


def gen_atom(rng, bias=None):
    k = bias or rng.choice(["like", "like", "notlike", "nonempty", "nonempty", "eq", "isnull", "ne"])
    c = rng.randrange(5)
    if k == "like":
        return ("like", c, rng.choice(LIKE_PATS))
    if k == "notlike":
        return ("notlike", c, rng.choice(LIKE_PATS))
    if k == "nonempty":
        return ("nonempty", c)
    if k == "eq":
        return ("eq", c, rng.choice(LITS))
    if k == "ne":
        return ("ne", c, rng.choice(NE_LITS))
    return ("isnull", c)


def gen_tree(rng, depth):
    if depth == 0 or rng.random() < 0.4:
        return ("atom", gen_atom(rng))
    k = rng.choice(["not", "and", "or", "or"])
    if k == "not":
        return ("not", gen_tree(rng, depth - 1))
    return (k, gen_tree(rng, depth - 1), gen_tree(rng, depth - 1))


def gen_factor(rng, bias=None):
    if bias:
        return {"negs": 0, "body": ("atom", gen_atom(rng, bias))}
    negs = rng.choice([0, 0, 0, 0, 1, 2])
    if rng.random() < 0.25:
        return {"negs": negs, "body": ("paren", gen_tree(rng, 2))}
    return {"negs": negs, "body": ("atom", gen_atom(rng))}


PAREN_PATS = ["%(x%", "x)%", "%(%", "%)", "(%"]


def gen_clause(rng):
    if rng.random() < 0.12:      # col LIKE '%(x%' OR col = 'v' AND col <> ''  (and variants with ')' / two literals)
        f = lambda a: {"negs": 0, "body": ("atom", a)}
        first = [f((rng.choice(["like", "notlike"]), rng.randrange(5), rng.choice(PAREN_PATS)))]
        if rng.random() < 0.4:
            first.append(f(("eq", rng.randrange(5), rng.choice(["(x", "x", "a) AND (b"]))))
        last = [f(gen_atom(rng, rng.choice(["eq", "like", "isnull"]))), f(("nonempty", rng.randrange(5)))]
        mid = [[f(("like", rng.randrange(5), rng.choice(["%)", "x)%", "%x%"])))]] if rng.random() < 0.3 else []
        return [first] + mid + [last]
    nch = rng.choice([1, 1, 1, 2, 2, 3])
    cl = []
    for ci in range(nch):
        nf = rng.choice([1, 2, 2, 3, 3, 4])
        ch = [gen_factor(rng) for _ in range(nf)]
        if ci == 0 and nf >= 2 and rng.random() < 0.5:        # opt1 trigger shape
            ch[0] = gen_factor(rng, rng.choice(["like", "notlike"]))
            r2 = rng.random()
            if r2 < 0.7:
                ch[1] = gen_factor(rng, "nonempty")
            elif r2 < 0.85:
                ch[1] = gen_factor(rng, "ne")
        if ci == nch - 1 and rng.random() < 0.75:             # opt2 trigger shape
            ch[-1] = gen_factor(rng, "nonempty")
        cl.append(ch)
    return cl


def atom_text(a):
    c = COLS[a[1]]
    return {"like": lambda: "%s LIKE %s" % (c, sqlstr(a[2])), "notlike": lambda: "%s NOT LIKE %s" % (c, sqlstr(a[2])),
            "nonempty": lambda: "%s <> ''" % c, "eq": lambda: "%s = %s" % (c, sqlstr(a[2])), "ne": lambda: "%s <> %s" % (c, sqlstr(a[2])),
            "isnull": lambda: "%s IS NULL" % c}[a[0]]()


def tree_text(t):
    if t[0] == "atom":
        return atom_text(t[1])
    if t[0] == "not":
        return "NOT (" + tree_text(t[1]) + ")"
    return "(" + tree_text(t[1]) + (") AND (" if t[0] == "and" else ") OR (") + tree_text(t[2]) + ")"


def factor_text(f):
    b = f["body"]
    return "NOT " * f["negs"] + (atom_text(b[1]) if b[0] == "atom" else "(" + tree_text(b[1]) + ")")


def clause_text(cl):
    return " OR ".join(" AND ".join(factor_text(f) for f in ch) for ch in cl)


def query_text(cl, tail):
    return "SELECT id FROM r WHERE " + clause_text(cl) + TAILS[tail]


def atom_coq(a):
    return {"like": lambda: "(ALike %d %s)" % (a[1], cstr(a[2])), "notlike": lambda: "(ANotLike %d %s)" % (a[1], cstr(a[2])),
            "nonempty": lambda: "(ANonEmpty %d)" % a[1], "eq": lambda: "(AEq %d %s)" % (a[1], cstr(a[2])), "ne": lambda: "(ANe %d %s)" % (a[1], cstr(a[2])),
            "isnull": lambda: "(AIsNull %d)" % a[1]}[a[0]]()


def tree_coq(t):
    if t[0] == "atom":
        return "(TAtom %s)" % atom_coq(t[1])
    if t[0] == "not":
        return "(TNot %s)" % tree_coq(t[1])
    return "(%s %s %s)" % ("TAnd" if t[0] == "and" else "TOr", tree_coq(t[1]), tree_coq(t[2]))


def clause_coq(cl):
    def fac(f):
        b = f["body"]
        return "{|f_negs:=%d;f_body:=%s|}" % (f["negs"], "FAtom %s" % atom_coq(b[1]) if b[0] == "atom" else "FParen %s" % tree_coq(b[1]))
    return "[" + ";".join("[" + ";".join(fac(f) for f in ch) + "]" for ch in cl) + "]"


def like_rows(rng, tier):
    vals = [None, "", "x", "xx", "axc", "1", "like", "c", "'x", "x'x", "p", "p'x", "(x", "x)", "a OR b", "(x AND c)", "x OR y"]
    rows = [["x", "0", "", None, None], ["p", None, "z", None, None], ["p'x", None, "z", None, None]]   # witness rows of the two LIKE refutations
    n = 70 if tier == "quick" else 200
    seen = {tuple(r) for r in rows}
    while len(rows) < n:
        r = [rng.choice(vals) for _ in range(5)]
        if tuple(r) not in seen:
            seen.add(tuple(r))
            rows.append(r)
    return rows


WITNESS_CLAUSE = [[{"negs": 0, "body": ("atom", ("like", 0, "x"))}],
                  [{"negs": 0, "body": ("atom", ("eq", 1, "1"))}, {"negs": 0, "body": ("atom", ("nonempty", 2))}]]
WITNESS_QUOTE = [[{"negs": 0, "body": ("atom", ("like", 0, "p"))}, {"negs": 0, "body": ("atom", ("ne", 2, "'x"))}]]


def quote_trigger(cl):
    # the clause text starts with  col [NOT] LIKE 'p' AND col2 <> <literal starting with a quote>
    ch = cl[0]
    if len(ch) < 2:
        return False
    f1, f2 = ch[0], ch[1]
    if f1["negs"] or f1["body"][0] != "atom" or f1["body"][1][0] not in ("like", "notlike") or "'" in f1["body"][1][2] or not f1["body"][1][2]:
        return False
    return (not f2["negs"]) and f2["body"][0] == "atom" and f2["body"][1][0] == "ne" and f2["body"][1][2].startswith("'")


def like_nontrivial(cl):
    atoms = [f["body"][1][0] for ch in cl for f in ch if f["body"][0] == "atom"]
    return sum(len(ch) for ch in cl) >= 2 and any(a in ("like", "notlike") for a in atoms) and "nonempty" in atoms


# ---------------------------------------------------------------------------------------
# build the step list, run, evaluate in Coq
# ---------------------------------------------------------------------------------------

def insert_steps(table, cols, rows_sql):
    st = [{"op": "exec", "sql": "CREATE TABLE %s(%s)" % (table, cols)}]
    for off in range(0, len(rows_sql), 400):
        st.append({"op": "exec", "sql": "INSERT INTO %s VALUES %s" % (table, ", ".join(rows_sql[off:off + 400]))})
    return st


def table_steps(plan):
    st = insert_steps("tr", "id BIGINT, t TIMESTAMPTZ",
                      ["(%d, %s)" % (i, "NULL" if t is None else "make_timestamp(%d)::TIMESTAMPTZ" % t) for i, t in enumerate(plan["trows"])])
    st += insert_steps("ur", "id BIGINT, u VARCHAR",
                       ["(%d, %s)" % (i, "NULL" if v is None else sqlstr(v)) for i, v in enumerate(plan["urows"])])
    st += insert_steps("r", "id BIGINT, a VARCHAR, b VARCHAR, c VARCHAR, d VARCHAR, likes VARCHAR",
                       ["(%d, %s)" % (i, ", ".join("NULL" if v is None else sqlstr(v) for v in r)) for i, r in enumerate(plan["lrows"])])
    return st


def load_corpus():
    """corpus/C17/*.json: regression witnesses of fixed findings and minimised past disagreements."""
    def tup(x):
        return tuple(tup(y) for y in x) if isinstance(x, list) else x
    d = os.path.join(vlib.ROOT, "corpus", "C17")
    tex, cls = [], []
    for fn in sorted(os.listdir(d)) if os.path.isdir(d) else []:
        if not fn.endswith(".json"):
            continue
        for e in json.load(open(os.path.join(d, fn))).get("cases", []):
            if e.get("kind") == "time":
                tex.append(dict(e["expr"]))
            elif e.get("kind") == "like":
                cls.append(([[{"negs": f["negs"], "body": tup(f["body"])} for f in ch] for ch in e["clause"]], e.get("tail", 0)))
    return tex, cls


def make_plan(rng, tier):
    corpus_t, corpus_l = load_corpus()
    texprs = corpus_t + time_exprs(rng, tier)
    trows = time_rows(rng, tier, texprs)
    upats = url_patterns(rng, tier)
    urows = url_rows(rng, tier)
    lrows = like_rows(rng, tier)
    ncl = 260 if tier == "quick" else 1500
    clauses = corpus_l + [(WITNESS_CLAUSE, t) for t in range(4)] + [(WITNESS_QUOTE, t) for t in range(2)] + [(gen_clause(rng), rng.randrange(4)) for _ in range(ncl)]
    items = []
    for e in texprs:
        items.append({"kind": "time", "expr": e, "src": texpr_text(e), "fn": "tbdt", "emit_only": bool(e.get("emit_only"))})
    for p in upats:
        items.append({"kind": "url", "pat": p, "src": uexpr_text(p), "fn": "regex", "emit_only": bool(p.get("emit_only"))})
    for cl, tail in clauses:
        items.append({"kind": "like", "clause": cl, "tail": tail, "src": query_text(cl, tail), "fn": "like", "emit_only": False})
    # single-primitive validation queries
    prims = []
    pairs = []
    for _ in range(40):
        pairs.append((rng.choice([rng.randrange(-10 ** 10, 10 ** 10), rng.randrange(-50, 50)]),
                      rng.choice([1, 2, 7, 60, 3600, 86400, 604800, -3, -7, rng.randrange(1, 10 ** 6)])))
    pairs += [(-7, 2), (7, 2), (-7, -2), (-1800, 3600), (0, 5), (-3600, 3600)]
    prims.append({"p": "idiv", "sql": "SELECT * FROM (VALUES %s) v(a, b, q)" % ", ".join(
        "(%d, %d, (%d)::BIGINT // (%d)::BIGINT)" % (a, b, a, b) for a, b in pairs)})
    secs = [0, 1, -1, 3600, -3600, 1704844800, -86400 * 365 * 100, 4 * 10 ** 9] + [rng.randrange(-10 ** 10, 10 ** 10) for _ in range(12)]
    prims.append({"p": "to_timestamp", "sql": "SELECT * FROM (VALUES %s) v(s, r)" % ", ".join("(%d, epoch_us(to_timestamp(%d)))" % (x, x) for x in secs)})
    prims.append({"p": "epoch", "sql": "SELECT id, epoch(t)::BIGINT FROM tr WHERE t IS NOT NULL ORDER BY id"})
    prims.append({"p": "epoch", "sql": "SELECT id, epoch(t::TIMESTAMP)::BIGINT FROM tr WHERE t IS NOT NULL ORDER BY id"})
    for _ in range(10 if tier == "quick" else 60):
        w = rng.choice([1, 7, 60, 3600, 25200, 86400, 604800, rng.randrange(1, 10 ** 7)]) * rng.choice([1, 1, MICROS, MICROS, 1000])
        o = rng.choice([G * MICROS, 0, 1704069000 * MICROS, rng.randrange(-10 ** 15, 4 * 10 ** 15)])
        prims.append({"p": "bucket", "w": w, "o": o,
                      "sql": "SELECT id, epoch_us(time_bucket(to_microseconds(%d), t::TIMESTAMP, make_timestamp(%d))) FROM tr WHERE t IS NOT NULL ORDER BY id" % (w, o)})
    for u in ["second", "minute", "hour", "day", "week"]:
        prims.append({"p": "trunc", "u": u, "sql": "SELECT id, epoch_us(date_trunc('%s', %s)) FROM tr WHERE t IS NOT NULL ORDER BY id" % (u, rng.choice(["t", "t::TIMESTAMP"]))})
    return {"trows": trows, "urows": urows, "lrows": lrows, "items": items, "prims": prims}


BATCH = {"time": 8, "url": 6, "like": 30}


def eval_items(plan, idxs, tag, batch=None):
    """Run rewrite + DuckDB evaluation for the items `idxs`; fills item['out'], item['obs'] or
    item['err'].  Returns the indices whose batch failed (to be re-run one by one)."""
    items = plan["items"]
    steps = table_steps(plan)
    rw_at = {}
    for i in idxs:
        rw_at[i] = len(steps)
        steps.append({"op": "rewrite", "fn": items[i]["fn"], "sql": items[i]["src"]})
    groups = []
    for kind in ("time", "url", "like"):
        ks = [i for i in idxs if items[i]["kind"] == kind and not items[i]["emit_only"]]
        bs = (batch or BATCH)[kind]
        for off in range(0, len(ks), bs):
            g = ks[off:off + bs]
            if kind == "time":
                sql = "SELECT id, %s FROM tr ORDER BY id" % ", ".join("epoch_us(<E %d>), epoch_us(<R %d>)" % (rw_at[i], rw_at[i]) for i in g)
            elif kind == "url":
                sql = "SELECT id, %s FROM ur ORDER BY id" % ", ".join("<E %d>, <R %d>" % (rw_at[i], rw_at[i]) for i in g)
            else:
                sql = "SELECT k, id FROM (%s) ORDER BY k, id" % " UNION ALL ".join(
                    "SELECT %d AS k, id FROM (<E %d>) UNION ALL SELECT %d AS k, id FROM (<R %d>)" % (2 * j, rw_at[i], 2 * j + 1, rw_at[i])
                    for j, i in enumerate(g))
            groups.append((kind, g, len(steps)))
            steps.append({"op": "query", "sql": sql})
    prim_at = []
    if tag != "single":
        for pq in plan["prims"]:
            prim_at.append(len(steps))
            steps.append({"op": "query", "sql": pq["sql"]})
    out = run_harness(steps, tag)
    for i in idxs:
        items[i]["out"] = out[rw_at[i]].get("out", "")
        items[i]["changed_flag"] = bool(out[rw_at[i]].get("changed"))
    for pq, at in zip(plan["prims"], prim_at):
        if out[at].get("err"):
            raise vlib.TieBroken("primitive query failed: %s: %s" % (pq["sql"][:120], out[at]["err"]))
        pq["rows"] = out[at].get("rows") or []
    redo = []
    for kind, g, at in groups:
        o = out[at]
        if o.get("err"):
            if len(g) == 1:
                items[g[0]]["err"] = o["err"]
                items[g[0]]["obs"] = None
            else:
                redo += g
            continue
        rows = o.get("rows") or []
        if kind in ("time", "url"):
            n = len(plan["trows"] if kind == "time" else plan["urows"])
            if [int(x[0]) for x in rows] != list(range(n)):
                raise vlib.TieBroken("%s query returned unexpected ids" % kind)
            conv = val_int if kind == "time" else val_str
            for j, i in enumerate(g):
                items[i]["obs"] = [(conv(x[1 + 2 * j]), conv(x[2 + 2 * j])) for x in rows]
                items[i]["err"] = None
        else:
            per = {}
            for k, rid in rows:
                per.setdefault(int(k), []).append(int(rid))
            for j, i in enumerate(g):
                items[i]["obs"] = (per.get(2 * j, []), per.get(2 * j + 1, []))
                items[i]["err"] = None
    return redo


def run_all(plan, tag):
    idxs = list(range(len(plan["items"])))
    redo = eval_items(plan, idxs, tag)
    if redo:
        vlib.log("C17: %d items in failed batches are re-run one by one" % len(redo))
        eval_items(plan, redo, "single", batch={"time": 1, "url": 1, "like": 1})


def run_harness(steps, tag):
    out = vlib.run_go_harness("C17", "./internal/api/", "^TestVerifRewrites$", HARNESS, steps, tag=tag, timeout=1500)
    if len(out) != len(steps):
        raise vlib.TieBroken("C17 harness returned %d results for %d steps" % (len(out), len(steps)))
    return out


def val_int(v):
    return None if v is None else int(v)


def val_str(v):
    if v is None:
        return None
    if not v.startswith("s:"):
        raise vlib.TieBroken("unexpected non-string value from DuckDB: %r" % (v,))
    return v[2:]


def hz(n):
    return "(0x%x)" % n if n >= 0 else "(-0x%x)" % -n


def cstr(s):
    return '"' + s.replace('"', '""') + '"'


def parse_listN(out, label):
    m = re.search(r"\b" + re.escape(label) + r"\s*=\s*(.*?)\n\s*:\s*list N", out, re.S)
    if not m:
        return None
    return [int(x) for x in re.findall(r"(\d+)(?:%N)?", m.group(1))]


HEADER = ("From Coq Require Import List ZArith NArith Bool String.\nFrom Arc Require Import Rewrites.Model.\n"
          "Import ListNotations.\nOpen Scope string_scope.\nOpen Scope list_scope.\nOpen Scope Z_scope.\n"
          "Fixpoint vidx {A} (f : A -> bool) (n : N) (l : list A) : list N :=\n"
          "  match l with [] => [] | x :: r => if f x then vidx f (n + 1)%N r else n :: vidx f (n + 1)%N r end.\n"
          "Fixpoint vflat {A} (f : A -> list N) (n : N) (l : list A) : list N :=\n"
          "  match l with [] => [] | x :: r => map (fun k => (n * 1000000 + k)%N) (f x) ++ vflat f (n + 1)%N r end.\n")


def chunked(name, typ, terms, size=100):
    """Definition of a long list as a concatenation of short list literals (the list notation is
    super-linear in its length)."""
    if not terms:
        return "Definition %s : list (%s) := [].\n" % (name, typ)
    src, parts = "", []
    for k in range(0, len(terms), size):
        parts.append("%s_%d" % (name, k))
        src += "Definition %s_%d : list (%s) := [%s].\n" % (name, k, typ, ";\n".join(terms[k:k + size]))
    return src + "Definition %s : list (%s) := %s.\n" % (name, typ, " ++ ".join(parts))


def coqc_noglob(name, source, timeout=1200):
    d = os.path.join(vlib.WORK, "coqrun", "C17")
    os.makedirs(d, exist_ok=True)
    p = os.path.join(d, name + ".v")
    open(p, "w").write(source)
    t0 = time.time()
    rc, out = vlib.sh(["timeout", str(timeout), "coqc", "-noglob", "-Q", os.path.join(vlib.COQ, "theories"), "Arc",
                       "-Q", os.path.join(vlib.COQ, "gen"), "ArcGen", "-w", "-notation-overridden", p], cwd=d, timeout=timeout + 30)
    vlib.log("coqc %s: rc=%d in %.1fs" % (name, rc, time.time() - t0))
    return rc, out


def coq_eval_lists(name, body, labels):
    rc, out = coqc_noglob(name, HEADER + body)
    res = {}
    for lab in labels:
        v = parse_listN(out, lab)
        if rc != 0 or v is None:
            raise vlib.InfraError("C17 case evaluation failed (%s): %s" % (lab, out[-3000:]))
        res[lab] = v
    return res


def tobs_coq(t, a, b):
    if a is None and b is None and t is None:
        return "TNull"
    if t is not None and a is not None and b is not None and a % MICROS == 0 and b % MICROS == 0:
        return "TObs %s %s" % (hz(t // MICROS - a // MICROS), hz((b - a) // MICROS))
    return "TObsRaw %s %s" % (copt(a, hz), copt(b, hz))


def uobs_coq(s, a, b):
    if a is None and b is None:
        return "UNull"
    if a is not None and b is not None:
        return "UObs %s %s" % (cstr(a), cstr(b))
    return "UObsRaw %s %s" % (copt(a, cstr), copt(b, cstr))


def evaluate(plan, name):
    """Evaluates the model on every item inside Coq.  Returns disagreement / oracle-failure lists."""
    r = {}
    trows, urows, lrows = plan["trows"], plan["urows"], plan["lrows"]
    items = plan["items"]
    nn = [t for t in trows if t is not None]
    # ---- primitives
    pterms = []
    for pq in plan["prims"]:
        rows = pq["rows"]
        if pq["p"] == "idiv":
            pterms += ["PIdiv %s %s %s" % (hz(int(x[0])), hz(int(x[1])), hz(int(x[2]))) for x in rows]
        elif pq["p"] == "to_timestamp":
            pterms += ["PToTimestamp %s %s" % (hz(int(x[0])), hz(int(x[1]))) for x in rows]
        else:
            if len(rows) != len(nn):
                raise vlib.TieBroken("primitive query returned %d rows for %d timestamps" % (len(rows), len(nn)))
            if pq["p"] == "epoch":
                pterms.append("PEpochRows [%s]" % ";".join(hz(int(x[1]) - t // MICROS) for x, t in zip(rows, nn)))
            elif pq["p"] == "bucket":
                pterms.append("PBucketRows %s %s [%s]" % (hz(pq["w"]), hz(pq["o"]), ";".join(hz(t - int(x[1])) for x, t in zip(rows, nn))))
            else:
                pterms.append("PTruncRows %s [%s]" % (UNIT_COQ[pq["u"]], ";".join(hz(t - int(x[1])) for x, t in zip(rows, nn))))
    trows_def = chunked("trows", "option Z", [copt(t, hz) for t in trows])
    body = trows_def + chunked("pcases", "pcase", pterms, 20)
    body += "Definition p_dis := Eval vm_compute in vidx (pcase_agrees trows) 0%N pcases.\nPrint p_dis.\n"
    jobs = [(name + "_prim", body, ["p_dis"], 0)]
    # ---- time
    tit = [it for it in items if it["kind"] == "time"]
    tterms = []
    for it in tit:
        it["emitted"] = parse_emitted(it["src"], it["out"])
        obs = it.get("obs") or []
        tterms.append("{|tc_expr:=%s;tc_emit:=%s;tc_obs:=[%s]|}" % (
            texpr_coq(it["expr"]), it["emitted"], ";".join(tobs_coq(t, a, b) for t, (a, b) in zip(trows, obs))))
    TCH = 16
    for off in range(0, len(tterms), TCH):
        body = trows_def + chunked("tcases", "tcase", tterms[off:off + TCH], 4)
        body += "Definition t_emit := Eval vm_compute in vidx tcase_emit_agrees 0%N tcases.\nPrint t_emit.\n"
        body += "Definition t_dis := Eval vm_compute in vflat (fun c => match tc_obs c with [] => [] | _ => tcase_disagree trows c end) 0%N tcases.\nPrint t_dis.\n"
        body += "Definition t_orf := Eval vm_compute in vflat (fun c => match tc_obs c with [] => [] | _ => tcase_oraclefail trows c end) 0%N tcases.\nPrint t_orf.\n"
        jobs.append((name + "_time_%d" % off, body, ["t_emit", "t_dis", "t_orf"], off))
    r["pterms"], r["tit"] = pterms, tit
    # ---- url
    uit = [it for it in items if it["kind"] == "url"]
    body = chunked("urows", "option string", [copt(v, cstr) for v in urows])
    uterms = []
    for it in uit:
        p = it["pat"]
        changed = it["out"] != it["src"]
        it["changed"] = changed
        obs = it.get("obs") or []
        uterms.append("{|uc_expr:={|u_fn:=%s;u_shape_ok:=%s;u_pat:=%s;u_ast:=%s|};uc_changed:=%s;uc_out:=%s;uc_obs:=[%s]|}" % (
            "FReplace" if p["fn"] == "replace" else "FExtract", "true" if p["shape_ok"] else "false", cstr(p["pat"]),
            re_coq(p["ast"]), "true" if changed else "false", cstr(it["out"]) if changed else '""',
            ";".join(uobs_coq(v, a, b) for v, (a, b) in zip(urows, obs))))
    urows_def = body
    UCH = 12
    for off in range(0, len(uterms), UCH):
        body = urows_def + chunked("ucases", "ucase", uterms[off:off + UCH], 4)
        body += "Definition u_emit := Eval vm_compute in vidx ucase_emit_agrees 0%N ucases.\nPrint u_emit.\n"
        body += "Definition u_dis := Eval vm_compute in vflat (fun c => match uc_obs c with [] => [] | _ => ucase_disagree urows c end) 0%N ucases.\nPrint u_dis.\n"
        body += "Definition u_orf := Eval vm_compute in vflat (fun c => match uc_obs c with [] => [] | _ => ucase_oraclefail urows c end) 0%N ucases.\nPrint u_orf.\n"
        jobs.append((name + "_url_%d" % off, body, ["u_emit", "u_dis", "u_orf"], off))
    r["uit"] = uit
    # ---- like
    lit_ = [it for it in items if it["kind"] == "like"]
    lterms = []
    for it in lit_:
        if it.get("err") or it.get("obs") is None:
            # a statement DuckDB rejects is a disagreement with the model (which only produces
            # valid statements): encode as impossible id lists
            ids1, ids2 = [10 ** 6], [10 ** 6 + 1]
            it["obs"] = (None, None)
        else:
            ids1, ids2 = it["obs"]
        lterms.append("{|lc_clause:=%s;lc_tail:=%d;lc_in:=%s;lc_out:=%s;lc_orig_ids:=[%s];lc_rew_ids:=[%s]|}" % (
            clause_coq(it["clause"]), it["tail"], cstr(it["src"]), cstr(it["out"]),
            ";".join("%d%%N" % i for i in ids1), ";".join("%d%%N" % i for i in ids2)))
    l_dis, l_orf = [], []
    rows_def = chunked("lrows", "row", ["[" + ";".join(copt(v, cstr) for v in rw) + "]" for rw in lrows])
    for off in range(0, len(lterms), 150):
        body = rows_def + chunked("lcases", "lcase", lterms[off:off + 150], 10)
        body += "Definition l_dis := Eval vm_compute in vidx (lcase_agrees lrows) 0%N lcases.\nPrint l_dis.\n"
        body += "Definition l_orf := Eval vm_compute in vidx lcase_oracle 0%N lcases.\nPrint l_orf.\n"
        jobs.append((name + "_like_%d" % off, body, ["l_dis", "l_orf"], off))
    from concurrent.futures import ThreadPoolExecutor
    with ThreadPoolExecutor(max_workers=8) as ex:
        results = list(ex.map(lambda j: coq_eval_lists(j[0], j[1], j[2]), jobs))
    r.update({"t_emit": [], "t_dis": [], "t_orf": [], "u_emit": [], "u_dis": [], "u_orf": []})
    for (jn, _, labels, off), rr in zip(jobs, results):
        if "_like_" in jn:
            l_dis += [off + x for x in rr["l_dis"]]
            l_orf += [off + x for x in rr["l_orf"]]
        elif "_time_" in jn:
            r["t_emit"] += [off + x for x in rr["t_emit"]]
            r["t_dis"] += [off * 1000000 + x for x in rr["t_dis"]]
            r["t_orf"] += [off * 1000000 + x for x in rr["t_orf"]]
        elif "_url_" in jn:
            r["u_emit"] += [off + x for x in rr["u_emit"]]
            r["u_dis"] += [off * 1000000 + x for x in rr["u_dis"]]
            r["u_orf"] += [off * 1000000 + x for x in rr["u_orf"]]
        else:
            r.update(rr)
    r["l_dis"], r["l_orf"], r["lit"] = l_dis, l_orf, lit_
    return r


def split_flat(v):
    return v // 1000000, v % 1000000


def item_w(it):
    e = it["expr"]
    return (e["amount"] if e["kind"] != "dt" else 1) * UNIT_S[e["unit"]] * MICROS


def run(res, tier, seed):
    rng = random.Random(seed * 7919 + 17)
    failed = vlib.std_proof_stage(res, "C17", AREA, MODULES, THEOREMS)
    res.cov["trusted_base"] += [
        "DuckDB (v1.5.5 via internal/database) is the semantic oracle: the Gallina definitions epoch_bigint (round half to even), idiv (truncation), to_timestamp, time_bucket (origin 2000-01-03), date_trunc (ISO week), like, substr/split_part, the backtracking regex matcher and Kleene AND/OR/NOT are validated against it on every run, not proved about it",
        "epoch() is a DOUBLE: modelled exactly, valid for |t| < 2^53 microseconds (year < 2255); session TimeZone is UTC; the column is TIMESTAMP WITH TIME ZONE (production type of `time`: arrow timestamp[us, UTC]) and, for every third expression, cast to plain TIMESTAMP (not DATE); strings are ASCII",
        "pattern text <-> regex AST and clause <-> WHERE text are produced by the generator's printers (tools/props/C17.py); the WHERE printer is re-checked against the Gallina printer inside Coq for every case, the regex printer is checked through DuckDB's answers",
        "the regexps that find time_bucket/date_trunc/regexp_*/WHERE inside a full statement are exercised on expression-sized texts only (argument capture and string-literal blindness belong to C15/C16)",
    ]
    t1 = time.time()
    plan = make_plan(rng, tier)
    run_all(plan, tier)
    res.stage("impl_harness", t1)
    t2 = time.time()
    ev = evaluate(plan, "Cases_%s" % tier)
    res.stage("coq_eval", t2)
    report(res, plan, ev, failed)


def report(res, plan, ev, failed):
    trows, urows, lrows = plan["trows"], plan["urows"], plan["lrows"]
    tit, uit, lit_ = ev["tit"], ev["uit"], ev["lit"]
    known = {e["signature"]: e for e in vlib.known_for("C17")}
    n_prim = sum(len(pq["rows"]) for pq in plan["prims"])
    n_eval = n_prim + sum(len(it.get("obs") or []) for it in tit) + sum(len(it.get("obs") or []) for it in uit) + len(lit_) * len(lrows)
    nt = set()
    for it in tit:
        if it.get("obs") and it["expr"]["kind"] != "opaque":
            w = item_w(it)
            for t in trows:
                if t is not None and (w == 0 or t % w != 0):
                    nt.add(("t", it["src"], t))
    for it in uit:
        if it.get("obs"):
            for v in urows:
                if v is not None and "/" in v:
                    nt.add(("u", it["src"], v))
    for it in lit_:
        if it["obs"][0] is not None and like_nontrivial(it["clause"]):
            nt.add(("l", it["src"]))
    res.cov["evaluations"] = n_eval
    res.cov["distinct_nontrivial"] = len(nt)
    res.cov["rule"] = ("per-row evaluations of (original, emitted) expression pairs on real DuckDB, compared with the model inside Coq. "
                       "time: expressions = time_bucket 2/3-arg and date_trunc over amounts/units/origins, rows = bucket boundaries +-{0,1us,.499999,.5,.500001,.999999}, pre-1970, far future, NULL; "
                       "non-trivial = timestamp not on a bucket boundary of the expression. url: regexp_replace/regexp_extract patterns given as ASTs (canonical, no-www, upper-case, path capture, non-triggering, random) x URL-like strings; "
                       "non-trivial = string contains '/'. like: WHERE clauses (1-3 OR-ed AND chains, NOT, parenthesised sub-trees, 5 atom kinds) x a shared row table with NULLs; non-trivial = >= 2 factors with a LIKE and a <> '' atom. "
                       "distinct by (expression text, row) resp. clause text; plus single-primitive validation rows")
    known_hit, unexplained = {}, []

    def explained(sig, what):
        if sig in known:
            known_hit.setdefault(sig, []).append(what)
            return True
        return False

    tdis = set(ev["t_dis"])
    for v in ev["t_orf"]:
        ei, ri = split_flat(v)
        it = tit[ei]
        sig = time_class(it["expr"], trows[ri]) if it["expr"]["kind"] != "opaque" else None
        w = {"kind": "time", "expr": it["src"], "emitted": it["out"], "t_us": trows[ri],
             "duckdb_original_us": it["obs"][ri][0], "duckdb_rewritten_us": it["obs"][ri][1]}
        if v in tdis or sig is None or not explained(sig, w):
            unexplained.append((sig, w, v in tdis))
    udis = set(ev["u_dis"])
    for v in ev["u_orf"]:
        ei, ri = split_flat(v)
        it = uit[ei]
        sig = url_class(it["pat"], urows[ri])
        w = {"kind": "url", "expr": it["src"], "string": urows[ri], "duckdb_original": it["obs"][ri][0], "duckdb_rewritten": it["obs"][ri][1]}
        if v in udis or sig is None or not explained(sig, w):
            unexplained.append((sig, w, v in udis))
    ldis = set(ev["l_dis"])
    for i in ev["l_orf"]:
        it = lit_[i]
        sig = None        # C17_like_sound: the optimiser changes no filter decision, for any clause
        o1, o2 = it["obs"]
        w = {"kind": "like", "sql": it["src"], "rewritten": it["out"], "rows_original": o1, "rows_rewritten": o2,
             "first_differing_row": next((dict(zip(COLS, lrows[k])) for k in sorted(set(o1 or []) ^ set(o2 or [])) if k < len(lrows)), None)}
        if i in ldis or sig is None or not explained(sig, w):
            unexplained.append((sig, w, i in ldis))

    n_dis = len(ev["p_dis"]) + len(ev["t_emit"]) + len(ev["t_dis"]) + len(ev["u_emit"]) + len(ev["u_dis"]) + len(ev["l_dis"])
    n_orf = len(ev["t_orf"]) + len(ev["u_orf"]) + len(ev["l_orf"])
    res.cov["model_vs_impl_disagreements"] = n_dis
    res.cov["oracle_failures"] = n_orf
    res.cov["oracle_failures_by_known_class"] = {k: len(v) for k, v in sorted(known_hit.items())}
    res.cov["histogram"] = {
        "time_expressions": len(tit), "time_rows": len(trows), "time_emit_only": sum(1 for it in tit if not it.get("obs")),
        "time_emitted_kinds": {k: sum(1 for it in tit if it["emitted"].strip("(").split(" ")[0] == k) for k in ("EUnch", "E2", "E3", "EOther")},
        "url_patterns": len(uit), "url_rows": len(urows), "url_rewritten": sum(1 for it in uit if it["changed"]),
        "like_clauses": len(lit_), "like_rows": len(lrows), "like_changed": sum(1 for it in lit_ if it["src"] != it["out"]),
        "like_with_top_level_or": sum(1 for it in lit_ if len(it["clause"]) >= 2),
        "primitive_rows": n_prim,
    }
    res.cov["samples"] = [
        {"time": tit[0]["src"], "emitted": tit[0]["out"], "t_us": trows[0], "duckdb_original_rewritten_us": tit[0]["obs"][0] if tit[0].get("obs") else None},
        {"url": uit[0]["src"], "string": urows[4], "duckdb_original_rewritten": uit[0]["obs"][4] if uit[0].get("obs") else None},
        {"like": lit_[5]["src"], "emitted": lit_[5]["out"], "rows_original": lit_[5]["obs"][0], "rows_rewritten": lit_[5]["obs"][1]},
    ]
    for sig, hits in sorted(known_hit.items()):
        res.known_finding("[%s] %s (%d differing rows this run, each value predicted by the model)" % (sig, known[sig]["what"], len(hits)))

    # ---- violations
    if unexplained:
        sig, w, dis = unexplained[0]
        res.violation("original and rewritten expression differ on real DuckDB outside every known class" if not dis else
                      "original and rewritten expression differ on real DuckDB and the model does not predict the values",
                      {"kind": "oracle-failure", "case": w, "class": sig, "model_disagrees": dis, "count": len(unexplained),
                       "more": [u[1] for u in unexplained[1:6]], "how_to_replay": "python3 tools/check.py C17 --replay <this file>"})
    dis_reports = []
    if ev["p_dis"]:
        dis_reports.append(("a DuckDB primitive no longer behaves as the model defines it", {"primitive_case": ev["pterms"][ev["p_dis"][0]][:400]}, None))
    for i in ev["t_emit"][:1]:
        it = tit[i]
        dis_reports.append(("rewriteTimeBucket/rewriteDateTrunc emitted text the model does not predict",
                            {"expr": it["src"], "emitted": it["out"], "parsed": it["emitted"]}, ("time", i)))
    for v in ev["t_dis"][:1]:
        ei, ri = split_flat(v)
        it = tit[ei]
        dis_reports.append(("model and DuckDB disagree on a time expression value",
                            {"expr": it["src"], "emitted": it["out"], "t_us": trows[ri], "duckdb_original_rewritten_us": it["obs"][ri]}, ("time", ei)))
    for i in ev["u_emit"][:1]:
        it = uit[i]
        dis_reports.append(("RewriteRegexToStringFuncs output not predicted by the model", {"expr": it["src"], "emitted": it["out"]}, ("url", i)))
    for v in ev["u_dis"][:1]:
        ei, ri = split_flat(v)
        it = uit[ei]
        dis_reports.append(("model and DuckDB disagree on a URL expression value",
                            {"expr": it["src"], "emitted": it["out"], "string": urows[ri], "duckdb_original_rewritten": it["obs"][ri]}, ("url", ei)))
    for i in ev["l_dis"][:1]:
        it = lit_[i]
        dis_reports.append(("model and implementation disagree on a WHERE clause (emitted text or selected rows)",
                            {"sql": it["src"], "emitted": it["out"], "rows_original": it["obs"][0], "rows_rewritten": it["obs"][1], "duckdb_error": it.get("err")}, ("like", i)))
    for summary, case, where in dis_reports:
        orf = False            # does the property oracle fail on the implementation for the same expression?
        if where:
            kind, idx = where
            if kind == "time":
                hit = [v for v in ev["t_orf"] if split_flat(v)[0] == idx]
                if hit:
                    ri = split_flat(hit[0])[1]
                    orf = True
                    case = dict(case, t_us=trows[ri], duckdb_original_rewritten_us=tit[idx]["obs"][ri])
            elif kind == "url":
                hit = [v for v in ev["u_orf"] if split_flat(v)[0] == idx]
                if hit:
                    ri = split_flat(hit[0])[1]
                    orf = True
                    case = dict(case, string=urows[ri], duckdb_original_rewritten=uit[idx]["obs"][ri])
            else:
                orf = idx in ev["l_orf"]
        res.violation(summary, {"kind": "correspondence", "correspondence": TIE_NAME, "case": case,
                                "oracle_fails_on_impl": orf, "disagreements": n_dis}, no_input=not orf, suffix="corr")
    if failed and not res.violations:
        res.violation("proof obligation(s) no longer check: " + "; ".join(r for _, r in failed),
                      {"kind": "obligation-failed", "theorems": [t for t, _ in failed], "detail": [r for _, r in failed]},
                      no_input=True, suffix="obligation")


def warm():
    run_harness([], "warm")


def replay(res, path):
    obj = json.load(open(path))
    c = obj.get("case") or {}
    if "t_us" in c:
        steps = [{"op": "rewrite", "fn": "tbdt", "sql": c["expr"]},
                 {"op": "query", "sql": "SELECT epoch_us(<E 0>), epoch_us(<R 0>) FROM (SELECT make_timestamp(%d)::TIMESTAMPTZ AS t)" % c["t_us"]}]
    elif "string" in c:
        steps = [{"op": "rewrite", "fn": "regex", "sql": c["expr"]},
                 {"op": "query", "sql": "SELECT <E 0>, <R 0> FROM (SELECT %s AS u)" % sqlstr(c["string"])}]
    elif "sql" in c:
        rows = like_rows(random.Random(res.seed * 7919 + 17), "quick")
        if c.get("first_differing_row"):
            rows = [[c["first_differing_row"].get(k) for k in COLS]]
        steps = insert_steps("r", "id BIGINT, a VARCHAR, b VARCHAR, c VARCHAR, d VARCHAR, likes VARCHAR",
                             ["(%d, %s)" % (i, ", ".join("NULL" if v is None else sqlstr(v) for v in r)) for i, r in enumerate(rows)])
        k = len(steps)
        steps += [{"op": "rewrite", "fn": "like", "sql": c["sql"]},
                  {"op": "query", "sql": "SELECT id FROM (<E %d>) ORDER BY id" % k},
                  {"op": "query", "sql": "SELECT id FROM (<R %d>) ORDER BY id" % k}]
    else:
        print("replay file names no concrete input:", obj.get("summary"))
        return 1
    out = run_harness(steps, "replay")
    rw = next(o for st, o in zip(steps, out) if st["op"] == "rewrite")
    print("emitted:", rw.get("out"))
    qs = [o for st, o in zip(steps, out) if st["op"] == "query"]
    if len(qs) == 1:
        row = (qs[0].get("rows") or [[None, None]])[0] if not qs[0].get("err") else [qs[0]["err"], None]
        print("DuckDB original:", row[0], "| rewritten:", row[1])
        return 1 if row[0] != row[1] else 0
    a, b = qs[0].get("err") or qs[0].get("rows") or [], qs[1].get("err") or qs[1].get("rows") or []
    print("DuckDB rows original:", a, "| rewritten:", b)
    return 1 if a != b else 0
