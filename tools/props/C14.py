"""C14 - a query can only read data the caller is authorized to read (area SqlAst, with SqlLex).

Proof: coq/theories/SqlAst (Model.v = the gate of executeQuery / executeQueryArrow / estimateQuery
on top of the byte-exact lexical model of C15; Proofs.v; Props.v = the theorems in THEOREMS).
Tie: every statement goes through the REAL HTTP handler (fiber app.Test on the production query
path, tags "verif duckdb_arrow") against a sandboxed DuckDB with Parquet files of three databases
planted under the same storage root; the caller is an RBAC token allowed one database (recording
RBACChecker).  Observables: accept/reject and why, the permission-checked (database, measurement)
list, the executed text (the handler's own debug log), the measurements DuckDB really opens for
the executed text (hide one directory at a time), the canary markers in the response.
  * model vs implementation: `gate_case_agrees` (Coq, vm_compute) on every case;
  * oracle on the implementation's output: every measurement DuckDB opened was checked;
  * the model's prediction of what is read (`read_case_agrees`) against the measured read set on
    every case of the theorems' class.
"""
import json
import os
import random
import re
import time

import vlib
import lib_sqlast as L

AREA = "SqlAst"
MODULES = ["Arc.SqlAst.Props"]
THEOREMS = [("Arc.SqlAst.Props", t) for t in [
    # the current source (every repair present)
    "C14_current_never_raw", "C14_current_sound", "C14_current_sound_header", "C14_current_witnesses_closed",
    # every variant of the code, and the refutations of the code as it was
    "C14_transform_path_sound", "C14_transform_path_sound_header", "C14_raw_path_text",
    "C14_raw_nofrom_refuted", "C14_raw_nofrom_string_refuted", "C14_raw_pivot_refuted", "C14_raw_read_parquet_refuted",
    "C14_transform_table_kind_refuted", "C14_paren_group_refuted", "C14_backslash_quote_refuted",
    "C14_quoted_comment_marker_refuted", "C14_quoted_comment_marker_string_position_refuted", "C14_query_function_refuted", "C14_header_cte_refuted",
    "C14_header_cte_slow_path_refuted", "C14_header_window_clause_refuted", "C14_lateral_string_injection_refuted", "C14_case_dedup_refuted",
    "C14_backtick_in_quoted_alias_refuted", "C14_estring_escaped_quote_refuted",
    "C14_fast_path_digit_name_refuted", "C14_placeholder_in_literal_refuted", "C14_from_mask_word_refuted",
    "C14_placeholder_identifier_path_refuted",
]]
TIE_NAME = ("C14 correspondence (QueryHandler.executeQuery via app.Test: ValidateSQLRequest, header checks, SHOW gate, "
            "checkQueryPermissions/extractTableReferences, getTransformedSQLForParallel/convertSQLToStoragePaths* "
            "vs Arc.SqlAst.Model.gate)")
P = L.CANARY_GLOB
P2 = L.CANARY_GLOB2

# refutation witnesses = the open findings' witnesses; replayed through the real handler first on every run.
# reads: what DuckDB must be seen to open for the finding to reproduce.
WITNESSES = [
    ("raw-no-from-join:TABLE", 'TABLE "%s"' % P, "", ["db2/secret"]),
    ("raw-no-from-join:TABLE", "TABLE '%s'" % P, "", ["db2/secret"]),
    ("raw-no-from-join:DESCRIBE", 'DESCRIBE "%s"' % P, "", ["db2/secret"]),
    ("raw-no-from-join:DESC", 'DESC "%s"' % P, "", ["db2/secret"]),
    ("raw-no-from-join:SHOW", 'SHOW "%s"' % P, "", ["db2/secret"]),
    ("raw-no-from-join:SUMMARIZE", 'SUMMARIZE "%s"' % P, "", ["db2/secret"]),
    ("raw-no-from-join:SUMMARIZE", "SUMMARIZE '%s'" % P, "", ["db2/secret"]),
    ("raw-no-from-join:PIVOT", 'PIVOT "%s" ON host USING count(*)' % P, "", ["db2/secret"]),
    ("raw-no-from-join:UNPIVOT", 'UNPIVOT "%s" ON id, v INTO NAME n VALUE x' % P, "", ["db2/secret"]),
    ("raw-no-from-join:EXPLAIN", 'EXPLAIN ANALYZE TABLE "%s"' % P, "", ["db2/secret"]),
    ("raw-read-parquet-text", "SELECT * -- 'read_parquet\nFROM \"%s\" -- '" % P, "", ["db2/secret"]),
    ("raw-read-parquet-text:comment-marker-in-quoted-identifier", "SELECT 1 AS \"--\", * FROM read_parquet('%s')" % P2, "", ["db2/secret"]),
    ("raw-read-parquet-text:comment-marker-in-quoted-identifier", "SELECT 1 AS \"a/*\", * FROM read_parquet('%s') -- */" % P2, "", ["db2/secret"]),
    ("path-literal-outside-from-join:comment-marker-in-quoted-identifier", "SELECT 'x' AS \"--\" FROM db1.cpu t1, '%s' t2" % P, "", ["db1/cpu", "db2/secret"]),
    ("path-literal-outside-from-join:statement-kind", 'WITH x AS (SELECT 1 FROM db1.cpu) TABLE "%s"' % P, "", ["db2/secret"]),
    ("path-literal-outside-from-join:statement-kind", 'SELECT * FROM db1.cpu UNION ALL TABLE "%s"' % P, "", ["db1/cpu", "db2/secret"]),
    ("path-literal-outside-from-join:paren-join-group", 'SELECT * FROM ("%s" a CROSS JOIN db1.cpu b)' % P, "", ["db1/cpu", "db2/secret"]),
    ("path-literal-outside-from-join:paren-join-group", "SELECT * FROM ('%s' a CROSS JOIN db1.cpu b)" % P, "", ["db1/cpu", "db2/secret"]),
    ("path-literal-outside-from-join:backslash-before-quote", "SELECT 'a\\' FROM \"%s\" WHERE 'b' = 'b'" % P, "", ["db2/secret"]),
    ("path-literal-outside-from-join:sql-text-function", "SELECT * FROM query('SELECT * FROM ''%s''')" % P, "", ["db2/secret"]),
    ("path-literal-outside-from-join:sql-text-function",
     "SELECT * FROM json_execute_serialized_sql(json_serialize_sql('TABLE \"%s\"'))" % P, "", ["db2/secret"]),
    ("header-cte-names-differ-from-permission-check", "WITH\nsecret AS (SELECT 1) SELECT * FROM secret", "db2", ["db2/secret"]),
    ("header-cte-names-differ-from-permission-check", "WITH\tsecret AS (SELECT 'x') SELECT * FROM secret", "db2", ["db2/secret"]),
    ("header-cte-names-differ-from-permission-check", "SELECT * FROM secret WINDOW w1 AS (ORDER BY id), secret AS (ORDER BY id)", "db2", ["db2/secret"]),
    ("placeholder-as-table-name", "SELECT * FROM cpu a JOIN LATERAL ' || $$../db2/secret$$ || ' b ON true", "db1", ["db1/cpu", "db2/secret"]),
    ("case-insensitive-dedup", "SELECT * FROM cpu a JOIN CPU b ON a.id = b.id", "db1", ["db1/CPU", "db1/cpu"]),
    ("backtick-inside-quoted-identifier", 'SELECT 1 AS "a`b", p.v FROM db1.cpu c, "%s" p' % P2, "", ["db1/cpu", "db2/secret"]),
    ("estring-escaped-quote-then-quote", "SELECT E'a\\'' AS a, p.v FROM \"%s\" p WHERE 'x' = 'x'" % P2, "", ["db2/secret"]),
    ("fast-path-name-not-seen-by-check", "SELECT * FROM 2024x", "db2", ["db2/2024x"]),
    ("placeholder-text-in-request", "SELECT '__STR_1__' AS a, ' , p.tag FROM \"%s\" p -- ' AS b" % P, "", ["db2/secret"]),
    ("placeholder-text-in-request", "SELECT p.tag, extract(year FROM DATE '2020-01-01') AS y __FROM_MASK_0__ \"%s\" p" % P, "", ["db2/secret"]),
    ("placeholder-text-in-request", "SELECT t.tag FROM db1.\"__STR_1__\" t WHERE t.tag <> ' || $$../db2/secret$$ || '", "", ["db2/secret"]),
]
# GET /api/v1/query/:measurement?database=..&where=..  (where, database, measurement)
MEASUREMENT_CASES = [
    ("id >= (SELECT min(id) FROM db2.secret)", "db1", "cpu"), ("id IN (SELECT id FROM db2.secret WHERE tag <> 'x')", "db1", "cpu"),
    ("EXISTS (SELECT 1 FROM db2.cpu s JOIN db2.secret t USING (id))", "db1", "mem"), ("id >= 0", "db1", "cpu"), ("host = 'h1' AND v IS NOT NULL", "db1", "mem"),
    ("id >= (SELECT min(id) FROM db1.mem)", "db1", "cpu"), ("id >= 0", "db2", "secret"), ("id IN (SELECT id FROM \"%s\")" % P2, "db1", "cpu"),
    ("id >= (SELECT min(id) FROM secret)", "db1", "cpu"),
    # with an x-arc-database header (4th field): the endpoint transforms WITHOUT a header database
    ("id >= (SELECT min(id) FROM mem)", "db1", "cpu", "db1"), ("id >= (SELECT min(id) FROM default.mem)", "db1", "cpu", "db1"),
    ("id >= 0", "db1", "cpu", "db2"), ("id >= (SELECT min(id) FROM db1.mem)", "db1", "cpu", "db2"),
]

# statements the gate must refuse (or check): each would read db2 if a guard disappeared
GUARD_PROBES = [
    ("SELECT * FROM '%s'" % P, ""), ('SELECT * FROM "%s"' % P, ""), ("SELECT * FROM db1.cpu c, '%s' t" % P, ""),
    ('SELECT * FROM db1.cpu c, "%s" t' % P, ""), ('SELECT * FROM db1.cpu c JOIN "%s" t ON true' % P, ""),
    ("SELECT * FROM db1.cpu c CROSS JOIN '%s' t" % P, ""), ("SELECT * FROM (SELECT 1) x, '%s' t" % P, ""),
    ("SELECT * FROM read_parquet('%s')" % P2, ""), ("SELECT * FROM parquet_scan('%s')" % P2, ""), ('SELECT * FROM "read_parquet"(\'%s\')' % P2, ""),
    ("SELECT * FROM db1.cpu c, read_parquet('%s') t" % P2, ""), ("SELECT count(*) FROM glob('%s')" % P, ""), ("SELECT * FROM read_csv_auto('%s')" % P, ""),
    ("SELECT * FROM $$%s$$" % P, ""), ("SELECT * FROM db2.secret", ""), ("SELECT * FROM db1.cpu a JOIN db2.secret b ON true", ""),
    ("SELECT * FROM db1.cpu a LEFT JOIN LATERAL db2.secret b ON true", ""), ("SELECT * FROM secret", "db2"), ("SELECT * FROM cpu a NATURAL JOIN secret b", "db2"),
    ("SELECT * FROM db2.secret", "db1"), ("SELECT * FROM cpu; SELECT * FROM db2.secret", "db1"), ("SHOW TABLES FROM db2", ""), ("SHOW TABLES", "db2"),
    ("/* x */ SHOW TABLES FROM db2", ""), ("SELECT * FROM /* c */ db2.secret", ""), ("SELECT * FROM db1.cpu WHERE id IN (SELECT id FROM db2.secret)", ""),
    # the four builtins whose argument list contains FROM, used as column names and followed by an operator and a subquery
    ('SELECT t.trim + (SELECT max(p.v) FROM db1.cpu c, "%s" p) FROM (SELECT 1 AS trim) t' % P2, ""),
    ('SELECT trim + (SELECT max(p.v) FROM db1.cpu c, "%s" p) FROM (SELECT 1 AS trim) t' % P2, ""),
    ('SELECT overlay - (SELECT max(p.v) FROM db1.cpu c, "%s" p) FROM (SELECT 1 AS overlay) t' % P2, ""),
    ('SELECT "extract" * (SELECT max(p.v) FROM db1.cpu c, "%s" p) FROM (SELECT 1 AS "extract") t' % P2, ""),
    ('SELECT substring + (SELECT max(p.v) FROM db1.cpu c, \'%s\' p) FROM (SELECT 1 AS substring) t' % P2, ""),
    ('SELECT extract(year FROM DATE \'2024-01-01\') + (SELECT max(p.v) FROM db1.cpu c, "%s" p)' % P2, ""),
    ('SELECT trim(BOTH \'x\' FROM (SELECT max(p.tag) FROM db1.cpu c, "%s" p))' % P2, ""),
    # E-strings ending in an even run of backslashes, then hidden FROM text and a re-pairing literal
    ("SELECT E'\\\\' AS a, p.v FROM \"%s\" p WHERE 'x' = 'x'" % P2, ""),
    ("SELECT E'ab\\\\\\\\' AS a, p.v FROM db1.cpu c, \"%s\" p WHERE c.host <> 'x'" % P2, ""),
    ("SELECT E'a\\'' AS a, p.v FROM db1.cpu c, \"%s\" p WHERE 'x' = 'x'" % P2, ""),
    ("SELECT e'\\\\', p.v FROM \"%s\" p WHERE p.tag <> 'x'" % P2, ""),
    ('SELECT 1 AS `a"b`, p.v FROM db1.cpu c, "%s" p' % P2, ""), ('SELECT 1 AS "a`b`c", p.v FROM db1.cpu c, "%s" p' % P2, ""),
    # names the permission check's patterns cannot see, on the header fast path and elsewhere
    ("SELECT * FROM 2024x", "db2"), ("select id, tag from\t2024x where id >= 0", "db2"), ("SELECT * FROM 2024x LIMIT 5", "db2"),
    ("SELECT a.id FROM cpu a JOIN 2024x b ON a.id = b.id", "db2"), ("SELECT * FROM db2.2024x", ""), ('SELECT * FROM "2024x"', "db2"),
    # request text of placeholder shape (the transform restores placeholders by text replacement after the checks)
    ("SELECT '__STR_1__' AS a, ' , p.tag FROM \"%s\" p -- ' AS b" % P, ""), ("SELECT '__STR_1__' AS a, ' , p.tag FROM \"%s\" p -- ' AS b" % P, "db1"),
    ("SELECT $$__STR_1__$$ AS a, ' , p.tag FROM \"%s\" p -- ' AS b" % P, ""), ("SELECT \"__STR_1__\" AS a, ' , p.tag FROM \"%s\" p -- ' AS b FROM db1.cpu" % P, ""),
    ("SELECT p.tag, extract(year FROM DATE '2020-01-01') AS y __FROM_MASK_0__ \"%s\" p" % P, ""),
    ("SELECT p.tag, substring('abc' FROM 2) AS y __FROM_MASK_0__ db1.cpu c, \"%s\" p" % P, ""),
    ("SELECT t.tag FROM db1.\"__STR_1__\" t WHERE t.tag <> ' || $$../db2/secret$$ || '", ""),
    ("SELECT t.tag FROM db1.cpu c JOIN db1.\"__STR_1__\" t ON true WHERE t.tag <> ' || $$../db2/secret$$ || '", ""),
    ("SELECT 'a'IDENT_1__ AS x, \"%s\".tag FROM db1.cpu" % P, ""),
    ("COPY (SELECT 1) TO '%s/x'" % L.ROOT_TOKEN, ""), ("ATTACH '%s/x.db'" % L.ROOT_TOKEN, ""), ("SET enable_external_access = true", ""),
]

KIND_WORDS = ["TABLE", "DESCRIBE", "DESC", "SHOW", "SUMMARIZE", "PIVOT", "UNPIVOT", "EXPLAIN"]


def route_of(sql):
    lo = sql.lower()
    if L.FIXBITS & 16:
        return "transformed"
    if "read_parquet" in lo:
        return "raw-read-parquet"
    if "from" not in lo and "join" not in lo:
        return "raw-no-from-join"
    return "transformed"


def signature(case, cl, flags, out):
    """the class of an oracle failure (must be narrow; it is matched against known_findings/C14.json)"""
    sql = case["sql"]
    rt = route_of(sql)
    if case.get("ep") == "measurement":
        return "query-measurement-header-override" if case.get("xhdr") and L.MEASUREMENT_FIXED else "query-measurement-where-subquery"
    if not (L.FIXBITS & 1024) and re.search(r"__STR_|__IDENT_|__FROM_MASK_", sql):
        return "placeholder-text-in-request"
    if not (L.FIXBITS & 512) and case["hdr"] and re.search(r"(?i)\bfrom[ \t\n]+[0-9]", sql):
        return "fast-path-name-not-seen-by-check"
    if any(a.startswith("__STR_") for _, a in cl["checked"]):
        return "placeholder-as-table-name"
    if not (L.FIXBITS & 256) and re.search(r'"[^"`]*`[^"]*"', sql) and not flags["pathlike_free"]:
        return "backtick-inside-quoted-identifier"
    if not (L.FIXBITS & 256) and re.search(r"(?i)\be'[^']*\\''", sql) and not flags["pathlike_free"]:
        return "estring-escaped-quote-then-quote"
    if case["hdr"] and not flags["hdr_ctes_ok"]:
        return "header-cte-names-differ-from-permission-check"
    if rt == "raw-no-from-join":
        first = re.sub(r"/\*.*?\*/|--[^\n]*", " ", sql, flags=re.S).split()
        w = first[0].upper() if first else ""
        return "raw-no-from-join:" + (w if w in KIND_WORDS else "other")
    if rt == "raw-read-parquet":
        if any(("--" in q or "/*" in q) and "parquet" not in q for q in re.findall(r'"([^"]*)"', sql)):
            return "raw-read-parquet-text:comment-marker-in-quoted-identifier"
        return "raw-read-parquet-text"
    if flags["oracle_ci"] and not flags["oracle_exact"]:
        return "case-insensitive-dedup"
    if not flags["pathlike_free"]:
        lo = sql.lower()
        if any(("--" in q or "/*" in q) and "parquet" not in q for q in re.findall(r'"([^"]*)"', sql)):
            return "path-literal-outside-from-join:comment-marker-in-quoted-identifier"
        if "query(" in re.sub(r"\s+", "", lo) or "json_execute_serialized_sql" in lo or "query_table" in lo:
            return "path-literal-outside-from-join:sql-text-function"
        if "\\'" in sql or '\\"' in sql:
            return "path-literal-outside-from-join:backslash-before-quote"
        if re.search(r"(?i)\b(from|join)\b(\s|/\*.*?\*/|--[^\n]*\n)*\(\s*[\"'$]", sql, flags=re.S):
            return "path-literal-outside-from-join:paren-join-group"
        if re.search(r"(?i)\b(table|describe|desc|summarize|show|pivot|unpivot)\b", sql):
            return "path-literal-outside-from-join:statement-kind"
        return "path-literal-outside-from-join:other"
    return "unclassified"


def evaluate_fast(cases, outs, name):
    cls, flags, ncross = L.eval_flags("C14", cases, outs, name)
    evaluate_fast.cross = ncross
    return cls, flags


def executed_ok(out):
    return out.get("executed") is not None and out.get("status") == 200 and out.get("success") and not out.get("readerr")


def leaked(case, cl, out):
    """measurements DuckDB opened, or whose canary came back, without having been checked (exact names)"""
    checked = set(cl["checked"])
    bad = []
    for m in (out.get("readset") or []):
        if tuple(m.split("/", 1)) not in checked:
            bad.append(m)
    for mk in (out.get("seen") or []):
        for db, m in L.MEASUREMENTS:
            if mk in (L.marker_value(db, m), L.marker_column(db, m)) and (db, m) not in checked and "%s/%s" % (db, m) not in bad:
                bad.append("%s/%s" % (db, m))
    return bad


# ---------------------------------------------------------------------------------------
# inputs
# ---------------------------------------------------------------------------------------
SOUP_WORDS = ["SELECT", "*", "FROM", "from", "JOIN", "join", "LEFT", "OUTER", "CROSS", "NATURAL", "ASOF", "LATERAL", "lateral", "WITH",
              "RECURSIVE", "AS", "cpu", "mem", "CPU", "db1", "db2", "secret", "default", "read_parquet", "pg_x", "x1", "1x", "t", "a", "ON",
              "USING", "WHERE", "GROUP", "BY", "ORDER", "LIMIT", "UNION", "ALL", "TABLE", "DESCRIBE", "SUMMARIZE", "SHOW", "TABLES", "DATABASES",
              "id", "count", "true", "1", "generate_series", "query", "DROP", "SET", "COPY", "CREATE", "SECRET", "UPDATE", "glob", "parquet_scan",
              "extract", "year", "xfrom", "fromx", "__STR_0__", "__IDENT_0__", "__STR_1__x", "9__IDENT_0__"]
SOUP_PUNCT = [".", ".", ",", ",", "(", ")", "(", ")", ";", "=", "*", "-", "/"]
SOUP_WS = [" ", " ", " ", " ", "  ", "\t", "\n", "\n", "\r", "\f", " \n "]
SOUP_LITS = ["'a'", "'x y'", "'%s'" % P, '"cpu"', '"db1"', '"db2"', '"secret"', '"%s"' % P, '"a/*"', '"--"', '"my-db"', "$$q$$", "E'a\\'b'", "'a\\'",
             "'it''s'", '"a""b"', "`cpu`", "'from x'", "'read_parquet'"]
SOUP_COMM = ["-- c\n", "/* c */", "/* ' */", "-- '\n", "--read_parquet\n", "/* from */", "/**/", "-- x"]


def soup(rng):
    out = []
    for _ in range(rng.randint(1, 14)):
        k = rng.random()
        out.append(rng.choice(SOUP_WORDS) if k < 0.55 else rng.choice(SOUP_PUNCT) if k < 0.7 else rng.choice(SOUP_LITS) if k < 0.85 else rng.choice(SOUP_COMM))
        if rng.random() < 0.75:
            out.append(rng.choice(SOUP_WS))
    s = "".join(out)
    return s if s.strip() else "SELECT 1"


def mutate(rng, sql):
    if not sql:
        return "SELECT 1"
    i = rng.randrange(len(sql))
    k = rng.random()
    frag = rng.choice(["'", '"', "\\", "--", "/*", "*/", "\n", " ", "(", ")", ",", ".", ";", "from ", " join ", "read_parquet", "with ", "$$", "`"])
    if k < 0.4:
        return sql[:i] + frag + sql[i:]
    if k < 0.7:
        j = min(len(sql), i + rng.randint(1, 6))
        return sql[:i] + sql[j:]
    return sql[:i] + frag + sql[i + 1:]


def corpus_cases():
    d = os.path.join(vlib.ROOT, "corpus", "C14")
    out = []
    if os.path.isdir(d):
        for fn in sorted(os.listdir(d)):
            if fn.endswith(".json"):
                for c in json.load(open(os.path.join(d, fn))).get("cases", []):
                    out.append(c)
    return out


def build_cases(rng, tier):
    n_gen, n_clean, n_soup, n_mut = (180, 120, 50, 40) if tier == "quick" else (2500, 1500, 800, 600)
    cases, meta = [], []
    for sig, sql, hdr, reads in WITNESSES:
        cases.append(L.mk_case(sql, hdr))
        meta.append({"src": "witness", "sig": sig, "expect_reads": reads, "labels": [], "disguises": [], "items": []})
    for sql, hdr in GUARD_PROBES:
        cases.append(L.mk_case(sql, hdr))
        meta.append({"src": "guard-probe", "labels": [], "disguises": [], "items": []})
    for sql, hdr in L.QUALIFIED_EXCLUSION_PROBES:
        cases.append(L.mk_case(sql, hdr, allow=["db1"]))
        meta.append({"src": "qualified-exclusion", "labels": ["qualified-cte-or-skip-name"], "disguises": [], "items": []})
    for label, pre, sql, hdr, allow in L.cache_pairs():
        cases.append(L.mk_case(sql, hdr, allow=allow, pre=pre))
        meta.append({"src": "request-pair", "labels": ["pair:" + label], "disguises": [], "items": []})
    for sql, hdr, label in L.cte_quoting_matrix():
        cases.append(L.mk_case(sql, hdr, allow=rng.choice([["db1"], ["db1", "default"]])))
        meta.append({"src": "cte-quoting", "labels": [label], "disguises": ["quoted-name"] if "quoted" in label else [], "items": []})
    for c in corpus_cases():
        cases.append(L.mk_case(c["sql"], c.get("hdr", ""), allow=c.get("allow", ["db1"])))
        meta.append({"src": "corpus", "labels": [], "disguises": [], "items": []})
    gens = []
    for _ in range(n_gen):
        g = L.generate(rng)
        gens.append(g)
        allow = rng.choice([["db1"], ["db1"], ["db1"], ["db1", "default"], ["*"]])
        cases.append(L.mk_case(g["sql"], g["hdr"], allow=allow))
        meta.append({"src": "grammar", "labels": g["labels"], "disguises": g["disguises"], "items": g["items"], "dirt": g["dirt"]})
    for _ in range(n_clean):
        # well-formed statements over databases the caller may read: they execute, so that the read set is measured
        g = L.generate_valid(rng)
        gens.append(g)
        cases.append(L.mk_case(g["sql"], g["hdr"], allow=rng.choice([["*"], ["*"], ["db1"], ["db1", "default"]])))
        meta.append({"src": "grammar-valid", "labels": g["labels"], "disguises": g["disguises"], "items": [], "dirt": 0.0})
    for _ in range(n_soup):
        cases.append(L.mk_case(soup(rng), rng.choice(["", "", "db1", "db2", "bad name", "default"]), allow=rng.choice([["db1"], ["*"]])))
        meta.append({"src": "soup", "labels": [], "disguises": [], "items": []})
    for _ in range(n_mut):
        g = rng.choice(gens)
        cases.append(L.mk_case(mutate(rng, g["sql"]), g["hdr"]))
        meta.append({"src": "mutated", "labels": g["labels"], "disguises": g["disguises"], "items": []})
    # a sample through the other endpoints that share the gate: only accept/reject, checked set and canaries
    for mc in MEASUREMENT_CASES:
        where, db, meas = mc[:3]
        assembled = "SELECT * FROM %s.%s WHERE %s ORDER BY id LIMIT 100 OFFSET 0" % (db, meas, where)
        cases.append(L.mk_case(assembled, "", allow=["*"]))
        meta.append({"src": "measurement-twin", "labels": [], "disguises": [], "items": []})
        cases.append(dict(L.mk_case(where, db, allow=["db1"]), ep="measurement", meas=meas, xhdr=mc[3] if len(mc) > 3 else ""))
        meta.append({"src": "endpoint:measurement", "labels": [], "disguises": [], "items": [], "twin": len(cases) - 2})
    # token-boundary probes: /api/v1/query (getTransformedSQLForParallel) and /api/v1/query/arrow (getTransformedSQL ->
    # convertSQLToStoragePathsWithHeaderDB), both with the executed text and the measured read set
    for sql, hdr, arrow in L.boundary_probes():
        cases.append(L.mk_case(sql, hdr))
        meta.append({"src": "boundary", "labels": [], "disguises": [], "items": []})
        if not arrow:
            continue
        cases.append(dict(L.mk_case(sql, hdr), ep="arrow"))
        meta.append({"src": "endpoint:arrow", "labels": [], "disguises": [], "items": [], "twin": len(cases) - 2, "boundary": True})
    nq = len(cases)
    first_gen = (len(WITNESSES) + len(GUARD_PROBES) + len(L.QUALIFIED_EXCLUSION_PROBES) + len(L.cache_pairs())
                 + len(L.cte_quoting_matrix()) + len(corpus_cases()))
    twins = [0, 2, 5, 10, 21, 24] + list(range(first_gen, min(first_gen + 10, nq)))
    twins = [t for t in twins if cases[t]["ep"] == "query"]
    for ep in ("estimate", "arrow", "msgpack"):
        for t in twins:
            cases.append(dict(cases[t], ep=ep, reads=False))
            meta.append(dict(meta[t], src="endpoint:" + ep, twin=t))
    return cases, meta


def nontrivial(case, m):
    forbidden = ("db2" in case["sql"]) or case["hdr"] == "db2"
    return bool(m.get("disguises")) and forbidden


def setup():
    pass


def warm():
    L.run_cases("C14", [], "warm")


def shrink(case, still_fails, rounds=3):
    """delete chunks of the statement while the failure stays; every round is ONE harness call"""
    cur = case["sql"]
    for _ in range(rounds):
        n = max(1, len(cur) // 6)
        cands = [cur[:i] + cur[i + n:] for i in range(0, len(cur), n)]
        cands = [c for c in dict.fromkeys(cands) if c.strip() and c != cur]
        if not cands:
            break
        res = still_fails([dict(case, sql=c) for c in cands])
        good = [c for c, ok in zip(cands, res) if ok]
        if not good:
            break
        cur = min(good, key=len)
    return cur


def run(res, tier, seed):
    rng = random.Random(seed * 104729 + 14)
    failed = vlib.std_proof_stage(res, "C14", AREA, MODULES, THEOREMS)
    if tier == "thorough":
        ok, _ = vlib.coqchk_stage(res, MODULES)
        if not ok:
            failed.append(("coqchk", "coqchk rejects the compiled development"))
    res.cov["trusted_base"] += [
        "the regular expressions of query.go (table patterns, CTE pattern, dangerousSQLPattern, ioTableFunctionPattern, table-position scanner, "
        "SHOW patterns) are read at TOKEN level (maximal runs of [A-Za-z0-9_], of RE2 \\s, single other bytes; leftmost match, continue after it): "
        "validated against Go's regexp on every run by the correspondence, not proved",
        "DuckDB (lexer, parser, binder, replacement scans, table functions, allowed_directories sandbox) is an oracle: what it opens for an executed text is "
        "MEASURED (one measurement directory hidden at a time), and compared with the model's prediction on every case of the theorems' class",
        "the lexical layer is Arc.SqlLex.Model (property C15); strings.ToLower/TrimSpace on non-ASCII text, the phase-0 rewrites (C17) and the partition "
        "pruner/tiering/parallel executor are outside the model: generated statements do not trigger them",
        "the RBAC decision itself is the recording stub of the harness (allow by database); property C20 covers the real RBAC manager",
        "DuckDB's catalog is empty apart from system objects (Arc creates no views); CREATE VIEW is accepted by the gate and would void this (reported, not in the grammar)",
    ]
    t0 = time.time()
    known = {e["signature"]: e for e in vlib.known_for("C14")}
    cases, meta = build_cases(rng, tier)
    res.stage("generate", t0)
    t1 = time.time()
    outs = L.run_cases("C14", cases, tier)
    res.stage("impl_harness", t1)
    res.cov["repairs_present_in_source"] = L.fix_names()
    t2 = time.time()
    cls, flags = evaluate_fast(cases, outs, "Cases_" + tier)
    res.stage("model_eval", t2)

    disagreements, oracle_fail, unexplained, spec_bad, reproduced = [], [], [], [], {}
    parity, dis_leak = [], []
    for i, (c, m, o, cl, fl) in enumerate(zip(cases, meta, outs, cls, flags)):
        if c["ep"] == "measurement":
            # GET /api/v1/query/:measurement assembles a statement and must treat it like POST /api/v1/query does:
            # same executed text as the assembled statement sent to /query (which the model checks), every read checked
            t = m["twin"]
            if o.get("executed") is not None and outs[t].get("executed") is not None and o["executed"] != outs[t]["executed"]:
                parity.append(i)
            fl.update(flags[t])
            fl["agree"], fl["in_domain"] = True, False
            bad = leaked(c, cl, o) if o.get("status") == 200 else []
        elif c["ep"] != "query":
            # the other endpoints share the gate: same accept/reject and the same checked list as /api/v1/query
            t = m["twin"]
            # (SHOW is answered by /api/v1/query only: the others run the same permission check and then say "not supported")
            unsupported = "is not supported on the" in (o.get("err") or "")
            refused = o.get("status") in (400, 403) and not unsupported
            same = refused == (outs[t].get("status") in (400, 403)) and \
                   ((o.get("status") == 400 and not unsupported) == (outs[t].get("status") == 400)) and cl["checked"] == cls[t]["checked"]
            if m.get("boundary") and o.get("executed") is not None and outs[t].get("executed") is not None and o["executed"] != outs[t]["executed"]:
                same = False          # the two header fast paths must cut the name at the same byte
            if not same:
                parity.append(i)
            fl.update(flags[t])
            fl["agree"], fl["in_domain"] = True, False
            bad = leaked(c, cl, o) if o.get("status") == 200 else []
        elif not fl["agree"]:
            disagreements.append(i)
            if o.get("status") == 200 and leaked(c, cl, o):
                dis_leak.append(i)
            continue
        else:
            bad = leaked(c, cl, o) if executed_ok(o) or (o.get("seen") and o.get("status") == 200) else []
            if executed_ok(o) and not fl["reads_agree"]:
                spec_bad.append(i)
        if bad:
            oracle_fail.append(i)
            fl2 = dict(fl)
            # oracle flags refer to the measured read set; canaries seen without a measured read count as exact failures
            sig = signature(c, cl, fl2, o)
            in_domain = fl["in_domain"] and fl["oracle_ci"] is False
            if sig in known and not in_domain:
                reproduced.setdefault(sig, i)
            else:
                unexplained.append((i, sig, bad))
    # witnesses must reproduce exactly as listed
    for i, (sig, sql, hdr, reads) in enumerate(WITNESSES):
        got = sorted(outs[i].get("readset") or [])
        if sig in known and i in oracle_fail and flags[i]["agree"] and got != sorted(reads):
            res.notes.append("witness %r of %s now reads %s (listed: %s)" % (sql, sig, got, reads))
    for sig in sorted(reproduced):
        i = reproduced[sig]
        res.known_finding("%s: %s [e.g. %r hdr=%r read %s, checked %s]" % (
            sig, known[sig]["what"], cases[i]["sql"][:120], cases[i]["hdr"], leaked(cases[i], cls[i], outs[i]), cls[i]["checked"]))

    def rerun(cands):
        o2 = L.run_cases("C14", cands, "shrink")
        c2, f2 = evaluate_fast(cands, o2, "Shrink")
        return o2, c2, f2

    if disagreements:
        # prefer a disagreement on which the implementation itself violates the property (an unchecked read)
        pool = dis_leak or disagreements
        i = min(pool, key=lambda k: len(cases[k]["sql"]))
        want_leak = bool(dis_leak)

        def still(cands):
            o2, c2, f2 = rerun(cands)
            if want_leak:
                return [(not f["agree"]) and o.get("status") == 200 and bool(leaked(c, cl, o)) for c, o, cl, f in zip(cands, o2, c2, f2)]
            return [not f["agree"] for f in f2]
        small = cases[i]["sql"] if cases[i].get("pre") else shrink(cases[i], still, rounds=2 if tier == "quick" else 4)
        o2, c2, f2 = rerun([dict(cases[i], sql=small)])
        bad = leaked(dict(cases[i], sql=small), c2[0], o2[0]) if o2[0].get("status") == 200 else []
        res.violation("model and implementation disagree on the gate (%d disagreeing cases, %d of them read unchecked data)" % (len(disagreements), len(dis_leak)),
                      {"kind": "correspondence", "correspondence": TIE_NAME, "sql": small, "hdr": cases[i]["hdr"], "allow": cases[i]["allow"],
                       "preceding_requests_on_the_same_handler": cases[i].get("pre") or [],
                       "impl": {k: o2[0].get(k) for k in ("status", "err", "checked", "executed", "readset", "seen")},
                       "classified": c2[0], "disagreeing_cases": len(disagreements), "oracle_fails_on_impl": bool(bad), "unchecked_reads": bad,
                       "how_to_replay": "python3 tools/check.py C14 --replay <this file>"}, no_input=not bad, suffix="corr")
    for i, sig, bad in unexplained[:3]:
        res.violation("a measurement was read without having been permission-checked: %r hdr=%r read %s, checked %s (class %s)" % (
            cases[i]["sql"][:160], cases[i]["hdr"], bad, cls[i]["checked"], sig),
            {"kind": "oracle", "sql": cases[i]["sql"], "hdr": cases[i]["hdr"], "allow": cases[i]["allow"], "ep": cases[i]["ep"], "signature": sig,
             "preceding_requests_on_the_same_handler": cases[i].get("pre") or [],
             "unchecked_reads": bad, "impl": {k: outs[i].get(k) for k in ("status", "err", "checked", "executed", "readset", "seen")},
             "in_theorem_domain": flags[i]["in_domain"], "how_to_replay": "python3 tools/check.py C14 --replay <this file>"}, suffix="oracle")
    for i in parity[:2]:
        t = meta[i]["twin"]
        res.violation("endpoint %s gates %r differently from /api/v1/query" % (cases[i]["ep"], cases[i]["sql"][:120]),
                      {"kind": "correspondence", "correspondence": TIE_NAME + " (endpoint parity)", "sql": cases[i]["sql"], "hdr": cases[i]["hdr"],
                       "allow": cases[i]["allow"], "ep": cases[i]["ep"], "impl": {k: outs[i].get(k) for k in ("status", "err", "checked")},
                       "query_endpoint": {k: outs[t].get(k) for k in ("status", "err", "checked")}}, no_input=True, suffix="parity")
    for i in spec_bad[:2]:
        res.violation("the model's prediction of what the executed statement reads differs from what DuckDB opened: %r" % cases[i]["sql"][:160],
                      {"kind": "spec-validation", "sql": cases[i]["sql"], "hdr": cases[i]["hdr"], "allow": cases[i]["allow"],
                       "impl": {k: outs[i].get(k) for k in ("status", "err", "checked", "executed", "readset", "seen")},
                       "how_to_replay": "python3 tools/check.py C14 --replay <this file>"}, no_input=True, suffix="spec")
    if failed and not (disagreements or unexplained):
        # search the witnesses: a theorem that no longer checks usually means the model was edited; the
        # implementation side is covered by the two checks above
        res.violation("proof obligation(s) no longer check: " + "; ".join(r for _, r in failed),
                      {"kind": "obligation-failed", "theorems": [t for t, _ in failed], "detail": [r for _, r in failed]},
                      no_input=True, suffix="obligation")

    # ---- evidence -------------------------------------------------------------------------
    n = len(cases)
    res.cov["evaluations"] = n
    distinct = {(c["sql"], c["hdr"]) for c, m in zip(cases, meta) if nontrivial(c, m)}
    res.cov["distinct_nontrivial"] = len(distinct)
    res.cov["rule"] = ("statements from (a) the refutation witnesses, (b) a tree grammar (SELECT / WITH / FROM-first / TABLE, DESCRIBE, DESC, SHOW, SUMMARIZE, "
                       "PIVOT, UNPIVOT, EXPLAIN x / SHOW TABLES..; every join kind incl. LATERAL, comma joins, subqueries, parenthesised items, set operations; "
                       "table-position items = bare / double-quoted / backtick-quoted [db.]measurement, quoted path, string / dollar / E-string path, table-function call) "
                       "printed with disguises (comments and odd whitespace between any two tokens incl. quotes, `read_parquet` and FROM clauses inside comments, "
                       "keyword and name case, quoted aliases with comment markers, value literals with keywords / comment markers / placeholders / backslashes), "
                       "(c) token soup and (d) byte mutations of (b); with and without the x-arc-database header; caller allowed db1 (sometimes more). "
                       "non-trivial = at least one disguise AND a reference to the forbidden database db2 (in the text or as header); distinct by (text, header)")
    res.cov["model_vs_impl_disagreements"] = len(disagreements) + len(parity)
    res.cov["oracle_failures"] = len(oracle_fail)
    res.cov["oracle_failures_unexplained"] = len(unexplained)
    res.cov["read_prediction_mismatches"] = len(spec_bad)
    from collections import Counter
    src = Counter(m["src"].split(":")[0] for m in meta)
    kinds = Counter()
    for cl in cls:
        kinds[{0: "rejected:%d" % cl["code"], 1: "show-databases", 2: "show-tables", 3: "query"}.get(cl["kind"], "unmodelled")] += 1
    dis = Counter(d for m in meta for d in m.get("disguises", []))
    lab = Counter(l.split(":")[0] for m in meta for l in m.get("labels", []))
    executed = [i for i in range(n) if outs[i].get("executed") is not None]
    res.cov["histogram"] = {
        "source": dict(src), "handler_outcome": dict(kinds), "route": dict(Counter(route_of(cases[i]["sql"]) for i in executed)),
        "disguises": dict(dis), "shapes": dict(lab),
        "header": dict(Counter(c["hdr"] or "(none)" for c in cases)),
        "executed": len(executed), "executed_without_error": sum(1 for o in outs if executed_ok(o)),
        "denied_403": sum(1 for o in outs if o.get("status") == 403),
        "in_theorem_domain": sum(1 for f in flags if f["in_domain"]),
        "in_theorem_domain_and_executed_ok": sum(1 for f, o in zip(flags, outs) if f["in_domain"] and executed_ok(o)),
        "in_grammar": sum(1 for f in flags if f["in_grammar"]),
        "length_buckets": {b: sum(1 for c in cases if lo <= len(c["sql"]) < hi) for b, lo, hi in [("0-31", 0, 32), ("32-127", 32, 128), ("128-511", 128, 512), ("512+", 512, 10 ** 9)]},
        "oracle_failures_by_signature": dict(Counter(signature(cases[i], cls[i], flags[i], outs[i]) for i in oracle_fail)),
    }

    def sample(i):
        return {"sql": cases[i]["sql"], "hdr": cases[i]["hdr"], "allow": cases[i]["allow"], "status": outs[i].get("status"),
                "checked": cls[i]["checked"], "executed": outs[i].get("executed"), "readset": outs[i].get("readset"), "seen": outs[i].get("seen"),
                "in_theorem_domain": flags[i]["in_domain"]}
    base = len(WITNESSES)
    picks = [i for i in range(base, n) if meta[i]["src"].startswith("grammar") and flags[i]["in_domain"] and executed_ok(outs[i]) and len(meta[i]["disguises"]) >= 2][:1]
    picks += [i for i in range(base, n) if meta[i]["src"] == "grammar" and outs[i].get("status") == 400 and meta[i]["labels"]][:1]
    picks += [i for i in oracle_fail if i >= base][:1]
    res.cov["samples"] = [sample(i) for i in picks] or [sample(0)]


def replay(res, path):
    obj = json.load(open(path))
    if "sql" not in obj:
        print("replay file names no concrete input:", obj.get("summary"))
        return 1
    pre = [(p["sql"], p["hdr"], p["allow"]) for p in obj.get("preceding_requests_on_the_same_handler", [])]
    case = L.mk_case(obj["sql"], obj.get("hdr", ""), ep=obj.get("ep", "query"), allow=obj.get("allow", ["db1"]), pre=pre)
    outs = L.run_cases("C14", [case], "replay")
    cls, flags = evaluate_fast([case], outs, "Replay")
    bad = leaked(case, cls[0], outs[0]) if outs[0].get("status") == 200 else []
    for p in case["pre"]:
        print("preceding request on the same handler:", repr(p["sql"]), "| header:", repr(p["hdr"]), "| caller allowed:", p["allow"])
    print("statement:", repr(case["sql"]), "| header:", repr(case["hdr"]), "| caller allowed:", case["allow"])
    print("handler:", {k: outs[0].get(k) for k in ("status", "err", "checked", "executed", "readset", "seen")})
    print("model agrees:", flags[0]["agree"], "| in theorem domain:", flags[0]["in_domain"], "| read prediction agrees:", flags[0]["reads_agree"])
    print("read without permission check:", bad)
    return 1 if (not flags[0]["agree"] or bad or not flags[0]["reads_agree"]) else 0
