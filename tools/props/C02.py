"""C02 - Typed MessagePack decoding is indistinguishable from generic decoding.

Proof: coq/theories/MsgPack (C02_equiv for every AST / float semantics / sanitiser / clock,
C02_fallback_total, C02_accept_iff - all without guard since commit 1ff6fb4 - and
C02_old_witnesses_fall_back for the inputs on which the older code differed).
Tie (correspondence): python generates width-tagged msgpack ASTs, encodes them to bytes with
random header widths, the in-package harness runs the REAL MessagePackDecoder.Decode with the
typed path on and off (controlled clock) and ArrowBuffer.convertColumnsToTyped on the generic
records; both observations are compared with Model.decode_with_typed / Model.generic inside
Coq.  A byte-mutation stream (truncation, oversized headers, trailing bytes, code swaps) is
parsed back by an independent parser: what still is a complete msgpack value goes through the
same comparison, the rest must be rejected identically by both modes.
Tie (anchor): NewMsgPackHandler must still switch the fast path off when decimal columns
are configured (the model has no decimal conversion).
"""
import json
import os
import random
import re
import struct
import time

import vlib
import lib_msgpack as mp
from lib_msgpack import S, I, A, M, NIL, F32, F64

AREA = "MsgPack"
THEOREMS = [("Arc.MsgPack.Props", "C02_equiv"), ("Arc.MsgPack.Props", "C02_fallback_total"),
            ("Arc.MsgPack.Props", "C02_accept_iff"), ("Arc.MsgPack.Props", "C02_old_witnesses_fall_back")]
MODULES = ["Arc.MsgPack.Props"]
TIE_NAME = "C02 correspondence (ingest.MessagePackDecoder.Decode typed on/off + convertColumnsToTyped vs Arc.MsgPack.Model.decode_with_typed/generic)"

HARNESS = {"internal/ingest/zz_msgpack_verif_test.go": "harness/msgpack/msgpack_verif_test.go"}
REWRITES = {"internal/ingest/msgpack.go": [("time.Now()", "verifNow(time.Nanosecond)", 2)],
            "internal/ingest/msgpack_typed.go": [("time.Now()", "verifNow(time.Nanosecond)", 1)]}
NOW_ON = 1_700_000_000_123_456
NOW_OFF = 1_700_000_007_654_321

HEADER = ("From Coq Require Import List ZArith NArith Bool.\nFrom Arc Require Import MsgPack.Model.\n"
          "Import ListNotations.\nOpen Scope Z_scope.\n")
PRED_BITS = [("agree", 1), ("oracle", 2), ("notdup", 4), ("notskip", 8), ("modelsame", 16), ("offagree", 32)]


# ---------------------------------------------------------------------------------------
# generators
# ---------------------------------------------------------------------------------------

INT_EDGES = [0, 1, -1, 5, 127, 128, -32, -33, 255, 256, 65535, 65536, 2 ** 31 - 1, 2 ** 31, -2 ** 31, 2 ** 32 - 1, 2 ** 32,
             2 ** 53, 2 ** 53 + 1, 2 ** 63 - 1, -2 ** 63, 2 ** 63, 2 ** 64 - 1, 10 ** 10 - 1, 10 ** 10, 10 ** 13 - 1, 10 ** 13,
             10 ** 16 - 1, 10 ** 16, 1_700_000_000, 1_700_000_000_000, 1_700_000_000_000_000, 1_700_000_000_000_000_000,
             9_223_372_036_854_775, 9_223_372_036_854_776, -9_223_372_036_854_776, 2 ** 63 - 512, 2 ** 63 + 1025]
F64_EDGES = [0.0, -0.0, 1.5, -1.5, 1.0, 2.0 ** 63, -2.0 ** 63, 2.0 ** 63 * (1 + 2.0 ** -52), -2.0 ** 63 * (1 + 2.0 ** -52),
             2.0 ** 63 * (1 - 2.0 ** -53), 1e19, -1e19, 1e300, float("inf"), float("-inf"), float("nan"), 1.7e9, 1.7e12, 1.7e15, 1.7e18,
             1e10, 1e13, 1e16, 9999999999.5, 0.1, 3.0, 2.0 ** 53, 2.0 ** 64, 5e-324, 1e-310, 123456789.987]
F32_EDGES = [0.0, 1.5, -2.5, 2.0 ** 63, -2.0 ** 63, 2.0 ** 63 * (1 + 2.0 ** -23), 2.0 ** 63 * (1 - 2.0 ** -24), 3.4e38, float("inf"),
             float("nan"), 1.7e9, 1e-45, 1e-40, 16777216.0, 16777217.0, 0.1]
STRS = [b"", b"a", b"host-01", b"eu-west", "été".encode(), b"\xff\xfe", b"ab\x80cd", b"\xc3", b"x" * 40, b"time", b"m", b"\xed\xa0\x80",
        b"\xf0\x9f\x98\x80", b"a\x00b"]
COLNAMES = [b"a", b"b", b"v", b"time", b"host", b"", b"_x", b"temp", b"a"]
MEAS = [b"cpu", b"mem", b"", b"a b", b"cpu\xff", b"measurement_7"]


def rint(rng, z=None):
    if z is None:
        z = rng.choice(INT_EDGES) if rng.random() < 0.6 else rng.randrange(-1000, 100000)
    z = max(-2 ** 63, min(2 ** 64 - 1, z))
    return I(z, rng.choice(mp.kinds_for(z)))


def rf64(rng):
    if rng.random() < 0.15:
        return ("f64", rng.getrandbits(64))
    return F64(rng.choice(F64_EDGES))


def rf32(rng):
    if rng.random() < 0.2:
        return ("f32", rng.getrandbits(32))
    return F32(rng.choice(F32_EDGES))


def rstr(rng):
    return ("str", rng.choice(STRS))


def rscalar(rng):
    r = rng.random()
    if r < 0.3:
        return rint(rng)
    if r < 0.45:
        return rf64(rng)
    if r < 0.55:
        return rf32(rng)
    if r < 0.75:
        return rstr(rng)
    if r < 0.85:
        return ("bool", rng.random() < 0.5)
    if r < 0.95:
        return NIL
    return ("bin", rng.choice(STRS))


def rjunk(rng, depth=0):
    """arbitrary value, including shapes the generic library decode rejects"""
    r = rng.random()
    if depth > 2 or r < 0.45:
        return rscalar(rng)
    if r < 0.62:
        return ("arr", [rjunk(rng, depth + 1) for _ in range(rng.randint(0, 3))])
    if r < 0.82:
        return ("map", [(rstr(rng), rjunk(rng, depth + 1)) for _ in range(rng.randint(0, 3))])
    if r < 0.93:
        # maps with non-string / mixed keys
        n = rng.randint(1, 3)
        keys = [rng.choice([rint(rng), rf64(rng), rf32(rng), ("bool", True), NIL, ("bin", b"k"), rstr(rng), A(), ("map", []),
                            ("ext", -1, b"\0\0\0\1"), I(200, "u8"), I(1), F64(1.0), F64(-1.0), F64(1.5), F32(2.0)])
                for _ in range(n)]
        return ("map", [(k, rjunk(rng, depth + 1)) for k in keys])
    return ("ext", rng.choice([-1, -1, 5, 13, 0]), rng.choice([b"", b"abc", b"\0\0\0\1", b"\0" * 8, b"\0" * 12, b"\1" * 16, b"x" * 20]))


def rtime_elem(rng):
    r = rng.random()
    if r < 0.7:
        z = rng.choice([1_700_000_000, 1_700_000_001, 1_700_000_000_000, 1_700_000_000_000_000, 1_700_000_000_000_000_000,
                        10 ** 10 - 1, 10 ** 10, 10 ** 13 - 1, 10 ** 13, 10 ** 16 - 1, 10 ** 16, 0, -1, -5, 2 ** 63 - 1, -2 ** 63, 2 ** 63, 2 ** 64 - 1,
                        9_223_372_036_854, 9_223_372_036_855, 9_223_372_036_854_775_807 // 1000])
        return rint(rng, z)
    if r < 0.84:
        return rf64(rng)
    if r < 0.95:
        return rf32(rng)
    return rscalar(rng)


def rcolumn(rng, n, name):
    """a column of n elements: a base class with occasional foreign elements / nils"""
    if name == b"time" and rng.random() < 0.85:
        base = rtime_elem(rng)
        if rng.random() < 0.7:
            col = []
            for i in range(n):
                if base[0] == "int" and rng.random() < 0.8:
                    col.append(rint(rng, max(-2 ** 63, min(2 ** 64 - 1, base[2] + rng.randint(0, 5)))))
                else:
                    col.append(rtime_elem(rng))
            if col:
                col[0] = base
            return col
        return [rtime_elem(rng) for _ in range(n)]
    cls = rng.choice(["int", "int", "int", "f64", "f64", "f32", "str", "str", "bool", "nil", "mixed", "intf", "intf", "fint",
                      "strmix", "strmix"])
    if cls == "strmix":
        # string column: optional leading nils, a first string, then valid / invalid UTF-8 strings, bin and nil elements
        bad = [b"\xff\xfe", b"ab\x80cd", b"\xc3", b"\xed\xa0\x80", b"ok\xf0\x9f"]
        lead = rng.choice([0, 0, 1, 1, 2])
        col = [NIL] * min(lead, max(0, n - 1))
        col.append(("str", rng.choice(STRS + bad)))
        while len(col) < n:
            r = rng.random()
            if r < 0.4:
                col.append(("str", rng.choice(bad)))
            elif r < 0.6:
                col.append(("bin", rng.choice([b"zz", b"", b"\xff"])))
            elif r < 0.75:
                col.append(NIL)
            else:
                col.append(rstr(rng))
        return col[:n]
    if cls in ("intf", "fint"):
        # coercion tables: an int column holding floats (toInt64 bounds / truncation) or a float column holding ints
        bound = [F64(2.0 ** 63), F64(-2.0 ** 63), F64(2.0 ** 63 * (1 + 2.0 ** -52)), F64(-2.0 ** 63 * (1 + 2.0 ** -52)),
                 F64(2.0 ** 63 * (1 - 2.0 ** -53)), F32(2.0 ** 63), F32(-2.0 ** 63), F32(2.0 ** 63 * (1 + 2.0 ** -23)),
                 F32(2.0 ** 63 * (1 - 2.0 ** -24)), F64(1.5), F64(-1.5), F32(2.5), F64(float("nan")), F64(1e19), F64(3.0), F64(-0.0)]
        first = rint(rng, rng.randint(-5, 5)) if cls == "intf" else rng.choice([F64(1.5), F32(0.5)])
        col = [first]
        for _ in range(n - 1):
            r = rng.random()
            if r < 0.15:
                col.append(NIL)
            elif cls == "intf":
                col.append(rng.choice(bound) if r < 0.8 else rint(rng))
            else:
                col.append(rint(rng) if r < 0.8 else rng.choice(bound))
        if rng.random() < 0.3:
            col.insert(0, NIL)
            col.pop()
        return col[:n]
    gen = {"int": rint, "f64": rf64, "f32": rf32, "str": rstr, "bool": lambda r: ("bool", r.random() < 0.5),
           "nil": lambda r: NIL, "mixed": rscalar}[cls]
    col = []
    pn = rng.choice([0, 0, 0.3, 0.6])
    pf = rng.choice([0, 0, 0, 0, 0, 0.2])
    for _ in range(n):
        r = rng.random()
        if r < pn:
            col.append(NIL)
        elif r < pn + pf:
            col.append(rng.choice([rint, rf64, rf32, rstr, rscalar, lambda q: rjunk(q, 2)])(rng))
        else:
            col.append(gen(rng))
    return col


def rmeasurement(rng):
    """`m` in every msgpack scalar type: str, every int width, uint64, float32/64, bool, nil, bin; sometimes junk"""
    r = rng.random()
    if r < 0.62:
        return ("str", rng.choice(MEAS))
    if r < 0.80:
        return rint(rng)
    if r < 0.90:
        return rng.choice([F64(2.75), F64(3.0), F32(7.0), F32(2.5), F64(-1.0), F64(0.0), rf64(rng), rf32(rng)])
    if r < 0.92:
        return ("bool", rng.random() < 0.5)
    if r < 0.94:
        return NIL
    if r < 0.96:
        return ("bin", rng.choice([b"cpu", b"", b"\xff"]))
    return rjunk(rng, 2)


def gen_columnar(rng):
    n = rng.choice([1, 1, 2, 3, 4])
    ncols = rng.choice([1, 2, 2, 3, 3, 4, 5])
    names = [rng.choice(COLNAMES) for _ in range(ncols)]
    if rng.random() < 0.55 and b"time" not in names:
        names[rng.randrange(len(names))] = b"time"
    if rng.random() < 0.7:
        # mostly distinct names
        seen, out = set(), []
        for x in names:
            while x in seen:
                x = x + b"%d" % rng.randint(0, 9)
            seen.add(x)
            out.append(x)
        names = out
    cols = []
    for name in names:
        r = rng.random()
        if r < 0.88:
            ln = n if rng.random() < 0.96 else rng.choice([0, n + 1, max(0, n - 1)])
            v = ("arr", rcolumn(rng, ln, name))
        else:
            v = rng.choice([rint(rng), rstr(rng), NIL, rjunk(rng, 1), ("ext", 5, b"ab"), ("ext", -1, b"\0\0\0\1"), ("bin", b"zz"), ("map", [])])
        key = ("str", name)
        if rng.random() < 0.03:
            key = rng.choice([rint(rng), ("bin", name), NIL])
        cols.append((key, v))
    colval = ("map", cols)
    if rng.random() < 0.04:
        colval = rng.choice([NIL, A(), ("map", []), rint(rng)])
    top = [(S("m"), rmeasurement(rng)), (S("columns"), colval)]
    if rng.random() < 0.1:
        top.pop(0)
    # extra keys
    for _ in range(rng.choice([0, 0, 0, 1, 1, 2])):
        r = rng.random()
        if r < 0.55:
            top.append((("str", rng.choice([b"x", b"meta", b"t", b"h", b"tags", b"fields", b"f"])), rjunk(rng)))
        elif r < 0.65:
            top.append((S("m"), rmeasurement(rng)))
        elif r < 0.72:
            top.append((S("columns"), ("map", [(S("z"), A(I(1)))])))
        elif r < 0.82:
            top.append((S("batch"), rng.choice([A(), NIL, I(1), A(M(("m", S("b")), ("columns", M(("q", A(I(1)))))))])))
        else:
            top.append((rng.choice([rint(rng), NIL, ("bin", b"m"), ("bool", True)]), rjunk(rng)))
    rng.shuffle(top)
    return ("map", top)


def gen_row(rng):
    top = []
    if rng.random() < 0.92:
        top.append((S("m"), rmeasurement(rng)))
    if rng.random() < 0.7:
        top.append((S("t"), rng.choice([rtime_elem(rng), rtime_elem(rng), NIL, rstr(rng)])))
    if rng.random() < 0.5:
        top.append((S("h"), rng.choice([rstr(rng), rint(rng), NIL, rf64(rng)])))
    r = rng.random()
    if r < 0.7:
        top.append((S("fields"), ("map", [(("str", rng.choice([b"v", b"w", b"s", b"v"])), rng.choice([rscalar(rng), rjunk(rng, 1)]))
                                          for _ in range(rng.randint(0, 3))])))
    elif r < 0.85:
        top.append((S("f"), rng.choice([A(*[rscalar(rng) for _ in range(rng.randint(0, 3))]), NIL, rint(rng)])))
    elif r < 0.9:
        top.append((S("fields"), rng.choice([NIL, A(), rint(rng)])))
    if rng.random() < 0.5:
        top.append((S("tags"), rng.choice([("map", [(("str", rng.choice([b"dc", b"host", b"r"])), rng.choice([rstr(rng), rint(rng), ("bool", True), NIL]))
                                                    for _ in range(rng.randint(0, 3))]), NIL, rint(rng)])))
    rng.shuffle(top)
    return ("map", top)


def gen_item(rng):
    return gen_columnar(rng) if rng.random() < 0.6 else gen_row(rng)


def gen_batch(rng, depth=0):
    items = []
    for _ in range(rng.randint(0, 3)):
        r = rng.random()
        if r < 0.75:
            items.append(gen_item(rng))
        elif r < 0.85 and depth < 2:
            items.append(gen_batch(rng, depth + 1))
        else:
            items.append(rjunk(rng, 1))
    top = [(S("batch"), ("arr", items))]
    if rng.random() < 0.3:
        top.append((S("m"), S("ignored")))
    if rng.random() < 0.2:
        top.append((S("columns"), M(("a", A(I(1))))))
    rng.shuffle(top)
    return ("map", top)


def gen_array(rng):
    items = []
    for _ in range(rng.randint(0, 3)):
        r = rng.random()
        if r < 0.7:
            items.append(gen_item(rng))
        elif r < 0.85:
            items.append(gen_batch(rng, 1))
        else:
            items.append(rjunk(rng, 1))
    return ("arr", items)


def gen_ast(rng):
    r = rng.random()
    if r < 0.72:
        return gen_columnar(rng)
    if r < 0.84:
        return gen_row(rng)
    if r < 0.91:
        return gen_batch(rng)
    if r < 0.97:
        return gen_array(rng)
    return rjunk(rng)


def witnesses():
    """the regression witnesses of Props.v (inputs on which the code before 1ff6fb4 differed) and their neighbours, always run first"""
    t = ("time", A(I(1_700_000_000), I(1_700_000_001)))
    w = {
        "dup-later-nonarray": M(("m", S("cpu")), ("columns", M(("time", A(I(1_700_000_000))), ("a", A(I(1))), ("a", I(5))))),
        "dup-later-nonarray-only-column": M(("m", S("cpu")), ("columns", M(("a", A(I(1))), ("a", I(5))))),
        "dup-earlier-nonarray": M(("m", S("cpu")), ("columns", M(("time", A(I(1_700_000_000))), ("a", I(5)), ("a", A(I(1)))))),
        "dup-two-arrays": M(("m", S("cpu")), ("columns", M(("time", A(I(1_700_000_000))), ("a", A(I(2))), ("a", A(I(1)))))),
        "skip-unknown-ext": M(("m", S("cpu")), ("columns", M(("time", A(I(1_700_000_000))), ("a", A(I(1))))), ("x", ("ext", 5, b"ab"))),
        "skip-column-ext": M(("m", S("cpu")), ("columns", M(("time", A(I(1_700_000_000))), ("a", A(I(1))), ("b", ("ext", 5, b"ab"))))),
        "skip-mixed-key-map": M(("m", S("cpu")), ("columns", M(("time", A(I(1_700_000_000))), ("a", A(I(1))))), ("x", ("map", [(I(1), I(2)), (S("a"), I(3))]))),
        "skip-nil-key-map-panics": M(("m", S("cpu")), ("columns", M(("time", A(I(1_700_000_000))), ("a", A(I(1))))), ("x", ("map", [(NIL, I(2))]))),
        "skip-decodable-junk": M(("m", S("cpu")), ("columns", M(("time", A(I(1_700_000_000))), ("a", A(I(1))))), ("x", ("map", [(I(1), I(2)), (I(2), A(S("q")))]))),
        "plain": M(("m", S("cpu")), ("columns", M(t, ("a", A(I(1), NIL)), ("s", A(S("x"), S("y\xff"))), ("f", A(F32(1.5), I(2))), ("n", A(NIL, NIL))))),
        "no-time": M(("m", I(7)), ("columns", M(("a", A(I(1), NIL))))),
    }
    return w


# byte mutations -------------------------------------------------------------------------

def mutate(rng, data):
    data = bytearray(data)
    r = rng.random()
    if r < 0.25 and len(data) > 1:
        return bytes(data[:rng.randrange(1, len(data))]), "truncate"
    if r < 0.4:
        return bytes(data) + bytes(rng.getrandbits(8) for _ in range(rng.randint(1, 4))), "trailing"
    if r < 0.6 and len(data) > 2:
        i = rng.randrange(len(data))
        data[i] = rng.choice([0xc0, 0xc1, 0xc4, 0xc7, 0xd4, 0xd9, 0xdc, 0xdd, 0xde, 0xdf, 0x90, 0x80, 0xa0, 0xcf, 0xd3, 0xca, 0xcb, 0xc2, rng.getrandbits(8)])
        return bytes(data), "code-swap"
    if r < 0.8:
        # oversized length header: replace a fix-array / fix-map / fix-str header by a 32-bit one claiming a huge length
        idx = [i for i, b in enumerate(data) if 0x80 <= b <= 0xbf]
        if idx:
            i = rng.choice(idx)
            b = data[i]
            code = 0xdf if b <= 0x8f else (0xdd if b <= 0x9f else 0xdb)
            n = rng.choice([2 ** 20 + 1, 2 ** 31, 2 ** 32 - 1, 2 ** 24, 70000])
            return bytes(data[:i]) + bytes([code]) + struct.pack(">I", n) + bytes(data[i + 1:]), "oversize-header"
    if len(data) > 2:
        i = rng.randrange(len(data))
        data[i] ^= 1 << rng.randrange(8)
        return bytes(data), "bitflip"
    return bytes(data) + b"\x00", "trailing"


# ---------------------------------------------------------------------------------------
# harness and Coq plumbing
# ---------------------------------------------------------------------------------------

def run_impl(cases, tag):
    """cases: [{id, hex, now_on, now_off, strs}] -> harness results"""
    out = vlib.run_go_harness("C02", "./internal/ingest/", "^TestVerifMsgPack$", HARNESS, cases, rewrites=REWRITES, tag=tag)
    if len(out) != len(cases):
        raise vlib.TieBroken("C02 harness returned %d results for %d cases" % (len(out), len(cases)))
    return out


def hexb(h):
    return mp.cbytes(bytes.fromhex(h))


def box_to_coq(j):
    t = j[0]
    if t == "nil":
        return "GNil"
    if t == "bool":
        return "(GBool %s)" % ("true" if j[1] == "1" else "false")
    if t in ("i8", "i16", "i32", "i64", "u8", "u16", "u32", "u64"):
        return "(GInt K%s (%s))" % (t.upper(), j[1])
    if t == "f32":
        return "(GF32 %s%%N)" % j[1]
    if t == "f64":
        return "(GF64 %s%%N)" % j[1]
    if t == "str":
        return "(GStr %s)" % hexb(j[1])
    if t == "bin":
        return "(GBin %s)" % hexb(j[1])
    if t == "arr":
        return "(GArr [" + ";".join(box_to_coq(x) for x in j[1]) + "])"
    if t == "map":
        return "(GMap [" + ";".join("(%s,%s)" % (hexb(k), box_to_coq(v)) for k, v in j[1]) + "])"
    return "GTMap"


def col_to_coq(c):
    t = c["t"]
    v = c["v"] or []
    if t == "i64":
        data = "CI64 [" + ";".join("(%s)" % x for x in v) + "]"
    elif t == "f64":
        data = "CF64 [" + ";".join("%s%%N" % x for x in v) + "]"
    elif t == "str":
        data = "CStr [" + ";".join(hexb(x) for x in v) + "]"
    elif t == "bool":
        data = "CBool [" + ";".join("true" if x == "1" else "false" for x in v) + "]"
    else:
        raise vlib.TieBroken("C02 harness saw a column of Go type %s" % t)
    valid = "None" if c["valid"] is None else "(Some [" + ";".join("true" if x else "false" for x in c["valid"]) + "])"
    return "(%s, (%s, %s))" % (hexb(c["name"]), data, valid)


def rec_to_coq(r):
    k = r["k"]
    if k == "col":
        if r.get("conv_err"):
            return "(ICol %s None)" % hexb(r["m"])
        if r.get("extra"):
            raise vlib.TieBroken("C02 harness: batch shape anomaly %s" % r["extra"])
        return "(ICol %s (Some {| b_n := %d; b_cols := [%s] |}))" % (
            hexb(r["m"]), r["n"], ";".join(col_to_coq(c) for c in (r.get("cols") or [])))
    if k == "row":
        fields = "[" + ";".join("(%s,%s)" % (hexb(a), box_to_coq(b)) for a, b in (r.get("fields") or [])) + "]"
        tags = "[" + ";".join("(%s, TagS %s)" % (hexb(a), hexb(b)) for a, b in (r.get("tags") or [])) + "]"
        return "(IRow %s (%d) (%d) %s %s)" % (hexb(r["m"]), r.get("sec", 0), r.get("nsec", 0), fields, tags)
    return "IBad"


def outcome_to_coq(o):
    if o["err"] == "decode":
        return "OErr"
    if o["err"] == "panic":
        return "OPanic"
    return "(OOk [" + ";".join(rec_to_coq(r) for r in (o["recs"] or [])) + "])"


def case_to_coq(ast, now_on, now_off, res):
    san = "[" + ";".join("(%s,%s)" % (hexb(a), hexb(b)) for a, b in res["san"] if a != b) + "]"
    on, off = outcome_to_coq(res["on"]), outcome_to_coq(res["off"])
    return ("{| c_ast := %s; c_now_on := %d; c_now_off := %d; c_san := %s; c_on_obs := %s; c_off := %s; c_hit := %s |}"
            % (mp.to_coq(ast), now_on, now_off, san, "None" if on == off else "(Some %s)" % on, off,
               "true" if res["on"]["typed"] else "false"))


def mk_input(i, ast, data=None, now_on=NOW_ON, now_off=NOW_OFF):
    if data is None:
        data = mp.encode(ast)
    strs = sorted(mp.strings_of(ast)) if ast is not None else []
    return {"id": i, "hex": data.hex(), "now_on": now_on, "now_off": now_off, "strs": [s.hex() for s in strs]}


def check_cases(terms, name, chunk=None, workers=None):
    """Evaluate Model.case_flags on every case term inside coqc (vm_compute); chunks run in
    parallel processes because elaborating the case terms, not computing, dominates.
    -> {pred: set of indices where the predicate is FALSE}"""
    from concurrent.futures import ThreadPoolExecutor
    workers = workers or max(2, min(8, vlib.NCPU // 2))
    # one round of `workers` chunks: every coqc pays a fixed cost for loading the libraries
    chunk = chunk or min(1500, max(60, -(-len(terms) // workers)))
    chunks = [(off, terms[off:off + chunk]) for off in range(0, len(terms), chunk)]

    def one(job):
        off, part = job
        src = HEADER + "Definition verif_cases : list mcase := [\n" + ";\n".join(part) + "].\n"
        src += "Definition verif_flags := Eval vm_compute in map case_flags verif_cases.\nPrint verif_flags.\n"
        rc, out = vlib.coq_eval("C02", "%s_%d" % (name, off), src)
        m = re.search(r"verif_flags\s*=\s*(\[[^\]]*\]|nil)", out)
        if rc != 0 or not m:
            raise vlib.InfraError("case evaluation failed (%s_%d): %s" % (name, off, out[-2500:]))
        flags = [int(x) for x in re.findall(r"\d+", m.group(1))]
        if len(flags) != len(part):
            raise vlib.InfraError("case evaluation returned %d flags for %d cases" % (len(flags), len(part)))
        return off, flags

    fails = {k: set() for k, _ in PRED_BITS}
    with ThreadPoolExecutor(max_workers=workers) as ex:
        for off, flags in ex.map(one, chunks):
            for j, f in enumerate(flags):
                for k, bit in PRED_BITS:
                    if not f & bit:
                        fails[k].add(off + j)
    return fails


def evaluate(asts, inputs, tag, name):
    """run the harness on `inputs` and the model on the (ast, observation) pairs -> (results, failing index sets)"""
    res = run_impl(inputs, tag)
    terms = [case_to_coq(a, i["now_on"], i["now_off"], r) for a, i, r in zip(asts, inputs, res)]
    return res, check_cases(terms, name)


# shrinking ------------------------------------------------------------------------------

def shrink_candidates(a):
    """smaller ASTs: drop one list element / map entry anywhere, or replace a subtree by nil"""
    t = a[0]
    out = []
    if t == "arr":
        for i in range(len(a[1])):
            out.append(("arr", a[1][:i] + a[1][i + 1:]))
        for i, x in enumerate(a[1]):
            for c in shrink_candidates(x):
                out.append(("arr", a[1][:i] + [c] + a[1][i + 1:]))
    elif t == "map":
        for i in range(len(a[1])):
            out.append(("map", a[1][:i] + a[1][i + 1:]))
        for i, (k, v) in enumerate(a[1]):
            for c in shrink_candidates(v):
                out.append(("map", a[1][:i] + [(k, c)] + a[1][i + 1:]))
    elif t in ("str", "bin") and len(a[1]) > 1:
        out.append((t, a[1][:1]))
    elif t == "int" and a[2] not in (0, 1):
        out.append(I(1))
    return out


def shrink(ast, pred_name, want_fail=True, rounds=12):
    """greedy: evaluate all one-step candidates in one harness+coq batch, keep the first that still fails `pred_name`"""
    cur = ast
    for _ in range(rounds):
        cands = shrink_candidates(cur)[:250]
        if not cands:
            break
        inputs = [mk_input(i, c) for i, c in enumerate(cands)]
        _, fails = evaluate(cands, inputs, "shrink", "Shrink")
        hit = sorted(fails[pred_name])
        if not hit:
            break
        cur = cands[hit[0]]
    return cur


# ---------------------------------------------------------------------------------------

def check_anchor():
    """internal/api/msgpack.go must still disable the fast path when decimal columns exist"""
    p = os.path.join(vlib.REPO, "internal/api/msgpack.go")
    try:
        text = open(p).read()
    except OSError as e:
        raise vlib.TieBroken("cannot read internal/api/msgpack.go: %s" % e)
    m = re.search(r"func NewMsgPackHandler\(.*?\n}\n", text, re.S)
    if not m or not re.search(r"SetTypedDecodeEnabled\(\s*!\s*arrowBuffer\.HasDecimalColumns\(\)\s*\)", m.group(0)):
        raise vlib.TieBroken("NewMsgPackHandler no longer calls decoder.SetTypedDecodeEnabled(!arrowBuffer.HasDecimalColumns()): "
                             "the model (no decimal conversion) does not cover the typed path of decimal deployments")
    calls = vlib.goast("calls", "^SetTypedDecodeEnabled$", "cmd", "internal")
    prod = [c for c in calls if not c["file"].endswith("_test.go")]
    return {"SetTypedDecodeEnabled_call_sites": ["%s:%d %s" % (c["file"], c["line"], c["args"]) for c in prod]}


def nontrivial(ast):
    """columnar payload with >= 2 array columns and >= 1 nil or mixed-width column"""
    if ast is None or ast[0] != "map":
        return False
    for k, v in ast[1]:
        if k == ("str", b"columns") and v[0] == "map":
            arrs = [x for _, x in v[1] if x[0] == "arr"]
            if len(arrs) < 2:
                return False
            for x in arrs:
                kinds = {(e[0], e[1]) if e[0] == "int" else (e[0],) for e in x[1]}
                if ("nil",) in kinds or len(kinds) >= 2:
                    return True
    return False


def shape(ast):
    if ast is None:
        return "unparsed-bytes"
    if ast[0] == "arr":
        return "array"
    if ast[0] != "map":
        return "scalar"
    keys = [k[1] for k, _ in ast[1] if k[0] == "str"]
    if b"batch" in keys:
        return "batch"
    if b"columns" in keys:
        return "columnar"
    return "row"


def setup():
    pass


def warm():
    run_impl([], "warm")


def summarize(o):
    if o["err"]:
        return o["err"]
    return "ok:" + ",".join(("%s(%s)" % (r["k"], "conv-err" if r.get("conv_err") else len(r.get("cols") or r.get("fields") or []))) for r in (o["recs"] or []))


def run(res, tier, seed):
    rng = random.Random(seed * 7919 + 2)
    t0 = time.time()
    try:
        anchor = check_anchor()
    finally:
        res.stage("anchor_check", t0)
    res.cov["params"] = anchor

    nstruct, nmut = (1500, 400) if tier == "quick" else (40000, 10000)
    t1 = time.time()
    wit = witnesses()
    asts, labels = list(wit.values()), list(wit.keys())
    corpus_dir = os.path.join(vlib.ROOT, "corpus", "C02")
    if os.path.isdir(corpus_dir):
        for fn in sorted(os.listdir(corpus_dir)):
            if fn.endswith(".json"):
                obj = json.load(open(os.path.join(corpus_dir, fn)))
                asts.append(mp.from_json(obj["ast"]))
                labels.append("corpus:" + fn)
    for _ in range(nstruct):
        asts.append(gen_ast(rng))
        labels.append("gen")
    datas = [mp.encode(a, rng) for a in asts]
    inputs = [mk_input(i, a, d) for i, (a, d) in enumerate(zip(asts, datas))]
    # byte-mutation stream (same clock in both runs: outcomes must be identical)
    mut_inputs, mut_kinds = [], []
    for j in range(nmut):
        base = datas[rng.randrange(len(datas))]
        d, kind = mutate(rng, base)
        if rng.random() < 0.2:
            d, k2 = mutate(rng, d)
            kind += "+" + k2
        p = mp.parse(d)
        a = p[0] if p else None
        inp = mk_input(len(inputs) + j, a, d, NOW_ON, NOW_ON)
        mut_inputs.append((a, inp))
        mut_kinds.append(kind)
    all_inputs = inputs + [i for _, i in mut_inputs]
    # the Go harness runs while the Coq development is built and its assumptions are printed
    import threading
    box = {}

    def _harness():
        try:
            box["out"] = run_impl(all_inputs, tier)
        except BaseException as e:      # re-raised in the main thread
            box["err"] = e
        box["wall"] = time.time() - t1

    th = threading.Thread(target=_harness)
    th.start()
    failed = vlib.std_proof_stage(res, "C02", AREA, MODULES, THEOREMS)
    if tier == "thorough":
        ok, _ = vlib.coqchk_stage(res, MODULES)
        if not ok:
            failed.append(("coqchk", "coqchk did not accept the compiled development"))
    res.cov["trusted_base"] += [
        "byte -> AST parse of the Basekick-Labs/msgpack v6 fork is the same function for Unmarshal and for the streaming Decoder calls of the typed path (oracle; supported by the byte-mutation stream: typed-on = typed-off on mutated encodings)",
        "float semantics and SanitizeUTF8 are parameters (record ops) of every theorem; the correspondence instantiates them with Model.go_ops (IEEE-754 bit-level functions, amd64 conversion results) and the SanitizeUTF8 images observed on the Go side",
        "int64(float32 x) = int64(float64(x)) and the float32 bound test of toInt64 equals the float64 test on the widened value (IEEE: widening is exact, float32(MaxInt64) = 2^63)",
        "time.Now is a parameter (separate clocks for the two runs); ArrowBuffer.Write after the typing chokepoint is the same code for both record types (buffering, WAL raw payload), not modelled here",
        "row-format tag values formatted with fmt %v of floats/bin/nested values are not predicted by the model (compared as wildcard); rowsToColumnar of row records is outside this model (same code in both modes)",
        "decimal-column deployments never take the typed path (anchor check on NewMsgPackHandler each run)",
    ]

    th.join()
    res.stages["impl_harness"] = round(box.get("wall", 0.0), 2)
    if "err" in box:
        raise box["err"]
    out = box["out"]

    t2 = time.time()
    sres, mres = out[:len(inputs)], out[len(inputs):]
    # mutated byte strings that still are a complete value join the model comparison
    m_asts = [a for a, _ in mut_inputs if a is not None]
    m_inps = [i for a, i in mut_inputs if a is not None]
    m_res = [r for (a, _), r in zip(mut_inputs, mres) if a is not None]
    all_asts = asts + m_asts
    all_inps = inputs + m_inps
    all_res = sres + m_res
    terms = [case_to_coq(a, i["now_on"], i["now_off"], r) for a, i, r in zip(all_asts, all_inps, all_res)]
    fails = check_cases(terms, "Cases_" + tier)
    res.stage("coq_eval", t2)

    # unparsable byte strings: both modes must reject identically
    raw_bad = []
    for (a, inp), r, kind in zip(mut_inputs, mres, mut_kinds):
        if a is None:
            on, off = dict(r["on"]), dict(r["off"])
            on.pop("typed", None), off.pop("typed", None)
            if json.dumps(on, sort_keys=True) != json.dumps(off, sort_keys=True) or not on["err"]:
                raw_bad.append((inp, r, kind))

    known = vlib.known_for("C02")
    known_sigs = {e["signature"]: e for e in known}
    orf = sorted(fails["oracle"])
    in_dup = fails["notdup"]
    in_skip = fails["notskip"]
    # a known finding that was FIXED in the code: inside an excluded class the implementation no longer
    # differs between the modes and both runs equal the generic model -> not a disagreement (DESIGN.md section 4)
    fixed_cases = {i for i in fails["agree"] if (i in in_dup or i in in_skip) and i not in fails["oracle"]
                   and i not in fails["offagree"]}
    dis = sorted(fails["agree"] - fixed_cases)
    model_diff = fails["modelsame"]

    res.cov["evaluations"] = len(all_inputs)
    keys = {mp.encode(a).hex() for a in all_asts if nontrivial(a)}
    res.cov["distinct_nontrivial"] = len(keys)
    res.cov["rule"] = ("ASTs from a grammar of columnar / row / batch / array payloads (all integer widths, float32/64 edge bit patterns, "
                       "invalid UTF-8, nils, all-nil and mixed columns, duplicate / non-string keys, non-array column values, length "
                       "mismatches, junk values incl. ext and non-string-keyed maps) encoded with random header widths, plus mutated "
                       "encodings; non-trivial = columnar payload with >= 2 array columns and >= 1 column containing a nil or >= 2 "
                       "element encodings; distinct by canonical encoding")
    res.cov["model_vs_impl_disagreements"] = len(dis)
    res.cov["oracle_failures"] = len(orf) + len(raw_bad)
    hist = {"shape": {}, "mutation_kinds": {}, "typed_hits": 0, "outcome_on": {}, "outcome_off": {}}
    for a in all_asts:
        hist["shape"][shape(a)] = hist["shape"].get(shape(a), 0) + 1
    hist["shape"]["unparsed-bytes"] = sum(1 for a, _ in mut_inputs if a is None)
    for k in mut_kinds:
        hist["mutation_kinds"][k.split("+")[0]] = hist["mutation_kinds"].get(k.split("+")[0], 0) + 1
    for r in out:
        hist["typed_hits"] += 1 if r["on"]["typed"] else 0
        for side in ("on", "off"):
            o = r[side]
            key = o["err"] or ("ok-conv-err" if any(x.get("conv_err") for x in (o["recs"] or [])) else "ok")
            hist["outcome_" + side][key] = hist["outcome_" + side].get(key, 0) + 1
    hist["in_class_dup_later_nonarray"] = len(in_dup)
    hist["in_class_skipped_value_undecodable"] = len(in_skip)
    hist["structured_cases"] = len(inputs)
    hist["mutated_cases"] = len(mut_inputs)
    hist["mutated_still_parsable"] = len(m_asts)
    res.cov["histogram"] = hist
    res.cov["samples"] = [{"ast": mp.to_json(all_asts[i]), "hex": all_inps[i]["hex"], "on": summarize(all_res[i]["on"]), "off": summarize(all_res[i]["off"])}
                          for i in (0, len(wit) + 3, len(all_asts) - 1) if i < len(all_asts)]

    # ---- 1. typed-on differs from typed-off on the real code: the property fails on the implementation.
    # Reported first and always with the concrete (shrunk, re-evaluated) payload.
    reproduced = {}
    unexplained = []
    for i in orf:
        sigs = []
        if i in in_dup:
            sigs.append("duplicate-column-key-later-value-not-array")
        if i in in_skip:
            sigs.append("typed-path-skips-value-the-generic-decode-rejects")
        sig = next((s for s in sigs if s in known_sigs), None)
        if sig and i not in fails["agree"]:
            reproduced.setdefault(sig, []).append(i)
        else:
            unexplained.append(i)
    for sig, idxs in reproduced.items():
        e = known_sigs[sig]
        res.known_finding("%s [signature=%s, %d generated inputs, model predicts each outcome]" % (e["what"], sig, len(idxs)))
    if unexplained:
        i = unexplained[0]
        small = shrink(all_asts[i], "oracle")
        inp = mk_input(0, small)
        r1, f1 = evaluate([small], [inp], "shrink", "Shrink")
        if not f1["oracle"]:            # shrinking must keep the difference; fall back to the original case
            small, inp = all_asts[i], mk_input(0, all_asts[i])
            r1, f1 = evaluate([small], [inp], "shrink", "Shrink")
        res.violation("typed decode on/off give different results on the real code (%d cases); model %s this outcome"
                      % (len(unexplained), "does not predict" if f1["agree"] else "predicts"),
                      {"kind": "oracle", "ast": mp.to_json(small), "hex": inp["hex"], "observed": r1[0], "cases": len(unexplained),
                       "typed_on_differs_from_typed_off": bool(f1["oracle"]), "model_disagrees": bool(f1["agree"]),
                       "disagreeing_cases": len(dis), "correspondence": TIE_NAME,
                       "how_to_replay": "python3 tools/check.py C02 --replay <this file>"}, suffix="oracle")
    if raw_bad:
        inp, r, kind = raw_bad[0]
        res.violation("typed decode on/off differ on a byte string that is not a complete msgpack value (%s; %d cases)" % (kind, len(raw_bad)),
                      {"kind": "oracle-bytes", "hex": inp["hex"], "observed": r, "mutation": kind,
                       "how_to_replay": "python3 tools/check.py C02 --replay <this file>"}, suffix="bytes")

    # ---- 2. model / implementation disagreement without any on/off difference: the tie is broken
    if dis and not res.violations:
        i = dis[0]
        small = shrink(all_asts[i], "agree") if len(dis) < 400 else all_asts[i]
        inp = mk_input(0, small)
        r1, f1 = evaluate([small], [inp], "shrink", "Shrink")
        res.violation("model and implementation disagree on a payload (%d cases)" % len(dis),
                      {"kind": "correspondence", "correspondence": TIE_NAME, "ast": mp.to_json(small), "hex": inp["hex"],
                       "observed": r1[0], "disagreeing_cases": len(dis), "oracle_fails_on_impl": bool(f1["oracle"]),
                       "how_to_replay": "python3 tools/check.py C02 --replay <this file>"},
                      no_input=not f1["oracle"], suffix="corr")
    # the model predicts a difference exactly where the implementation shows one (inside the classes)
    res.cov["known_class_cases_now_equal_in_both_modes"] = len(fixed_cases)
    res.cov["model_predicts_difference"] = len(model_diff)
    res.cov["impl_shows_difference"] = len(orf)

    # ---- 3. proof obligations
    if failed:
        reported = bool(res.violations)
        if not reported:
            # search for a concrete failing input: an oracle failure outside the guard
            outside = [i for i in orf if i not in in_dup and i not in in_skip]
            if outside:
                i = outside[0]
                res.violation("proof obligation(s) no longer check and the real code differs between modes on an input inside the guard",
                              {"kind": "obligation-failed", "theorems": [t for t, _ in failed], "ast": mp.to_json(all_asts[i]), "hex": all_inps[i]["hex"]},
                              suffix="obligation")
            else:
                res.violation("proof obligation(s) no longer check: " + "; ".join(r for _, r in failed),
                              {"kind": "obligation-failed", "theorems": [t for t, _ in failed], "detail": [r for _, r in failed]},
                              no_input=True, suffix="obligation")


def replay(res, path):
    obj = json.load(open(path))
    if "hex" not in obj:
        print("replay file names no concrete input:", obj.get("summary"))
        return 1
    data = bytes.fromhex(obj["hex"])
    p = mp.parse(data)
    ast = p[0] if p else None
    inp = mk_input(0, ast, data)
    r = run_impl([inp], "replay")[0]
    print("typed on :", json.dumps(r["on"])[:1500])
    print("typed off:", json.dumps(r["off"])[:1500])
    if ast is None:
        same = json.dumps({k: v for k, v in r["on"].items() if k != "typed"}, sort_keys=True) == \
            json.dumps({k: v for k, v in r["off"].items() if k != "typed"}, sort_keys=True)
        print("not a complete msgpack value; outcomes identical:", same)
        return 0 if same else 1
    terms = [case_to_coq(ast, inp["now_on"], inp["now_off"], r)]
    fails = check_cases(terms, "Replay")
    print("model disagrees:", bool(fails["agree"]), "| typed-on differs from typed-off:", bool(fails["oracle"]),
          "| in class dup-later-nonarray:", bool(fails["notdup"]), "| in class skipped-undecodable:", bool(fails["notskip"]))
    return 1 if (fails["agree"] or fails["oracle"]) else 0
