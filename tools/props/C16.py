"""C16 - query answers match DuckDB's semantics for the same SQL (area SqlAst; the rewriting half).

Proof: coq/theories/SqlAst (Props.v: C16_transform_is_subst[_header]: on every token list of the class
the rewriting passes of convertSQLToStoragePaths[WithHeaderDB] are exactly the substitution of the table
references; C16_join_kind_preserved; the shapes on which they are not, with witnesses).
Tie: each statement is sent to the REAL query endpoint (app.Test, tags "verif duckdb_arrow", random Parquet
data set: three databases, several files per measurement in hour/day partitions, nullable columns, a
column that only later files have) and, as the very same text, to a plain DuckDB that has one view per
measurement over exactly the same files (default schema = the header database / `default`), through the
same JSON streamer.  Rows are compared as multisets (in order when the statement orders totally); both
failing counts as agreement.  Every request is sent twice (transform cache) and the executed text of the
first one is compared with the model (gate_case_agrees)."""
import json
import os
import random
import time
from collections import Counter

import vlib
import lib_sqlast as L

AREA = "SqlAst"
MODULES = ["Arc.SqlAst.Props"]
THEOREMS = [("Arc.SqlAst.Props", t) for t in [
    "C16_current_transform_is_subst", "C16_quoted_cte_declaration", "C16_transform_is_subst", "C16_transform_is_subst_header", "C16_join_kind_preserved",
    "C16_comma_join_unrewritten", "C16_read_parquet_in_literal_unrewritten", "C16_header_cte_rewritten",
    "C16_cte_scope_blind", "C16_lateral_newline_rewritten", "C16_fast_path_misses_references", "C16_skip_prefix_unrewritten",
]]
TIE_NAME = ("C16 correspondence (POST /api/v1/query via app.Test vs a plain DuckDB with views over the same Parquet files; "
            "executed text vs Arc.SqlAst.Model.gate)")


def rows_of(data):
    if data is None:
        return []
    return data if isinstance(data, list) else json.loads(data)


def same_answer(o, total_order):
    """Arc's answer vs the reference answer"""
    arc_ok = o.get("status") == 200 and o.get("success")
    ref_ok = bool(o.get("ref_ok"))
    if not arc_ok and not ref_ok:
        return True, "both-fail"
    if arc_ok != ref_ok:
        return False, "arc-%s/ref-%s" % ("ok" if arc_ok else "fails", "ok" if ref_ok else "fails")
    a, b = rows_of(o.get("data")), rows_of(o.get("ref_data"))
    if [c.lower() for c in (o.get("columns") or [])] != [c.lower() for c in (o.get("ref_columns") or [])]:
        return False, "columns-differ"
    if total_order:
        return (a == b), "rows-differ-in-order"
    ka = sorted(json.dumps(r, sort_keys=True) for r in a)
    kb = sorted(json.dumps(r, sort_keys=True) for r in b)
    return (ka == kb), "rows-differ"


def signature(case, m, fl, o):
    sql = case["sql"]
    lo = sql.lower()
    if m.get("sig"):
        return m["sig"]
    if "cte-quoting:decl-quoted:ref-bare" in m["labels"] and not (L.FIXBITS & 128):
        return "quoted-cte-declaration-bare-reference"
    if "read_parquet" in lo:
        return "read-parquet-text-disables-rewrite"
    if case["hdr"] and not fl["hdr_ctes_ok"]:
        return "header-cte-names-differ-from-permission-check"
    if case["hdr"] and not fl["slow_path"]:
        return "header-fast-path-misses-references"
    return "unclassified"


def build_cases(rng, tier):
    n_valid = 230 if tier == "quick" else 2500
    cases, meta = [], []
    for sig, sql, hdrs in L.UNSUPPORTED:
        for h in hdrs:
            cases.append(L.mk_case(sql, h, allow=["*"], reads=False, ref=True, twice=True))
            meta.append({"src": "unsupported", "sig": sig, "labels": [], "disguises": [], "total_order": False})
    # CTE declared quoted/bare x referenced quoted/bare x FROM/JOIN x header on/off x same-named measurement or not
    for sql, hdr, label in L.cte_quoting_matrix():
        cases.append(L.mk_case(sql, hdr, allow=["*"], reads=False, ref=True, twice=False))
        meta.append({"src": "grammar", "labels": ["cte", label], "disguises": ["quoted-name"] if "quoted" in label else [], "total_order": False})
    # request pairs on one handler within the transform-cache TTL: the oracle is evaluated on the SECOND response
    for label, pre, sql, hdr, allow in L.cache_pairs():
        if label == "quoted-identifier-case":
            continue                          # (CPU vs cpu is the identifier-case finding; C14 runs these pairs)
        cases.append(L.mk_case(sql, hdr, allow=["*"], reads=False, ref=True, pre=pre))
        meta.append({"src": "grammar", "labels": ["pair:" + label], "disguises": [], "total_order": False})
    for _ in range(n_valid):
        g = L.generate_valid(rng)
        cases.append(L.mk_case(g["sql"], g["hdr"], allow=["*"], reads=False, ref=True, twice=rng.random() < 0.5))
        meta.append({"src": "grammar", "labels": g["labels"], "disguises": g["disguises"], "total_order": g["total_order"]})
    return cases, meta


def nontrivial(c, m):
    return sum(1 for l in m["labels"] if l.startswith("join:")) >= 1 or "cte" in m["labels"] or "subquery" in m["labels"]


def setup():
    pass


def warm():
    L.run_cases("C16", [], "warm")


def run(res, tier, seed):
    rng = random.Random(seed * 7919 + 16)
    failed = vlib.std_proof_stage(res, "C16", AREA, MODULES, THEOREMS)
    if tier == "thorough":
        ok, _ = vlib.coqchk_stage(res, MODULES)
        if not ok:
            failed.append(("coqchk", "coqchk rejects the compiled development"))
    res.cov["trusted_base"] += [
        "DuckDB's semantics is the oracle: the reference answer is what a plain DuckDB with views over the same Parquet files returns for the same text; "
        "that a statement in which the table references were substituted by read_parquet of the same files has the same answer is DuckDB's compositionality (not proved)",
        "the regular expressions of query.go are read at token level (see C14); the model's executed text is compared with the handler's on every case",
        "the rewrites of time functions / LIKE / regexp (C17) and time-literal pruning (C18) are not triggered by the generated statements",
        "rows are compared after the handler's own typed-JSON streamer on both sides (value formatting is property C19)",
    ]
    t0 = time.time()
    known = {e["signature"]: e for e in vlib.known_for("C16")}
    files = L.dataset_files(rng)
    cases, meta = build_cases(rng, tier)
    res.stage("generate", t0)
    t1 = time.time()
    outs = L.run_cases("C16", cases, tier, files=files, views=L.reference_views())
    res.stage("impl_harness", t1)
    res.cov["repairs_present_in_source"] = L.fix_names()
    t2 = time.time()
    cls, flags, ncross = L.eval_flags("C16", cases, outs, "Cases_" + tier)
    res.stage("model_eval", t2)

    disagreements, mismatches, unexplained, cache_bad, reproduced = [], [], [], [], {}
    verdicts = Counter()
    for i, (c, m, o, cl, fl) in enumerate(zip(cases, meta, outs, cls, flags)):
        if not fl["agree"]:
            disagreements.append(i)
            continue
        if o.get("again"):
            cache_bad.append(i)
        ok, why = same_answer(o, m["total_order"])
        verdicts[why if not ok or why == "both-fail" else "same-rows"] += 1
        if ok:
            continue
        mismatches.append(i)
        sig = signature(c, m, fl, o)
        supported = (m["src"] == "grammar" and fl["in_grammar"] and fl["hdr_ctes_ok"] and fl["slow_path"] and "read_parquet" not in c["sql"].lower()
                     and sig != "quoted-cte-declaration-bare-reference")
        if sig in known and not supported:
            reproduced.setdefault(sig, i)
        else:
            unexplained.append((i, sig, why))
    for sig in sorted(reproduced):
        i = reproduced[sig]
        res.known_finding("%s: %s [e.g. %r hdr=%r: arc %s, plain DuckDB %s]" % (
            sig, known[sig]["what"], cases[i]["sql"][:120], cases[i]["hdr"],
            ("%d rows" % outs[i].get("row_count", 0)) if outs[i].get("success") else "fails: " + (outs[i].get("err") or "")[:80].replace("\n", " "),
            ("%d rows" % len(rows_of(outs[i].get("ref_data")))) if outs[i].get("ref_ok") else "fails: " + (outs[i].get("ref_err") or "")[:80].replace("\n", " ")))

    if disagreements:
        wrong = [k for k in disagreements if meta[k]["src"] == "grammar" and not same_answer(outs[k], meta[k]["total_order"])[0]]
        i = min(wrong or disagreements, key=lambda k: len(cases[k]["sql"]))
        res.violation("model and implementation disagree on the executed text (%d disagreeing cases, %d of them with an answer that differs from DuckDB's)" % (len(disagreements), len(wrong)),
                      {"kind": "correspondence", "correspondence": TIE_NAME, "sql": cases[i]["sql"], "hdr": cases[i]["hdr"], "allow": ["*"],
                       "preceding_requests_on_the_same_handler": cases[i].get("pre") or [],
                       "impl": {k: outs[i].get(k) for k in ("status", "err", "checked", "executed", "columns", "data")},
                       "duckdb_with_views": {k: outs[i].get(k) for k in ("ref_ok", "ref_err", "ref_columns", "ref_data")}, "data_files": files,
                       "disagreeing_cases": len(disagreements),
                       "how_to_replay": "python3 tools/check.py C16 --replay <this file>"},
                      no_input=same_answer(outs[i], meta[i]["total_order"])[0], suffix="corr")
    for i, sig, why in unexplained[:3]:
        res.violation("Arc's answer differs from DuckDB's for the same SQL (%s, class %s): %r hdr=%r" % (why, sig, cases[i]["sql"][:160], cases[i]["hdr"]),
                      {"kind": "oracle", "sql": cases[i]["sql"], "hdr": cases[i]["hdr"], "allow": ["*"], "signature": sig, "difference": why,
                       "preceding_requests_on_the_same_handler": cases[i].get("pre") or [],
                       "arc": {k: outs[i].get(k) for k in ("status", "err", "columns", "data", "executed")},
                       "duckdb_with_views": {k: outs[i].get(k) for k in ("ref_ok", "ref_err", "ref_columns", "ref_data")},
                       "data_files": files, "how_to_replay": "python3 tools/check.py C16 --replay <this file>"}, suffix="oracle")
    for i in cache_bad[:1]:
        res.violation("the second, cached request differs from the first: %s" % outs[i]["again"],
                      {"kind": "oracle", "sql": cases[i]["sql"], "hdr": cases[i]["hdr"], "allow": ["*"], "difference": outs[i]["again"]}, suffix="cache")
    if failed and not (disagreements or unexplained):
        res.violation("proof obligation(s) no longer check: " + "; ".join(r for _, r in failed),
                      {"kind": "obligation-failed", "theorems": [t for t, _ in failed], "detail": [r for _, r in failed]},
                      no_input=True, suffix="obligation")

    n = len(cases)
    res.cov["evaluations"] = n
    res.cov["distinct_nontrivial"] = len({(c["sql"], c["hdr"]) for c, m in zip(cases, meta) if nontrivial(c, m)})
    res.cov["rule"] = ("valid statements of the supported shapes: SELECT lists / aggregates / GROUP BY / ORDER BY+LIMIT over 1-3 table items joined with every join kind "
                       "(INNER, LEFT/RIGHT/FULL OUTER, CROSS, SEMI, ANTI, ASOF, [CROSS] JOIN LATERAL), subqueries in FROM and IN, 1-2 CTEs, SUBSTRING/EXTRACT bodies with FROM, "
                       "quoted names, keyword case, comments and odd whitespace between tokens, value literals containing keywords and comment markers; with the header "
                       "(db1, db2) and without (qualified and default-database names); plus the witnesses of the unsupported shapes; random data set per seed. "
                       "non-trivial = at least one join, CTE or subquery; distinct by (text, header)")
    res.cov["model_vs_impl_disagreements"] = len(disagreements)
    res.cov["oracle_failures"] = len(mismatches)
    res.cov["oracle_failures_unexplained"] = len(unexplained)
    res.cov["cases_reevaluated_in_coq"] = ncross
    joins = Counter(l[5:] for m in meta for l in m["labels"] if l.startswith("join:"))
    res.cov["histogram"] = {
        "source": dict(Counter(m["src"] for m in meta)), "verdict": dict(verdicts),
        "header": dict(Counter(c["hdr"] or "(none)" for c in cases)), "join_kinds": dict(joins),
        "shapes": dict(Counter(l for m in meta for l in m["labels"] if not l.startswith("join:"))),
        "disguises": dict(Counter(d for m in meta for d in m["disguises"])),
        "sent_twice": sum(1 for c in cases if c["twice"]),
        "in_grammar": sum(1 for f in flags if f["in_grammar"]),
        "rows_returned": {b: sum(1 for o in outs if o.get("success") and lo <= o.get("row_count", 0) < hi) for b, lo, hi in [("0", 0, 1), ("1-5", 1, 6), ("6-20", 6, 21), ("21+", 21, 10 ** 9)]},
        "data_files": len(files), "mismatches_by_signature": dict(Counter(signature(cases[i], meta[i], flags[i], outs[i]) for i in mismatches)),
    }

    def sample(i):
        return {"sql": cases[i]["sql"], "hdr": cases[i]["hdr"], "executed": outs[i].get("executed"), "arc_rows": outs[i].get("row_count"),
                "duckdb_rows": len(rows_of(outs[i].get("ref_data"))) if outs[i].get("ref_ok") else None, "verdict": same_answer(outs[i], meta[i]["total_order"])[1]}
    picks = [i for i in range(n) if meta[i]["src"] == "grammar" and len(meta[i]["labels"]) >= 3 and outs[i].get("success") and outs[i].get("row_count", 0) > 0][:2]
    picks += mismatches[:1]
    res.cov["samples"] = [sample(i) for i in picks] or [sample(0)]


def replay(res, path):
    obj = json.load(open(path))
    if "sql" not in obj:
        print("replay file names no concrete input:", obj.get("summary"))
        return 1
    pre = [(p["sql"], p["hdr"], p["allow"]) for p in obj.get("preceding_requests_on_the_same_handler", [])]
    case = L.mk_case(obj["sql"], obj.get("hdr", ""), allow=["*"], reads=False, ref=True, twice=not pre, pre=pre)
    outs = L.run_cases("C16", [case], "replay", files=obj.get("data_files"), views=L.reference_views())
    cls, flags, _ = L.eval_flags("C16", [case], outs, "Replay")
    ok, why = same_answer(outs[0], False)
    for p in case["pre"]:
        print("preceding request on the same handler:", repr(p["sql"]), "| header:", repr(p["hdr"]))
    print("statement:", repr(case["sql"]), "| header:", repr(case["hdr"]))
    print("arc:", {k: outs[0].get(k) for k in ("status", "err", "columns", "row_count", "executed")})
    print("plain DuckDB with views:", {k: outs[0].get(k) for k in ("ref_ok", "ref_err", "ref_columns")})
    print("model agrees on the executed text:", flags[0]["agree"], "| same answer:", ok, why)
    return 0 if (ok and flags[0]["agree"]) else 1
