"""C23 - Cluster role assignments stay consistent.

Proof: coq/theories/Fsm (same model as C22).  Tie: the real ClusterFSM on node / writer /
compactor and RBAC command sequences, dump after EVERY step compared with the model inside
Coq; the writer-bookkeeping and referential-integrity oracles run on the real dumps."""
import lib_fsm
import vlib

AREA = "Fsm"
THEOREMS = []
MODULES = ["Arc.Fsm.PropsC23"]
EXTRA = ["theories/Fsm/Tie.vo"]
TIE_NAME = lib_fsm.TIE_NAME["C23"]
FAMILIES = ["node", "node", "node", "rbac", "rbac", "node_rbac"]


def warm():
    lib_fsm.run_impl("C23", [], "warm")


def run(res, tier, seed):
    lib_fsm.run_property(res, "C23", tier, seed, THEOREMS, MODULES, EXTRA, FAMILIES, 400, 5000, dump_all=True)


def replay(res, path):
    return lib_fsm.replay_file(res, "C23", path)
