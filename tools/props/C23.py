"""C23 - Cluster role assignments stay consistent.

Proof: coq/theories/Fsm (same model as C22).  Tie: the real ClusterFSM on node / writer /
compactor and RBAC command sequences, dump after EVERY step compared with the model inside
Coq; the writer-bookkeeping and referential-integrity oracles run on the real dumps."""
import lib_fsm
import vlib

AREA = "Fsm"
THEOREMS = [("Arc.Fsm.PropsC23", "C23_writer_consistent"),
            ("Arc.Fsm.PropsC23", "C23_readd_keeps_writer_state"),
            ("Arc.Fsm.PropsC23", "C23_rbac_refs_ok"),
            ("Arc.Fsm.PropsC23", "C23_writer_consistent_guarded"),
            ("Arc.Fsm.PropsC23", "C23_writer_consistent_meaning"),
            ("Arc.Fsm.PropsC23", "C23_readd_keeps_writer_state_guarded"),
            ("Arc.Fsm.PropsC23", "C23_promote_unknown_refuted"),
            ("Arc.Fsm.PropsC23", "C23_two_primaries_refuted"),
            ("Arc.Fsm.PropsC23", "C23_readd_primary_refuted"),
            ("Arc.Fsm.PropsC23", "C23_remove_primary_refuted")]
MODULES = ["Arc.Fsm.PropsC23"]
EXTRA = ["theories/Fsm/Tie.vo", "theories/Fsm/PropsC23.vo"]
TIE_NAME = lib_fsm.TIE_NAME["C23"]
FAMILIES = ["node", "node", "node", "rbac", "rbac_cascade", "rbac_cascade", "node_rbac"]


def warm():
    lib_fsm.run_impl("C23", [], "warm")


def join_payload_fields():
    """The NodeInfo literal that coordinator.handleJoinRequest (and the self-registration of the
    bootstrap leader) proposes through AddNode, re-read from the current source."""
    import os
    import re
    src = open(os.path.join(vlib.REPO, "internal/cluster/coordinator.go")).read()
    out = {}
    for fn in ("handleJoinRequest", "registerSelfInFSMWhenLeader"):
        m = re.search(r"^func \(c \*Coordinator\) %s\(" % fn, src, re.M)
        if not m:
            raise vlib.TieBroken("coordinator.%s not found" % fn)
        end = src.find("\nfunc ", m.end())
        body = src[m.start():end if end > 0 else len(src)]
        lit = re.search(r"&raft\.NodeInfo\{(.*?)\n\t*\}", body, re.S)
        if not lit:
            raise vlib.TieBroken("coordinator.%s no longer builds a raft.NodeInfo literal" % fn)
        out[fn] = re.findall(r"^\s*(\w+):", lit.group(1), re.M)
    return out


def run(res, tier, seed):
    fields = join_payload_fields()
    res.cov["params"] = {"join_nodeinfo_fields": fields,
                         "join_carries_writer_state": {k: "WriterState" in v for k, v in fields.items()}}
    lib_fsm.JOIN_HAS_WS = "WriterState" in fields["handleJoinRequest"]
    lib_fsm.run_property(res, "C23", tier, seed, THEOREMS, MODULES, EXTRA, FAMILIES, 330, 3500, dump_all=True)


def replay(res, path):
    return lib_fsm.replay_file(res, "C23", path)
