"""C05 - WAL crash recovery restores exactly the acknowledged rows.

Proof: coq/theories/Recovery (Model, Proofs, Props, Obligations).
  PRIMARY - the code as it is now (all recovery repairs applied), Obligations.v at
  ArcGen.Params_Recovery.deployed (the variant recognised in the CURRENT source each run):
    C05_deployed_replay_rows / _raw   replay (wal_entry w) = live w for EVERY buffer write with a time
                                      column, one kind per column and clean strings - no column name,
                                      timestamp or measurement-id restriction left
    C05_deployed_crash_any_point      ALL histories, EVERY crash point, unconditionally
    C05_deployed_rejected_write_harmless
  and their variant-generic forms in Props.v part I (C05_repaired_*, C05_crash_any_point_repaired).
  SECONDARY - all variants (guards grow as repair flags are switched off) and the refutations of the
  old variants (C05_*_refuted); a reverted repair flips its flag, breaks the unguarded obligation and
  the witness of the matching refutation is the concrete failing input.
Tie: a test file overlaid into package main of cmd/arc drives the REAL handlers (one keep-alive
connection per process), wal.Writer (optionally held across following requests), ArrowBuffer,
wal.Recovery and the two recovery callbacks of main.go (startup statements copied verbatim from the
current main.go) through generated histories with crashes; every status, permission check, number
of WAL files left and every stored row is compared with the model inside Coq; the property oracle
is evaluated on the implementation's rows.
"""
import glob
import json
import os
import random
import time

import vlib
import lib_recovery as L

AREA = "Recovery"
MODULES = ["Arc.Recovery.Props", "Arc.Recovery.Obligations"]
# primary: the repaired code (the unguarded obligations need the repair flags of the CURRENT source
# to be true); then the statements about all variants; then the refutations of the old variants
THEOREMS = [("Arc.Recovery.Obligations", t) for t in (
    "C05_deployed_replay_rows", "C05_deployed_replay_raw", "C05_deployed_crash_any_point",
    "C05_deployed_rejected_write_harmless")] + [("Arc.Recovery.Props", t) for t in (
        "C05_repaired_rows_guard", "C05_repaired_raw_guard", "C05_crash_any_point_repaired", "C05_rotation_keeps_entries",
        "C05_replay_equals_live", "C05_fixed_rows_guard", "C05_crash_any_point")] + [
    ("Arc.Recovery.Obligations", t) for t in (
        "C05_deployed_replay_guarded", "C05_deployed_crash_guarded", "C05_deployed_open_findings")] + [
    ("Arc.Recovery.Props", t) for t in (
        "C05_routing_key_refuted", "C05_legacy_column_dropped_refuted", "C05_time_rescaled_refuted",
        "C05_int_measurement_lost_refuted", "C05_crash_window_refuted", "C05_poisoned_file_refuted",
        "C05_mixed_column_refuted")]
TIE_NAME = ("C05 correspondence (cmd/arc recovery callbacks + wal.Writer/Recovery + ArrowBuffer + write handlers "
            "vs Arc.Recovery.Model.run_case) / Params_Recovery")
PID = "C05"

T0 = 1700000000000000


def _pt(meas, tags, fields, ts):
    return dict(meas=meas, tags=tags, fields=fields, ts=ts)


def _lp(points, db="mydb", precision="us"):
    return dict(op="write", allow_all=True,
                req=dict(kind="lp", ep="simple", qdb=None, hdb=db, precision=precision, filter=None, points=points))


def _msg(payload, db="mydb"):
    return dict(op="write", allow_all=True, req=dict(kind="msg", hdb=db, payload=payload))


def witness_cases():
    """The refutation witnesses of Props.v as histories through the real code.
    -> [(signature, case)]"""
    routing = [_pt(b"cpu", [], [(b"v", ("i", 1))], T0), _pt(b"cpu", [(b"_database", b"otherdb")], [(b"v", ("i", 2))], T0 + 1)]
    legacy = [_pt(b"cpu", [(b"m", b"zz")], [(b"v", ("i", 3))], T0)]
    tm = [_pt(b"mem", [], [(b"v", ("i", 1))], 5000000), _pt(b"mem", [], [(b"v", ("i", 2))], -1000000)]
    intm = ("m", [(b"m", ("i", 5)), (b"columns", ("m", [(b"time", ("a", [("i", T0)])), (b"v", ("a", [("i", 7)]))]))])
    mixed = [_pt(b"cpu", [], [(b"v", ("i", 1))], T0), _pt(b"cpu", [], [(b"v", ("f", L.f64_bits(1.5)))], T0 + 1)]
    plain = [_pt(b"mem", [], [(b"v", ("i", 2))], T0 + 5)]
    poison = [_pt(b"cpu", [(b"time", b"abc")], [(b"v", ("i", 1))], T0)]
    st = dict(op="start")
    out = [
        ("routing-key-column", [st, _lp(routing)] + L.RESTART),
        ("legacy-key-column", [st, _lp(legacy)] + L.RESTART),
        ("row-replay-time-outside-us-window", [st, _lp(tm)] + L.RESTART),
        ("columnar-integer-measurement", [st, _msg(intm)] + L.RESTART),
        ("crash-before-replayed-rows-flushed", [st, _lp(plain), dict(op="crash"), dict(op="start"), dict(op="recover")] + L.RESTART),
        ("mixed-int-float-column", [st, _lp(mixed)] + L.RESTART),
        ("rejected-write-poisons-wal-file", [st, _lp(poison), _lp(plain)] + L.RESTART),
    ]
    return [(sig, dict(id=900000 + i, events=[dict(e) for e in evs], profile="witness:" + sig)) for i, (sig, evs) in enumerate(out)]


def _col(m, t, v, width=None, extra=(), second_m=None):
    top = [(b"m", m), (b"columns", ("m", [(b"time", ("a", [("i", t), ("i", t + 1)])), (b"v", ("a", [("i", v), ("i", v + 1)])),
                                            (b"host", ("a", [("s", b"srv-%02d" % (v % 100)), ("s", b"srv-%02d" % ((v + 1) % 100))]))]))]
    top += list(extra)
    if second_m is not None:
        top.append((b"m", second_m))
    return ("m", top, width) if width else ("m", top)


def regression_cases():
    """Shapes that earlier versions of this check did not exercise (kept as fixed cases): each must
    simply satisfy the property on the current code."""
    st, held = dict(op="start"), dict(op="start", hold=True)
    extra15 = [(b"x%d" % i, ("i", i)) for i in range(15)]
    out = [
        # two raw columnar requests on one keep-alive connection while the WAL writer goroutine is held:
        # the second request reuses the connection's body buffer before the first entry is written
        ("held-writer-next-request", [held, _msg(_col(("s", b"cpu"), T0, 100)), _msg(_col(("s", b"mem"), T0 + 10, 200)),
                                      _msg(_col(("s", b"disk"), T0 + 20, 300), db="otherdb"), dict(op="persist")] + L.RESTART),
        ("held-writer-next-request-lp", [held, _msg(_col(("s", b"cpu"), T0, 100)),
                                         _lp([_pt(b"zzzzzzzz", [(b"host", b"h" * 40)], [(b"v", ("i", 1))], T0 + 3)]), dict(op="persist")] + L.RESTART),
        # wire encodings of the top-level map / strings / arrays on the raw path
        ("raw-top-map16", [st, _msg(_col(("s", b"cpu"), T0, 1, width="16"))] + L.RESTART),
        ("raw-top-map32", [st, _msg(_col(("s", b"cpu"), T0, 2, width="32"))] + L.RESTART),
        ("raw-top-16-keys", [st, _msg(_col(("s", b"cpu"), T0, 3, extra=extra15))] + L.RESTART),
        ("raw-wide-strings-arrays", [st, _msg(("m", [((b"m", "16"), ("s", b"cpu", "32")),
                                                     ((b"columns", "8"), ("m", [((b"time", "32"), ("a", [("i", T0)], "32")),
                                                                                (b"v", ("a", [("f", L.f64_bits(2.5))], "16")),
                                                                                (b"note", ("a", [("s", b"n1", "16")]))], "16"))]))] + L.RESTART),
        # duplicate top-level keys: every consumer must read the LAST binding
        ("raw-duplicate-m", [st, _msg(_col(("s", b"cpu"), T0, 4, second_m=("s", b"disk")))] + L.RESTART),
        # size-triggered rotation: a burst of small enveloped appends, each rotating the file, released at
        # once by a held writer (rotations within the same millisecond), then crash + recovery
        ("rotate-burst-held", [dict(op="start", hold=True, rot=True)] +
         [_msg(_col(("s", b"cpu"), T0 + 10 * i, 10 * i)) for i in range(12)] + [dict(op="persist")] + L.RESTART),
        ("rotate-burst-mixed", [dict(op="start", rot=True)] +
         [(_msg(_col(("s", b"mem"), T0 + 10 * i, 10 * i)) if i % 2 else _lp([_pt(b"cpu", [(b"host", b"a")], [(b"v", ("i", i))], T0 + i)]))
          for i in range(10)] + L.RESTART),
        # ... and a recovery killed before its second delete (requests with ONE entry each, so that the file
        # order is the request order)
        ("rotate-kill-in-recovery", [dict(op="start", rot=True)] + [_msg(_col(("s", b"cpu"), T0 + 10 * i, 10 * i)) for i in range(4)] +
         [dict(op="crash"), dict(op="start"), dict(op="recover", crash_at=2)] + L.RESTART),
        ("raw-duplicate-unknown", [st, _msg(_col(("s", b"cpu"), T0, 5, extra=[(b"x0", ("i", 1)), (b"x0", ("s", b"two"))]))] + L.RESTART),
    ]
    return [dict(id=800000 + i, events=[dict(e) for e in evs], profile="regression:" + name) for i, (name, evs) in enumerate(out)]


def fault_cases(rng, n):
    """Storage-fault family: writes to several databases / measurements (constant schema per measurement, so
    that no schema-change flush interferes), crash, then a recovery during which the storage rejects every
    Parquet write under ONE of the directories - with the REAL ArrowBuffer.FlushAll as main()'s FlushReplayed
    hook and 8 buffer shards - then a healthy restart.  Every acknowledged row must be stored afterwards."""
    out = []
    dirs = [(db.decode(), m.decode()) for db in L.DBS for m in L.MEAS]
    for i in range(n):
        used = rng.sample(dirs, rng.randint(2, 5))
        evs = [dict(op="start", rot=(i % 3 == 2))]
        t = T0 + 1000 * i
        for j in range(rng.randint(3, 6)):
            db, m = rng.choice(used)
            t += 7
            if rng.random() < 0.5:
                evs.append(_lp([_pt(m.encode(), [(b"host", b"h%d" % (j % 3))], [(b"v", ("i", j))], t)], db=db))
            else:
                evs.append(_msg(_col(("s", m.encode()), t, j), db=db))
        evs += [dict(op="crash"), dict(op="start"), dict(op="recover", fail_dir=rng.choice(used if rng.random() < 0.85 else dirs))]
        if rng.random() < 0.4:
            evs.append(dict(op="flush"))
        evs += [dict(e) for e in L.RESTART]
        out.append(dict(id=700000 + i, events=evs, profile="storage-fault"))
    return out


FLAG_OF = {"routing-key-column": "routing_last", "legacy-key-column": "strict_keys",
           "row-replay-time-outside-us-window": "rows_no_renorm", "columnar-integer-measurement": "int_m",
           "crash-before-replayed-rows-flushed": "flush_before_delete", "mixed-int-float-column": None,
           "rejected-write-poisons-wal-file": "convert_first"}


def _values_kinds(vals):
    ks = set()
    for v in vals:
        if v is None or v is True or v is False:
            continue
        if isinstance(v, tuple) and v[0] in ("i", "ic", "u", "uc"):
            ks.add("int")
        elif isinstance(v, tuple) and v[0] == "f":
            ks.add("float")
    return ks


def _items_of(payload):
    """columnar / row items of a msgpack payload: [(item map entries, is_top_level_map)]"""
    if payload[0] == "a":
        return [(dict(L.map_entries(x)), False) for x in payload[1] if isinstance(x, tuple) and x[0] == "m"]
    top = dict(L.map_entries(payload))
    if b"batch" in top and isinstance(top[b"batch"], tuple) and top[b"batch"][0] == "a":
        return [(dict(L.map_entries(x)), False) for x in top[b"batch"][1] if isinstance(x, tuple) and x[0] == "m"]
    return [(top, True)]


def signatures(case, obs):
    """narrow syntactic classes of a case (guards of the theorems, negated)"""
    sig = set()
    evs = case["events"]
    for i, e in enumerate(evs):
        if e["op"] == "recover":
            for f in evs[i + 1:]:
                if f["op"] == "flush":
                    break
                if f["op"] in ("crash", "start"):
                    sig.add("crash-before-replayed-rows-flushed")
                    break
            if e.get("crash_at", 0):
                sig.add("crash-before-replayed-rows-flushed")
        if e["op"] != "write":
            continue
        r = e["req"]
        if r["kind"] == "lp":
            cols = {}
            pr = r.get("precision") or "ns"
            for p in r["points"]:
                names = [k for k, _ in p["tags"]] + [k for k, _ in p["fields"]]
                if any(n in (b"_database", b"_measurement") for n in names):
                    sig.add("routing-key-column")
                if any(n in (b"database", b"measurement", b"m") for n in names):
                    sig.add("legacy-key-column")
                t_us = {"ns": int(p["ts"] / 1000) if p["ts"] >= 0 else -int(-p["ts"] / 1000), "us": p["ts"], "ms": p["ts"] * 1000, "s": p["ts"] * 1000000}[pr]
                if not (10 ** 13 <= t_us < 10 ** 16):
                    sig.add("row-replay-time-outside-us-window")
                for k, v in p["fields"]:
                    cols.setdefault((p["meas"], k), []).append(v)
            if any(len(_values_kinds(v)) > 1 for v in cols.values()):
                sig.add("mixed-int-float-column")
        else:
            rowfields = {}
            for item, top in _items_of(r["payload"]):
                m = item.get(b"m")
                if b"columns" in item and isinstance(item[b"columns"], tuple) and item[b"columns"][0] == "m":
                    cols = dict(L.map_entries(item[b"columns"]))
                    if top and isinstance(m, tuple) and m[0] in ("i", "ic", "u", "uc"):
                        sig.add("columnar-integer-measurement")
                    if not top:
                        if any(n in (b"_database", b"_measurement") for n in cols):
                            sig.add("routing-key-column")
                        if any(n in (b"database", b"measurement", b"m") for n in cols):
                            sig.add("legacy-key-column")
                        tc = cols.get(b"time")
                        if isinstance(tc, tuple) and tc[0] == "a" and tc[1] and all(isinstance(x, tuple) and x[0] in ("i", "ic") for x in tc[1]):
                            first = tc[1][0][1]
                            mult = 1000000 if first < 10 ** 10 else 1000 if first < 10 ** 13 else 1 if first < 10 ** 16 else None
                            for x in tc[1]:
                                us = x[1] * mult if mult else int(x[1] / 1000)
                                if not (10 ** 13 <= us < 10 ** 16):
                                    sig.add("row-replay-time-outside-us-window")
                        else:
                            sig.add("row-replay-time-outside-us-window")      # generated or non-integer time
                    for v in cols.values():
                        if isinstance(v, tuple) and v[0] == "a" and len(_values_kinds(v[1])) > 1:
                            sig.add("mixed-int-float-column")
                else:
                    names = []
                    for key in (b"fields", b"tags"):
                        if key in item and isinstance(item[key], tuple) and item[key][0] == "m":
                            names += [L.key_bytes(k) for k, _ in item[key][1]]
                    if any(n in (b"_database", b"_measurement") for n in names):
                        sig.add("routing-key-column")
                    if any(n in (b"database", b"measurement", b"m") for n in names):
                        sig.add("legacy-key-column")
                    t = item.get(b"t")
                    if isinstance(t, tuple) and t[0] in ("i", "ic"):
                        ts = t[1]
                        us = ts * 1000000 if ts < 10 ** 10 else ts * 1000 if ts < 10 ** 13 else ts if ts < 10 ** 16 else int(ts / 1000)
                        if not (10 ** 13 <= us < 10 ** 16):
                            sig.add("row-replay-time-outside-us-window")
                    else:
                        sig.add("row-replay-time-outside-us-window")
                    if b"fields" in item and isinstance(item[b"fields"], tuple) and item[b"fields"][0] == "m":
                        mm = m[1] if isinstance(m, tuple) else None
                        for k, v in L.map_entries(item[b"fields"]):
                            rowfields.setdefault((mm, k), []).append(v)
            if any(len(_values_kinds(v)) > 1 for v in rowfields.values()):
                sig.add("mixed-int-float-column")
    if any(a >= 500 for a in obs["acks"]):
        sig.add("rejected-write-poisons-wal-file")
    return sig


PROFILES = [dict(name="clean", routing_p=0.0, wild_ts=False, mixed_p=0.0, int_m_p=0.0, crash_in_recovery=False),
            dict(name="routing", routing_p=0.5, wild_ts=False, mixed_p=0.0, int_m_p=0.0, crash_in_recovery=False),
            dict(name="wild", routing_p=0.0, wild_ts=True, mixed_p=0.0, int_m_p=0.0, crash_in_recovery=False),
            dict(name="all", routing_p=0.3, wild_ts=True, mixed_p=0.2, int_m_p=0.3, crash_in_recovery=True),
            dict(name="recovery-crash", routing_p=0.0, wild_ts=False, mixed_p=0.0, int_m_p=0.0, crash_in_recovery=True),
            dict(name="wire", routing_p=0.1, wild_ts=False, mixed_p=0.0, int_m_p=0.1, crash_in_recovery=False, wire_p=0.7, dup_p=0.3,
                 nested_p=0.05),
            # many small enveloped appends under a tiny MaxSizeBytes: every entry rotates the WAL file
            dict(name="rotate", routing_p=0.0, wild_ts=False, mixed_p=0.0, int_m_p=0.1, crash_in_recovery=False, rot_p=1.0,
                 writes=(3, 8), wire_p=0.2)]


def nontrivial(case):
    """>= 2 requests, >= 1 LP and >= 1 msgpack, and a crash strictly inside the history"""
    ws = [e for e in case["events"] if e["op"] == "write"]
    kinds = {e["req"]["kind"] for e in ws}
    evs = case["events"][:-len(L.RESTART)]
    seen_write = False
    inner_crash = False
    for e in evs:
        if e["op"] == "write":
            seen_write = True
        if seen_write and (e["op"] == "crash" or (e["op"] == "recover" and e.get("crash_at", 0))):
            inner_crash = True
    return len(ws) >= 2 and kinds == {"lp", "msg"} and inner_crash


def canon(case):
    return json.dumps(case["events"], sort_keys=True, default=lambda b: b.hex() if isinstance(b, bytes) else str(b))


def load_corpus():
    out = []
    for p in sorted(glob.glob(os.path.join(vlib.ROOT, "corpus", PID, "*.json"))):
        try:
            out.append(L.case_from_json(json.load(open(p))))
        except Exception as e:              # a corpus file that cannot be read is not a verdict
            vlib.log("corpus file %s ignored: %s" % (p, e))
    return out


def evaluate(cases, variant, tag):
    obs = L.run_harness(PID, [L.harness_events(c) for c in cases], tag=tag)
    if len(obs) != len(cases):
        raise vlib.TieBroken("harness returned %d results for %d cases" % (len(obs), len(cases)))
    for c, o in zip(cases, obs):
        for chk in o["checked"]:
            for (_, _, perm) in chk:
                if perm != "write":
                    raise vlib.TieBroken("a write handler checked permission %r" % perm)
    L.reset_interner()
    terms = [L.case_coq(c, o, variant) for c, o in zip(cases, obs)]
    codes = L.coq_verdicts(PID, terms, name="Cases_" + tag)
    return obs, codes


def shrink(case, variant, pred):
    """greedy removal of events / points while pred(case) stays true"""
    cur = case
    changed = True
    rounds = 0
    while changed and rounds < 25:
        changed = False
        rounds += 1
        body = cur["events"][:-len(L.RESTART)]
        for i in range(len(body)):
            if body[i]["op"] == "start" and i == 0:
                continue
            cand = dict(cur, events=body[:i] + body[i + 1:] + cur["events"][-len(L.RESTART):])
            if pred(cand):
                cur, changed = cand, True
                break
        if changed:
            continue
        for i, e in enumerate(cur["events"]):
            if e["op"] == "write" and e["req"]["kind"] == "lp" and len(e["req"]["points"]) > 1:
                for j in range(len(e["req"]["points"])):
                    req = dict(e["req"], points=e["req"]["points"][:j] + e["req"]["points"][j + 1:])
                    cand = dict(cur, events=cur["events"][:i] + [dict(e, req=req)] + cur["events"][i + 1:])
                    if pred(cand):
                        cur, changed = cand, True
                        break
            if changed:
                break
    return cur


def setup():
    L.write_params()


def warm():
    L.run_harness(PID, [], tag="warm")


def run(res, tier, seed):
    rng = random.Random(seed * 104729 + 5)
    t0 = time.time()
    try:
        variant, facts = L.write_params()
    finally:
        res.stage("translate_params", t0)
    res.cov["params"] = {"deployed_variant": variant, "facts": facts,
                         "startup_block_sha": __import__("hashlib").sha1(L.startup_block()[0].encode()).hexdigest()[:12]}

    failed = vlib.std_proof_stage(res, PID, AREA, MODULES, THEOREMS, extra_targets=["theories/Recovery/Obligations.vo"])
    res.cov["trusted_base"] += [
        "WAL framing / CRC layer (C06) abstracted: an entry is the decoded envelope or row list; the msgpack library's "
        "encode/decode round trip of boxed scalars is taken as the identity and validated by the correspondence",
        "typed msgpack fast path taken to agree with the generic decode (C02); SanitizeUTF8 is a parameter of every theorem, "
        "the correspondence runs valid UTF-8 only",
        "process-crash model: a completed write(2) survives the kill (page cache), power loss is not modelled; size-triggered WAL "
        "rotation IS in the event set (tiny MaxSizeBytes: a fresh file after every entry); age-triggered rotation, clean shutdown and "
        "the periodic purge are not (C07)",
        "flush = every buffered row becomes a stored row of its hour partition (C03); duplicates after a replay of already "
        "flushed rows are allowed (multiset inclusion)",
        "harness re-composes main()'s start-up: writer, buffer, SetWAL in the source order checked each run; the recovery "
        "statements themselves are copied verbatim from the current cmd/arc/main.go",
        "timestamps generated from time.Now (requests without a time) are outside the compared domain",
        "storage faults: the event 'recovery while the storage rejects every write under one directory' is in the model and in the "
        "correspondence (real ArrowBuffer.FlushAll as main()'s FlushReplayed hook, 8 shards, faulting wrapper around the real LocalBackend, "
        "healthy restart afterwards; oracle unchanged) but NOT in the histories of the crash theorems (ev_guard excludes it): a failing "
        "schema-change flush during replay is only logged by the code, so no unconditional statement holds under storage faults (C07)",
    ]
    if tier == "thorough":
        ok, _ = vlib.coqchk_stage(res, MODULES)
        if not ok:
            failed.append(("coqchk", "coqchk did not accept the compiled development"))

    n = 400 if tier == "quick" else 6000
    wit = witness_cases()
    cases = load_corpus() + [c for _, c in wit] + regression_cases() + fault_cases(rng, 24 if tier == "quick" else 300)
    nfixed = len(cases)
    for i in range(n):
        cases.append(L.gen_history(rng, i, PROFILES[i % len(PROFILES)]))
    t1 = time.time()
    obs, codes = [], []
    step = 400
    for off in range(0, len(cases), step):
        o, c = evaluate(cases[off:off + step], variant, "%s_%d" % (tier, off))
        obs += o
        codes += c
    res.stage("harness_and_coq_eval", t1)

    supported = [i for i, c in enumerate(codes) if c & 1]
    dis = [i for i in supported if not codes[i] & 2]
    orf = [i for i in supported if not codes[i] & 4]
    known = {e["signature"]: e for e in vlib.known_for(PID)}

    res.cov["evaluations"] = len(supported)
    res.cov["unsupported_by_model"] = len(cases) - len(supported)
    res.cov["distinct_nontrivial"] = len({canon(cases[i]) for i in supported if nontrivial(cases[i])})
    res.cov["rule"] = ("histories of process lifetimes (start[held writer] / recover[killed before the n-th delete] / writes / persist / "
                       "flush / crash) ending in a restart; requests: LP via 4 endpoints and msgpack columnar/row/batch/array to 3 "
                       "databases with routing-like names, pre-1970 / pre-1970-04-27 / post-2286 times, nulls, mixed kinds, integer "
                       "measurement ids; non-trivial = >= 2 requests with >= 1 LP and >= 1 msgpack and a crash (or kill inside recovery) "
                       "after the first write and before the final restart; distinct by event list")
    res.cov["model_vs_impl_disagreements"] = len(dis)
    res.cov["oracle_failures"] = len(orf)
    prof = {}
    for i in supported:
        prof[cases[i].get("profile", "")] = prof.get(cases[i].get("profile", ""), 0) + 1
    res.cov["histogram"] = {
        "profiles": prof,
        "events": {k: sum(1 for i in supported for e in cases[i]["events"] if e["op"] == k) for k in ("start", "write", "persist", "flush", "recover", "crash")},
        "requests": {k: sum(1 for i in supported for e in cases[i]["events"] if e["op"] == "write" and (e["req"]["kind"] if e["req"]["kind"] == "lp" else e["req"].get("shape", "msg")) == k)
                     for k in ("lp", "col", "row", "batch", "array", "nested")},
        "held_writer_lifetimes": sum(1 for i in supported for e in cases[i]["events"] if e["op"] == "start" and e.get("hold")),
        "recoveries_under_storage_fault": sum(1 for i in supported for e in cases[i]["events"] if e["op"] == "recover" and e.get("fail_dir")),
        "rotating_lifetimes": sum(1 for i in supported for e in cases[i]["events"] if e["op"] == "start" and e.get("rot")),
        "kills_inside_recovery": sum(sum(1 for k in obs[i]["crashed"] if k) for i in supported),
        "acks": {str(k): sum(1 for i in supported for a in obs[i]["acks"] if a == k) for k in (200, 204, 400, 403, 500)},
        "stored_rows": sum(len(obs[i]["stored"]) for i in supported),
    }
    res.cov["samples"] = [L.case_summary(cases[i], obs[i]) for i in [k for k in supported if cases[k]["id"] < 800000][:2]]

    # ---- known findings: the witnesses ----------------------------------------------------
    widx = {c["id"]: k for k, c in enumerate(cases)}
    for sig, c in wit:
        k = widx[c["id"]]
        fails = bool(codes[k] & 1) and not codes[k] & 4
        agrees = bool(codes[k] & 2)
        if fails and sig in known and agrees:
            res.known_finding("%s [%s]" % (known[sig]["what"], sig))
        elif fails:
            res.violation("the real code loses or alters acknowledged rows on the %s witness and %s" % (
                sig, "the finding is not listed as open" if agrees else "differently from the model's prediction"),
                {"kind": "oracle", "signature": sig, "case": L.case_to_json(c), "observed": obs[k],
                 "how_to_replay": "python3 tools/check.py C05 --replay <this file>"})

    # ---- oracle failures on generated cases --------------------------------------------------
    reported = 0
    unexplained = []
    for k in orf:
        if cases[k]["id"] >= 900000:
            continue                      # the witnesses were handled above
        sigs = {s for s in signatures(cases[k], obs[k]) if s in known and (FLAG_OF[s] is None or not variant[FLAG_OF[s]])}
        if not (codes[k] & 2):
            continue                      # reported below as a correspondence failure (with its oracle verdict)
        if not sigs:
            unexplained.append(k)
    res.cov["oracle_failures_in_known_classes"] = len(orf) - len(unexplained) - sum(1 for k in orf if cases[k]["id"] >= 900000)
    for k in unexplained[:3]:
        small = shrink(cases[k], variant, lambda c: _still(c, variant, lambda code, c2, o2: (code & 1) and not (code & 4) and not
                                                          {s for s in signatures(c2, o2) if s in known}))
        o2, c2 = evaluate([small], variant, "shrunk")
        res.violation("acknowledged rows are missing or altered after recovery on an input outside every listed class",
                      {"kind": "oracle", "case": L.case_to_json(small), "observed": o2[0], "model_agrees": bool(c2[0] & 2),
                       "how_to_replay": "python3 tools/check.py C05 --replay <this file>"})
        reported += 1

    # ---- correspondence -----------------------------------------------------------------------
    reported += L.report_disagreements(res, PID, cases, obs, codes, dis, 4, evaluate, lambda c, v, pred: shrink(c, v, pred),
                                       variant, TIE_NAME, "a history")

    if failed and not reported and not res.violations:
        res.violation("proof obligation(s) no longer check: " + "; ".join(r for _, r in failed),
                      {"kind": "obligation-failed", "theorems": [t for t, _ in failed], "detail": [r for _, r in failed]},
                      no_input=True, suffix="obligation")


def _still(case, variant, pred):
    try:
        o, c = evaluate([case], variant, "shrink")
    except vlib.TieBroken:
        return False
    return bool(pred(c[0], case, o[0]))


def replay(res, path):
    obj = json.load(open(path))
    if not obj.get("case"):
        print("replay file names no concrete case:", obj.get("summary"))
        return 1
    case = L.case_from_json(obj["case"])
    variant, _ = L.write_params()
    vlib.coq_make(["theories/Recovery/Obligations.vo", "theories/Recovery/Props.vo"])
    o, c = evaluate([case], variant, "replay")
    code = c[0]
    print(json.dumps(L.case_summary(case, o[0]), indent=1)[:4000])
    print("model supports the case:", bool(code & 1), "| model agrees:", bool(code & 2), "| C05 oracle holds:", bool(code & 4))
    return 0 if (code & 1 and code & 2 and code & 4) else 1
