"""C22 - Cluster state machine: replay determinism and snapshot fidelity.

Proof: coq/theories/Fsm (model of every ClusterFSM command, Snapshot and Restore).
Tie: the real ClusterFSM is driven through Apply / Snapshot / Persist / Restore on generated
command sequences; results, dumps of primary maps and indexes, and the snapshot/restore/replay
experiment at every prefix are compared with the model inside Coq (lib_fsm.py)."""
import lib_fsm
import vlib

AREA = "Fsm"
THEOREMS = [("Arc.Fsm.PropsC22", "C22_restore_snapshot"),
            ("Arc.Fsm.PropsC22", "C22_prefix_replay"),
            ("Arc.Fsm.PropsC22", "C22_indexes_agree"),
            ("Arc.Fsm.PropsC22", "C22_batch_atomic"),
            ("Arc.Fsm.PropsC22", "C22_restore_snapshot_guarded"),
            ("Arc.Fsm.PropsC22", "C22_restore_snapshot_iff"),
            ("Arc.Fsm.PropsC22", "C22_prefix_replay_guarded"),
            ("Arc.Fsm.PropsC22", "C22_indexes_agree_guarded"),
            ("Arc.Fsm.PropsC22", "C22_auth_indexes_agree"),
            ("Arc.Fsm.PropsC22", "C22_tokens_valid_guarded"),
            ("Arc.Fsm.PropsC22", "C22_restore_token_refuted"),
            ("Arc.Fsm.PropsC22", "C22_file_index_refuted"),
            ("Arc.Fsm.PropsC22", "C22_prefix_replay_refuted")]
MODULES = ["Arc.Fsm.PropsC22"]
EXTRA = ["theories/Fsm/Tie.vo", "theories/Fsm/PropsC22.vo"]
TIE_NAME = lib_fsm.TIE_NAME["C22"]
FAMILIES = ["file", "file", "token", "token", "rbac", "rbac_cascade", "rbac_cascade", "mixed", "mixed", "node"]


def warm():
    lib_fsm.run_impl("C22", [], "warm")


def run(res, tier, seed):
    lib_fsm.run_property(res, "C22", tier, seed, THEOREMS, MODULES, EXTRA, FAMILIES, 380, 4000, dump_all=False)


def replay(res, path):
    return lib_fsm.replay_file(res, "C22", path)
