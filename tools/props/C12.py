"""C12 - Tier migration never makes data unreadable or visible twice.

Proof: coq/theories/Tiering (C12_readable: after every history of migrations with every crash point /
step failure, interrupted reconciliations and scans, every file is completely readable from the tier its
metadata names and the multi-tier read returns its rows; C12_once_after_complete, C12_once_after_reconcile
(guarded), C12_once_after_cycle (guarded: the migration is retried); C12_cold_orphan_refuted = a crash
between copy and metadata update leaves a cold orphan that reconciliation never removes and that the
multi-tier read returns a second time).
Tie 1 (translator): order of the durable operations of Migrator.MigrateFile and the branch of the
rollback re-extracted with go/ast into coq/gen/Params_Tiering.v (Obligations.v).
Tie 2 (correspondence): real tiering.Manager/Migrator/MetadataStore (SQLite) over two LocalBackends, the
real QueryHandler.buildMultiTierReadParquet executed by DuckDB, crash points and failures injected
through verif hooks; tier contents, metadata and query result after every operation compared in Coq.
"""
import hashlib
import json
import os
import random
import re
import time

import vlib
from vlib import cn, cbool, clist
from props.C09 import ctxcalls, par_check, run_harness_cached

AREA = "Tiering"
P = "Arc.Tiering.Props"
O = "Arc.Tiering.Obligations"
THEOREMS = [(P, "C12_readable"), (P, "C12_once_after_complete"), (P, "C12_once_after_reconcile"), (P, "C12_once_after_cycle"),
            (P, "C12_cold_orphan_refuted"), (P, "C12_overlap_safe"), (P, "C12_unserialized_overlap_safe"),
            (P, "C12_unserialized_overlap_rollback_refuted"), (O, "C12_migrate_order_obligations"), (O, "C12_model_steps_are_code_steps")]
MODULES = [P, O]
TIE_NAME = ("C12 correspondence (tiering.Migrator.MigrateFile / ReconcileOrphanedFiles / Manager.RunMigrationCycle + "
            "api.QueryHandler.buildMultiTierReadParquet vs Arc.Tiering.Model) / Params_Tiering")
SIGNATURE = "migration-interrupted-between-copy-and-metadata-update"
SIGNATURE_OVERLAP = "overlapping-migrations-rollback-deletes-shared-cold-copy"

PKG = "./internal/api/"
HARNESS = {"internal/api/zz_tiering_verif_test.go": "harness/tiering/tiering_verif_test.go",
           "internal/tiering/zz_verif_hooks.go": "harness/tiering/verif_hooks.go",
           "internal/license/zz_verif_license.go": "harness/license/verif_license.go"}
REWRITES = {"internal/tiering/migrator.go": [
    # crash points (anchored on the step comments of MigrateFile)
    ("	// Perform the migration using streaming", "	verifPointM(m, \"before_copy\")\n	// Perform the migration using streaming", 1),
    ("	// Update tier metadata\n", "	verifPointM(m, \"after_copy\")\n	// Update tier metadata\n", 1),
    ("	// Delete from source tier\n", "	verifPointM(m, \"after_meta\")\n	// Delete from source tier\n", 1),
    ("	// Record success\n", "	verifPointM(m, \"after_delete\")\n	// Record success\n", 1),
    # fallible operations (arguments are kept as written)
    ("m.copyFileStreaming(ctx, ", "verifCopy(m, ctx, ", 1),
    ("m.manager.metadata.UpdateTier(", "verifUpdateTier(m.manager.metadata, ", 1),
    ("m.manager.metadata.RecordMigration(", "verifRecordMigration(m.manager.metadata, ", 1),
    ("dstBackend.Delete(", "verifDelete(\"rollback\", dstBackend, ", 1),
    ("srcBackend.Delete(", "verifDelete(\"source\", srcBackend, ", 1),
]}
TAGS = "verif duckdb_arrow"


def translate_params():
    mf = ctxcalls("internal/tiering/migrator.go", "MigrateFile", "^(copyFileStreaming|UpdateTier|Delete)$")
    evs = mf["events"]

    def failure_of(e):
        for c in e["path"]:
            if c["kind"] == "if" and "err != nil" in c.get("cond", "").replace("Err", "err") and c["branch"] == "then":
                return c.get("init") or c.get("cond")
        return None
    order = []
    for e in evs:
        if failure_of(e) or any(c["kind"] in ("funclit", "defer") for c in e["path"]):
            continue
        if e["callee"] == "copyFileStreaming":
            order.append("MpCopy")
        elif e["callee"] == "UpdateTier":
            order.append("MpSetMeta")
        elif e["callee"] == "Delete" and e["recv"] == "srcBackend":
            order.append("MpDeleteSource")
        elif e["callee"] == "Delete":
            raise vlib.TieBroken("MigrateFile deletes from %s on its success path (line %d)" % (e["recv"], e["line"]))
    if not order:
        raise vlib.TieBroken("MigrateFile: no copy / UpdateTier / source Delete found")
    rollback = any(e["callee"] == "Delete" and e["recv"] == "dstBackend" and failure_of(e) == "UpdateTier" for e in evs)
    src = open(os.path.join(vlib.REPO, "internal/tiering/migrator.go")).read()
    m = re.search(r"migrationErr := m\.copyFileStreaming\(.*?\n(.*?)m\.manager\.metadata\.UpdateTier\(", src, re.S)
    copy_ret = bool(m and re.search(r"if migrationErr != nil \{.*?return migrationErr\s*\}", m.group(1), re.S))
    rc = ctxcalls("internal/tiering/migrator.go", "ReconcileOrphanedFiles", "^(Delete|GetRecentlyMigratedFiles|Exists)$")
    dels = [e for e in rc["events"] if e["callee"] == "Delete"]
    listed = [e for e in rc["events"] if e["callee"] == "GetRecentlyMigratedFiles"]
    only_hot = bool(dels) and all(e["recv"] == "hotBackend" for e in dels) and bool(listed) and all("TierCold" in e["args"][1] for e in listed)
    # since 6b8445f: the path is registered in Manager.migrating before the copy, released by a defer
    guard = ctxcalls("internal/tiering/migrator.go", "MigrateFile", "^(LoadOrStore|copyFileStreaming|Delete)$")["events"]
    los = [e for e in guard if e["callee"] == "LoadOrStore" and "migrating" in e["recv"] and e["in_if_init"] and not e["path"]]
    cps = [e for e in guard if e["callee"] == "copyFileStreaming"]
    rel = [e for e in guard if e["callee"] == "Delete" and "migrating" in e["recv"] and any(c["kind"] == "defer" for c in e["path"])]
    serialized = bool(los and cps and rel and los[0]["line"] < cps[0]["line"] and "candidate.Path" in los[0]["args"][0])
    body = "(* GENERATED by tools/props/C12.py from the current /repo sources - do not edit *)\n"
    body += "From Coq Require Import List.\nFrom Arc Require Import Tiering.Model.\nImport ListNotations.\n"
    body += "(* success-path order of copy / UpdateTier / source delete in Migrator.MigrateFile *)\n"
    body += "Definition migrate_file_order : list mphase := [%s].\n" % "; ".join(order)
    body += "Definition metadata_failure_deletes_destination : bool := %s.\n" % cbool(rollback)
    body += "Definition copy_failure_returns_before_metadata : bool := %s.\n" % cbool(copy_ret)
    body += "Definition reconcile_deletes_only_hot : bool := %s.\n" % cbool(only_hot)
    body += "Definition migrate_file_serialized_per_path : bool := %s.\n" % cbool(serialized)
    vlib.write_params("Params_Tiering", body)
    return {"migrate_file_order": order, "rollback": rollback, "copy_failure_returns": copy_ret, "reconcile_only_hot": only_hot, "serialized_per_path": serialized}


# ---------------------------------------------------------------------------------------
# cases
# ---------------------------------------------------------------------------------------

# ("midstream", k): the hot ReadTo really delivers 0 / 1 / half / all-but-one bytes and then fails;
# a trailing "rec" marks that the tier_migrations insert (RecordMigration) fails as well (MigrateFile tolerates that)
OUTCOMES = [("done",), ("crash", 0), ("crash", 1), ("crash", 2), ("crash", 3), ("copyfail",),
            ("midstream", 0), ("midstream", 1), ("midstream", 2), ("midstream", 3),
            ("metafail", True), ("metafail", False), ("delfail",),
            ("done", "rec"), ("metafail", True, "rec"), ("metafail", False, "rec"), ("midstream", 2, "rec"), ("delfail", "rec")]


def core(oc):
    """outcome without the record-failure marker"""
    oc = tuple(oc)
    return oc[:-1] if oc and oc[-1] == "rec" else oc


def unsafe(oc):
    return core(oc) == ("crash", 1) or core(oc) == ("metafail", False)


def gen_files(rng, n, ctr):
    files = []
    for _ in range(n):
        k = rng.choice([1, 1, 2, 3, 5, 17, 40])
        ids = list(range(ctr[0], ctr[0] + k))
        ctr[0] += k
        files.append(ids)
    return files


def gen_cases(rng, nfiles_total, tier):
    """Every step outcome x a target file, with 0..2 files already cold and 0..1 files staying hot,
    followed by reconciliation (expect each row once); plus random histories ending with or without a cycle."""
    cases, ctr = [], [1]
    made = 0
    while made < nfiles_total:
        n = rng.choice([2, 3, 3, 4, 5])
        files = gen_files(rng, n, ctr)
        pre = rng.sample(range(n), rng.randint(0, min(2, n - 1)))
        rest = [i for i in range(n) if i not in pre]
        target = rng.choice(rest)
        for oc in OUTCOMES:
            ops = [("migrate", i, ("done",)) for i in pre] + [("migrate", target, oc), ("reconcile",)]
            cases.append({"files": files, "ops": ops, "expect_once": True})
        made += 1
        for _ in range(2 if tier == "quick" else 5):
            ops = []
            for _ in range(rng.randint(2, 6)):
                kind = rng.choice(["migrate", "migrate", "migrate", "reconcile", "scan", "settle"])
                if kind == "migrate":
                    ops.append(("migrate", rng.randrange(n), rng.choice(OUTCOMES)))
                else:
                    ops.append((kind,))
            end = rng.choice(["settle", "settle", "none", "reconcile_if_safe"])
            expect = False
            if end == "settle":
                ops.append(("settle",))
                expect = True
            elif end == "reconcile_if_safe" and all(o[0] != "scan" and not (o[0] == "migrate" and unsafe(o[2])) for o in ops):
                ops.append(("reconcile",))
                expect = True
            cases.append({"files": files, "ops": ops, "expect_once": expect})
    for i, c in enumerate(cases):
        c["id"] = i
    return cases


def interleavings():
    """all 70 interleavings of A's four steps (start, copy, UpdateTier, delete hot) with B's four"""
    out = []

    def go(pre, na, nb):
        if na == 0 and nb == 0:
            out.append(pre)
            return
        if na:
            go(pre + "A", na - 1, nb)
        if nb:
            go(pre + "B", na, nb - 1)
    go("", 4, 4)
    return out


def overlap_cases(rng, tier):
    """every interleaving of two migrations of the same file, fault-free and with a failing UpdateTier in one of them;
    another file is already cold (so the cold directory is globbed) and one stays hot; reconciliation follows"""
    cases, ctr = [], [100000]
    scheds = interleavings()
    faults = [(None, True), (None, None), (True, None), (None, False), (True, True)]
    for n, (fa, fb) in enumerate(faults):
        if tier == "thorough":
            pick = scheds
        else:
            pick = rng.sample(scheds, 40 if n == 0 else (20 if n == 1 else 8))
            for must in ("AAAABBBB", "ABABABAB", "AABBBBAA", "AAABBBBA", "ABBBBAAA", "BBAAAABB"):
                if n <= 1 and must not in pick:
                    pick.append(must)
        for sch in pick:
            files = gen_files(rng, 3, ctr)
            cases.append({"files": files, "ops": [("migrate", 0, ("done",)), ("overlap", 1, sch, fa, fb), ("reconcile",)], "expect_once": True})
    return cases


def witness_cases():
    f = [[10, 11], [20]]
    return [{"id": 900000, "files": f, "ops": [("migrate", 0, ("done",)), ("migrate", 1, ("crash", 1)), ("reconcile",)], "expect_once": True,
             "witness": "C12_cold_orphan_refuted"},
            {"id": 900001, "files": f + [[30]], "ops": [("migrate", 0, ("done",)), ("migrate", 1, ("crash", 2)), ("reconcile",)], "expect_once": True,
             "witness": "in-guard twin (crash after the metadata update)"},
            {"id": 900002, "files": f, "ops": [("migrate", 0, ("done",)), ("migrate", 1, ("crash", 1)), ("reconcile",), ("settle",)], "expect_once": True,
             "witness": "guarded: the migration is retried by the next cycle"}]


def op_to_harness(o):
    d = {"op": o[0], "file": 0, "outcome": {"kind": "done", "k": 0, "rollback_ok": True}}
    if o[0] == "overlap":
        _, f, sched, fa, fb = o
        d.update({"file": f, "sched": sched, "fault_a": "metafail" if fa is not None else "", "fault_b": "metafail" if fb is not None else "",
                  "rollback_ok_a": bool(fa), "rollback_ok_b": bool(fb)})
        return d
    if o[0] == "migrate":
        d["file"] = o[1]
        oc = core(o[2])
        d["outcome"] = {"kind": oc[0], "k": oc[1] if oc[0] in ("crash", "midstream") else 0, "rollback_ok": bool(oc[1]) if oc[0] == "metafail" else True,
                        "record_fail": tuple(o[2])[-1] == "rec"}
    return d


def to_harness(c):
    return {"id": c["id"], "files": c["files"], "ops": [op_to_harness(o) for o in c["ops"]]}


def overlap_fault(c):
    """two overlapping migrations of one file, one of them with a failing UpdateTier"""
    return any(o[0] == "overlap" and (o[3] is not None or o[4] is not None) for o in c["ops"])


def excluded_class(c):
    return any((o[0] == "migrate" and unsafe(tuple(o[2]))) or (o[0] == "overlap" and (o[3] is False or o[4] is False)) for o in c["ops"])


def nontrivial(c):
    """a crash or step failure strictly inside a migration (after its first, before its last durable step)"""
    for o in c["ops"]:
        if o[0] == "overlap":
            return True
        if o[0] == "migrate":
            oc = core(o[2])
            if oc in (("crash", 1), ("crash", 2), ("metafail", True), ("metafail", False), ("delfail",)) or oc[0] == "midstream":
                return True
    return False


def cfault(f):
    return "None" if f is None else "(Some %s)" % cbool(f)


def cop(o):
    if o[0] == "overlap":
        _, f, sched, fa, fb = o
        return "(XOverlap %s %s %s %s)" % (cn(f + 1), clist([cbool(ch == "A") for ch in sched]), cfault(fa), cfault(fb))
    return "(XTop %s)" % ctop(o)


def ctop(o):
    if o[0] == "migrate":
        oc = core(o[2])      # the migration-history rows are not part of the model state: a failed insert changes nothing
        m = {"done": "MDone", "copyfail": "MCopyFail", "midstream": "MCopyFail", "delfail": "MDelFail"}.get(oc[0])
        if oc[0] == "crash":
            m = "(MCrash %d)" % oc[1]
        elif oc[0] == "metafail":
            m = "(MMetaFail %s)" % cbool(oc[1])
        return "(OMigrate %s %s)" % (cn(o[1] + 1), m)
    return {"reconcile": "(OReconcile None)", "scan": "OScan", "settle": "OSettle"}[o[0]]


def cfiles(d):
    items = ["(%s, %s)" % (cn(int(k) + 1), (clist([cn(x) for x in v]) if v else "(@nil N)")) for k, v in sorted(d.items(), key=lambda kv: int(kv[0]))]
    return clist(items) if items else "(@nil (path * list N))"


def cmeta(d):
    items = ["(%s, %s)" % (cn(int(k) + 1), "Hot" if v == "hot" else "Cold") for k, v in sorted(d.items(), key=lambda kv: int(kv[0]))]
    return clist(items) if items else "(@nil (path * tier))"


def case_to_coq(c, obs):
    f0 = cfiles({str(i): ids for i, ids in enumerate(c["files"])})
    ops = []
    for o, ob in zip(c["ops"], obs["obs"]):
        vis = clist([cn(x) for x in ob["visible"]]) if ob["visible"] else "(@nil N)"
        ops.append("(%s, mkTObs %s %s %s %s %s)" % (cop(o), cfiles(ob["hot"]), cfiles(ob["cold"]), cmeta(ob["meta"]), vis, cbool(ob["visible_ok"])))
    return "(mkTCase %s %s %s)" % (f0, clist(ops), cbool(c["expect_once"]))


HEADER = ("From Coq Require Import List NArith Bool Arith.\nFrom Arc Require Import Compaction.Model Tiering.Model.\n"
          "Import ListNotations.\n")


def run_impl(cases, tag):
    out = run_harness_cached("C12", PKG, "^TestVerifTiering$", HARNESS, [to_harness(c) for c in cases], rewrites=REWRITES, tags=TAGS, tag=tag, timeout=2400)
    if len(out) != len(cases):
        raise vlib.TieBroken("C12 harness returned %d results for %d cases" % (len(out), len(cases)))
    for c, o in zip(cases, out):
        if o.get("err") or len(o.get("obs") or []) != len(c["ops"]):
            raise vlib.TieBroken("C12 harness could not run case %s: %s" % (c["id"], o.get("err")))
        o["obs"] = o.get("obs") or []
        for ob in o["obs"]:
            for k in ("hot", "cold", "meta"):
                ob[k] = ob.get(k) or {}
            ob["visible"] = ob.get("visible") or []
    return out


def eval_cases(cases, obs, name):
    try:
        terms = [case_to_coq(c, o) for c, o in zip(cases, obs)]
        return _eval_terms(terms, name)
    except (vlib.InfraError, KeyError, ValueError, TypeError) as e:
        raise vlib.TieBroken("the implementation's observations could not be evaluated against the model (unexpected shape): %s" % str(e)[-1500:])


def _eval_terms(terms, name):
    return par_check("C12", HEADER, "tcase", terms, {"agree": "tcase_agrees", "oracle": "tcase_oracle", "moracle": "tcase_model_oracle"}, name)


def canon_hash(c):
    return hashlib.sha1(json.dumps({"f": c["files"], "o": c["ops"], "e": c["expect_once"]}, sort_keys=True, default=str).encode()).hexdigest()


def shrink_case(c, fails):
    cur = c
    for _ in range(10):
        cands = []
        for i in range(len(cur["ops"])):
            if len(cur["ops"]) > 1:
                cands.append(dict(cur, ops=cur["ops"][:i] + cur["ops"][i + 1:]))
        for i, f in enumerate(cur["files"]):
            if len(f) > 1:
                cands.append(dict(cur, files=cur["files"][:i] + [f[:1]] + cur["files"][i + 1:]))
        if not cands:
            break
        for n, x in enumerate(cands):
            x["id"] = n
        idx = fails(cands)
        if idx is None:
            break
        cur = cands[idx]
    return cur


def setup():
    translate_params()


def warm():
    run_impl([], "warm")


def jsonable(c):
    return dict(c, ops=[list(o) if o[0] == "overlap" else list(o[:2]) + ([list(o[2])] if len(o) > 2 else []) for o in c["ops"]])


def run(res, tier, seed):
    rng = random.Random(seed * 7919 + 12)
    t0 = time.time()
    try:
        params = translate_params()
    finally:
        res.stage("translate_params", t0)
    res.cov["params"] = params
    # the Go harness runs while coqc checks the theorems
    cases = witness_cases() + overlap_cases(rng, tier) + gen_cases(rng, 10 if tier == "quick" else 400, tier)
    for i, c in enumerate(cases):
        c.setdefault("id", i)
        if c["id"] < 900000:
            c["id"] = i
    from concurrent.futures import ThreadPoolExecutor
    pool = ThreadPoolExecutor(max_workers=1)
    t1 = time.time()
    fut = pool.submit(run_impl, cases, tier)
    failed = vlib.std_proof_stage(res, "C12", AREA, MODULES, THEOREMS, extra_targets=["gen/Params_Tiering.vo", "theories/Tiering/Obligations.vo"])
    res.cov["trusted_base"] += [
        "process-crash model: each of copy (promoted only when the stream completed - C08), UpdateTier (one SQLite statement) and Delete is atomic and durable once it returns",
        "one (database, measurement) with a fixed set of tracked, migration-eligible files; per-database policies, age thresholds, the 48 h reconciliation window, "
        "MigrateBatch concurrency and the 30 s GetTiersForMeasurement cache (dropped by a restart) are not modelled",
        "DuckDB read_parquet over the path list built by buildMultiTierReadParquet is the observable; the licence gate is satisfied by a verif-tagged in-memory licence; "
        "crash points / failures are injected through verif hooks inserted by textual rewrite of the current migrator.go",
        "tools/lib_crash/ctxcalls (go/ast control-context extraction of MigrateFile / ReconcileOrphanedFiles); alist lemmas shared with Arc.Compaction",
    ]
    if tier == "thorough" and hasattr(vlib, "coqchk_stage"):
        ok, _ = vlib.coqchk_stage(res, MODULES)
        if not ok:
            failed.append(("coqchk", "coqchk did not accept the compiled development"))
    out = fut.result()
    pool.shutdown()
    res.stage("impl_harness", t1)
    t2 = time.time()
    r = eval_cases(cases, out, "Cases_C12_%s" % tier)
    res.stage("coq_eval", t2)
    dis, orf, morf = set(r["agree"]), set(r["oracle"]), set(r["moracle"])
    res.cov["evaluations"] = len(cases)
    res.cov["distinct_nontrivial"] = len({canon_hash(c) for c in cases if nontrivial(c)})
    res.cov["rule"] = ("measurements of 2-5 files of 1-40 rows with 0-2 files already cold; every outcome of MigrateFile (done, crash before copy / after copy / "
                       "after metadata / after delete, copy failure, source stream interrupted, metadata failure with and without rollback, source-delete failure) "
                       "followed by reconciliation, plus random histories with scans and whole cycles; non-trivial = a crash or step failure strictly inside a migration; "
                       "distinct by (files, operations)")
    res.cov["model_vs_impl_disagreements"] = len(dis)
    res.cov["oracle_failures"] = len(orf)
    kinds = {}
    for c in cases:
        for o in c["ops"]:
            k = o[0] if o[0] not in ("migrate", "overlap") else (("migrate:" + ":".join(str(x) for x in o[2])) if o[0] == "migrate" else
                                                                  "overlap:%s/%s" % (o[3], o[4]))
            kinds[k] = kinds.get(k, 0) + 1
    res.cov["histogram"] = {"ops": kinds, "files": {str(n): sum(1 for c in cases if len(c["files"]) == n) for n in range(1, 7)},
                            "expect_once": sum(1 for c in cases if c["expect_once"]), "excluded_class": sum(1 for c in cases if excluded_class(c)),
                            "operations_run": sum(len(c["ops"]) for c in cases)}
    res.cov["samples"] = [{"case": jsonable(cases[i]), "final": out[i]["obs"][-1]} for i in (0, len(cases) // 2)]

    known = [k for k in vlib.known_for("C12") if k.get("signature") == SIGNATURE]
    known_ov = [k for k in vlib.known_for("C12") if k.get("signature") == SIGNATURE_OVERLAP]

    def is_known(i):
        """oracle failure in a listed class that the model predicts exactly"""
        if i in dis or i not in morf:
            return None
        c = cases[i]
        if overlap_fault(c) and known_ov:
            return "overlap"
        if excluded_class(c) and known:
            return "orphan"
        return None
    reproduced = {"orphan": 0, "overlap": 0}
    reported = False
    n_bad = sum(1 for i in orf if not is_known(i))
    for i in sorted(orf):
        c = cases[i]
        cls = is_known(i)
        if cls:
            reproduced[cls] += 1
            continue
        if len(res.violations) < 3:
            res.violation("a file unreadable or a row visible twice after a migration history (case %s; %d such cases)" % (c["id"], n_bad),
                          {"kind": "oracle-failure", "case": jsonable(c), "observed": out[i]["obs"], "how_to_replay": "python3 tools/check.py C12 --replay <this file>"})
        reported = True
    if reproduced["orphan"]:
        res.known_finding("a migration interrupted between the cold copy and the metadata update leaves a cold orphan that ReconcileOrphanedFiles never removes; "
                          "the multi-tier read returns its rows twice until the next migration cycle retries the file (%d generated histories incl. the witness)" % reproduced["orphan"])
    if reproduced["overlap"]:
        res.known_finding("two overlapping migrations of one file: a failed metadata update in one of them rolls back by deleting the cold copy the other one commits; "
                          "the file ends up in neither tier (%d forced interleavings)" % reproduced["overlap"])
    res.cov["known_finding_cases"] = reproduced
    if failed and not reported:
        res.violation("proof obligation(s) no longer check: " + "; ".join(x for _, x in failed),
                      {"kind": "obligation-failed", "theorems": [t for t, _ in failed], "detail": [x for _, x in failed], "params": params}, no_input=True, suffix="obligation")
    # inside a known-finding class a passing oracle means the finding was repaired: no alarm
    real_dis = [i for i in sorted(dis) if not (excluded_class(cases[i]) and i not in orf)]
    if real_dis:
        c = cases[real_dis[0]]

        def fails(cands):
            o = run_impl(cands, "shrink")
            rr = eval_cases(cands, o, "Shrink_C12")
            bad = sorted(set(rr["agree"]))
            return bad[0] if bad else None
        try:
            small = dict(shrink_case(c, fails) if len(real_dis) < 40 else c, id=0)
            o = run_impl([small], "shrink")
            rr = eval_cases([small], o, "Shrink_C12")
        except Exception as e:                      # shrinking is best effort: report the unshrunk case
            res.notes.append("shrinking failed: %s" % str(e)[-300:])
            small, o, rr = dict(c, id=0), [out[real_dis[0]]], {"oracle": [0] if real_dis[0] in orf else []}
        res.violation("model and implementation disagree on a migration history",
                      {"kind": "correspondence", "correspondence": TIE_NAME, "case": jsonable(small), "observed": o[0]["obs"], "disagreeing_cases": len(real_dis),
                       "oracle_fails_on_impl": bool(rr["oracle"])}, no_input=not rr["oracle"], suffix="corr")


def replay(res, path):
    obj = json.load(open(path))
    c = obj.get("case")
    if not c:
        print("replay file names no concrete case:", obj.get("summary"))
        return 1
    c = dict(c, id=0)
    c["ops"] = [tuple(o) if o[0] == "overlap" else tuple(o[:2]) + ((tuple(o[2]),) if len(o) > 2 else ()) for o in c["ops"]]
    translate_params()
    out = run_impl([c], "replay")
    r = eval_cases([c], out, "Replay_C12")
    last = out[0]["obs"][-1]
    print("files:", c["files"])
    print("final hot:", last["hot"], "cold:", last["cold"], "meta:", last["meta"], "visible:", last["visible"])
    print("model disagrees:", bool(r["agree"]), "| oracle fails on implementation:", bool(r["oracle"]), "| model predicts failure:", bool(r["moracle"]))
    return 1 if (r["agree"] or r["oracle"]) else 0
