"""C19 - Query responses faithfully encode DuckDB's results (PARTIAL).

Proof: coq/theories/Codec (byte-level model of writeJSONString / writeArrowValue /
streamArrowJSON, encodeColumn + the msgpack primitives it selects, Timestamp/Date32
scaling, drainArrowBatches row cap, arrowTypeName; spec decoders json_scan, parse_int,
utf8_valid, mp_dec_*; theorems C19_* in Props.v).

Tie 1 (model correspondence): the REAL functions run on Arrow arrays built from generated
values (harness/codec, package api, tags verif+duckdb_arrow); every produced byte is
compared with the model inside Coq (case_agrees) and the spec decoders are run on the
implementation's bytes (case_oracle); JSON / MessagePack bodies are additionally decoded
here with Python's json module and an independent MessagePack decoder.

Tie 2 (supporting exploration of the ORACLE half - not proof): generated SELECT lists run
on a real DuckDB through the production writers (function level with a row limit, and over
HTTP for JSON / MessagePack / Arrow IPC); decoded bodies are compared with the values the
statement was generated from and with database/sql.
"""
import decimal
import hashlib
import json
import os
import random
import re
import struct
import time

import vlib
from vlib import cbool, cz

decimal.getcontext().prec = 80

AREA = "Codec"
THEOREMS = [("Arc.Codec.Obligations", "C19_deployed_blob_json")] + [("Arc.Codec.Props", n) for n in (
    "C19_json_blob_text_form", "C19_json_string_roundtrip", "C19_json_string_utf8_guarded", "C19_json_string_utf8_exact",
    "C19_json_column_names", "C19_json_int_roundtrip",
    "C19_json_float_null_rule", "C19_nonfinite_is_ieee", "C19_msgpack_int_roundtrip", "C19_ts_units",
    "C19_date32", "C19_msgpack_str_bin_roundtrip", "C19_limit_prefix", "C19_type_name_decodes", "C19_type_name_determines_wire",
    "C19_json_binary_utf8_refuted")]      # last: the statement about the OLD raw BLOB encoder (fixed in 48e92ae)
MODULES = ["Arc.Codec.Props", "Arc.Codec.Obligations"]
TIE_NAME = ("C19 correspondence (api.writeJSONString/writeArrowValue/streamArrowJSON/encodeColumn/"
            "drainArrowBatches/streamMsgPackFromBatches/arrowTypeName vs Arc.Codec.Model)")
HARNESS = {"internal/api/zz_codec_verif_test.go": "harness/codec/codec_verif_test.go"}
PKG, TEST, TAGS = "./internal/api/", "^TestVerifCodec$", "verif duckdb_arrow"
COQ_HEADER = ("From Coq Require Import List NArith ZArith.\nFrom Arc Require Import Codec.Model.\n"
              "Import ListNotations.\nOpen Scope N_scope.\n")
SIG_BLOB = "json-binary-cell-not-utf8"
SIG_HUGE = "json-hugeint-39-digits-rounded"
SIG_UHUGE = "uhugeint-above-2^127-exported-negative"
SIG_CAST = "decimal-scale0-cell-outside-[-2^63,2^63-2]-fails-the-int64-cast (msgpack 500 / Arrow IPC truncated 200)"

I64 = (-2 ** 63, 2 ** 63 - 1)
RANGES = {"int8": (-128, 127), "int16": (-32768, 32767), "int32": (-2 ** 31, 2 ** 31 - 1), "int64": I64,
          "uint8": (0, 255), "uint16": (0, 65535), "uint32": (0, 2 ** 32 - 1), "uint64": (0, 2 ** 64 - 1)}
CT = {"bool": "TBool", "int8": "TI8", "int16": "TI16", "int32": "TI32", "int64": "TI64", "uint8": "TU8",
      "uint16": "TU16", "uint32": "TU32", "uint64": "TU64", "float32": "TF32", "float64": "TF64",
      "ts_s": "(TTs USec)", "ts_ms": "(TTs UMilli)", "ts_us": "(TTs UMicro)", "ts_ns": "(TTs UNano)",
      "ts_us_tz": "(TTs UMicro)", "date32": "TDate32", "utf8": "TStr", "large_utf8": "TLStr", "binary": "TBin"}
PER_SEC = {"ts_s": 1, "ts_ms": 10 ** 3, "ts_us": 10 ** 6, "ts_ns": 10 ** 9, "ts_us_tz": 10 ** 6}
OTHER = {  # harness type -> (okind term, [Arrow-JSON batches])
    "date64": ("ODate64", ["[86400000, null, 0]", "[-86400000]"]),
    "time32_s": ("OTime32", ["[3661, null]"]), "time32_ms": ("OTime32", ["[3661001]"]),
    "time64_us": ("OTime64", ["[45296789000, null]"]), "time64_ns": ("OTime64", ["[1]"]),
    "duration_s": ("ODuration", ["[5, null, -7]"]), "duration_us": ("ODuration", ["[5]"]),
    "interval_day_time": ("OIntervalDayTime", ['[{"days":1,"milliseconds":2}, null]']),
    "interval_mdn": ("OIntervalMDN", ['[{"months":14,"days":3,"nanoseconds":14706789000000}, null]']),
    "float16": ("OFloat16", ["[1.5, null, -0.25]"]),
    "fixed_size_binary_2": ("OFixedSizeBinary", ['["YWI=", null, "/wA="]']),
    "large_binary": ("OLargeBinary", ['["YWI=", null, "/wA="]']),
    "decimal128_10_2": ("(ODecimal 10 2)", ['["123.45", null, "-0.01"]']),
    "decimal128_38_0": ("(ODecimal 38 0)", ['["99999999999999999999999999999999999999", "5"]']),
    "decimal256_40_3": ("(ODecimal 40 3)", ['["1.5", null]']),
    "list_int32": ("OList", ["[[1,2,null], null, []]", "[[7]]"]),
    "large_list_utf8": ("OLargeList", ['[["a","b\\"c"], null]']),
    "fixed_size_list_int32_2": ("OFixedSizeList", ["[[1,2], null]"]),
    "struct_a_int32_b_utf8": ("OStruct", ['[{"a":1,"b":"x\\ny"}, null, {"a":null,"b":"\\u00e9"}]']),
    "map_utf8_int32": ("OMap", ['[[{"key":"k","value":1}], null]']),
    "dictionary_int32_utf8": (None, ['["a","b","a", null]']),
}


BLOB_MODE = {"duck": False}      # set by translate_params() from the current source


def translate_params():
    """Which encoder does writeArrowValue use for *array.Binary in the CURRENT source?
    -> coq/gen/Params_Codec.v (json_blob_duck_text), re-checked by Obligations.v."""
    src = open(os.path.join(vlib.REPO, "internal/api/query_arrow_json.go")).read()
    m = re.search(r"case \*array\.Binary:\n\s*(\w+)\(([^\n]*)\)\n", src)
    if not m:
        raise vlib.TieBroken("writeArrowValue: `case *array.Binary:` with a single writer call not found")
    if m.group(1) == "writeJSONString" and "string(c.Value(row))" in m.group(2):
        duck = False
    elif m.group(1) == "writeJSONBlob" and "c.Value(row)" in m.group(2):
        duck = True
    else:
        raise vlib.TieBroken("writeArrowValue: unknown BLOB writer %s(%s)" % (m.group(1), m.group(2)))
    BLOB_MODE["duck"] = duck
    vlib.write_params("Params_Codec", "(* GENERATED by tools/props/C19.py from the current /repo sources - do not edit *)\n"
                      "Definition json_blob_duck_text : bool := %s.\n" % ("true" if duck else "false"))
    return duck


def coq_mode():
    return "BlobDuckText" if BLOB_MODE["duck"] else "BlobRaw"


def duck_blob_text(b):
    return "".join(chr(c) if (32 <= c <= 126 and c not in (92, 39, 34)) else "\\x%02X" % c for c in b)


def json_blob_expect(b):
    """the decoded JSON string a BLOB cell must give under the deployed mode (None = cannot be valid JSON)"""
    if BLOB_MODE["duck"]:
        return duck_blob_text(b)
    return b.decode("utf-8") if utf8_ok(b) else None


# --------------------------------------------------------------------------------------
# independent reference formatters / decoders (Python side of the oracle)
# --------------------------------------------------------------------------------------

def go_float_text(x):
    """strconv.AppendFloat(_, x, 'f', -1, 64) for a finite double, re-derived from repr()."""
    d = decimal.Decimal(repr(x))
    sign, digits, exp = d.as_tuple()
    ds = "".join(map(str, digits)).lstrip("0")
    if ds == "":
        return "-0" if sign else "0"
    while ds.endswith("0"):
        ds, exp = ds[:-1], exp + 1
    if exp >= 0:
        s = ds + "0" * exp
    elif len(ds) > -exp:
        s = ds[:exp] + "." + ds[exp:]
    else:
        s = "0." + "0" * (-exp - len(ds)) + ds
    return ("-" if sign else "") + s


def f64(bits):
    return struct.unpack(">d", struct.pack(">Q", bits))[0]


def f32(bits):
    return struct.unpack(">f", struct.pack(">I", bits))[0]


def f64bits(x):
    return struct.unpack(">Q", struct.pack(">d", x))[0]


def nonfinite64(bits):
    return (bits >> 52) & 0x7ff == 0x7ff


def nonfinite32(bits):
    return (bits >> 23) & 0xff == 0xff


def civil_from_days(z):
    z += 719468
    era = z // 146097
    doe = z - era * 146097
    yoe = (doe - doe // 1460 + doe // 36524 - doe // 146096) // 365
    y = yoe + era * 400
    doy = doe - (365 * yoe + yoe // 4 - yoe // 100)
    mp = (5 * doy + 2) // 153
    d = doy - (153 * mp + 2) // 5 + 1
    m = mp + 3 if mp < 10 else mp - 9
    return (y + 1 if m <= 2 else y), m, d


def rfc3339nano(sec, nsec):
    """time.Unix(sec, nsec).UTC().AppendFormat(_, time.RFC3339Nano), independent of Go."""
    days, rem = divmod(sec, 86400)
    y, m, d = civil_from_days(days)
    ys = "%04d" % y if y >= 0 else "-%04d" % (-y)
    s = "%s-%02d-%02dT%02d:%02d:%02d" % (ys, m, d, rem // 3600, rem // 60 % 60, rem % 60)
    if nsec:
        s += ("." + "%09d" % nsec).rstrip("0")
    return s + "Z"


GO_TIME_SAFE = -9223372028715321600 + 10 ** 10    # below this time.Time's absolute seconds wrap


def ts_split(typ, v):
    p = PER_SEC[typ]
    return v // p, (v % p) * (10 ** 9 // p)


def utf8_ok(b):
    try:
        b.decode("utf-8")
        return True
    except UnicodeDecodeError:
        return False


class MPError(Exception):
    pass


def mp_decode(b, pos=0):
    """Independent MessagePack decoder -> (value, next position).  str -> ('s', bytes),
    bin -> ('x', bytes), float -> ('f', bits) / ('g', bits32), timestamp -> ('t', sec, ns)."""
    if pos >= len(b):
        raise MPError("truncated")
    c = b[pos]
    pos += 1

    def take(n):
        nonlocal pos
        if pos + n > len(b):
            raise MPError("truncated")
        r = b[pos:pos + n]
        pos += n
        return r
    if c <= 0x7f:
        return c, pos
    if c >= 0xe0:
        return c - 256, pos
    if 0x80 <= c <= 0x8f or c in (0xde, 0xdf):
        n = c & 15 if c <= 0x8f else int.from_bytes(take(2 if c == 0xde else 4), "big")
        out = []
        for _ in range(n):
            k, pos = mp_decode(b, pos)
            v, pos = mp_decode(b, pos)
            out.append((k, v))
        return ("map", out), pos
    if 0x90 <= c <= 0x9f or c in (0xdc, 0xdd):
        n = c & 15 if c <= 0x9f else int.from_bytes(take(2 if c == 0xdc else 4), "big")
        out = []
        for _ in range(n):
            v, pos = mp_decode(b, pos)
            out.append(v)
        return out, pos
    if 0xa0 <= c <= 0xbf:
        return ("s", take(c & 31)), pos
    if c == 0xc0:
        return None, pos
    if c in (0xc2, 0xc3):
        return c == 0xc3, pos
    if c in (0xc4, 0xc5, 0xc6):
        n = int.from_bytes(take(1 << (c - 0xc4)), "big")
        return ("x", take(n)), pos
    if c in (0xd9, 0xda, 0xdb):
        n = int.from_bytes(take(1 << (c - 0xd9)), "big")
        return ("s", take(n)), pos
    if c == 0xca:
        return ("g", int.from_bytes(take(4), "big")), pos
    if c == 0xcb:
        return ("f", int.from_bytes(take(8), "big")), pos
    if 0xcc <= c <= 0xcf:
        return int.from_bytes(take(1 << (c - 0xcc)), "big"), pos
    if 0xd0 <= c <= 0xd3:
        return int.from_bytes(take(1 << (c - 0xd0)), "big", signed=True), pos
    if c in (0xd4, 0xd5, 0xd6, 0xd7, 0xd8, 0xc7, 0xc8, 0xc9):
        if c >= 0xd4:
            n = 1 << (c - 0xd4)
        else:
            n = int.from_bytes(take(1 << (c - 0xc7)), "big")
        ty = int.from_bytes(take(1), "big", signed=True)
        data = take(n)
        if ty == -1 and n == 4:
            return ("t", int.from_bytes(data, "big"), 0), pos
        if ty == -1 and n == 8:
            v = int.from_bytes(data, "big")
            return ("t", v & (2 ** 34 - 1), v >> 34), pos
        if ty == -1 and n == 12:
            return ("t", int.from_bytes(data[4:], "big", signed=True), int.from_bytes(data[:4], "big")), pos
        return ("ext", ty, data), pos
    raise MPError("bad code 0x%02x" % c)


def mp_document(b):
    v, pos = mp_decode(b, 0)
    if pos != len(b):
        raise MPError("trailing bytes")
    if not (isinstance(v, tuple) and v[0] == "map"):
        raise MPError("not a map")
    d = {}
    for k, val in v[1]:
        d[k[1].decode()] = val
    return d


# --------------------------------------------------------------------------------------
# cells: python representation {"k": kind, ...} -> harness string / Coq term
# --------------------------------------------------------------------------------------

def cell_txt(typ, c):
    """oracle text carried by float / time cells (computed here, not by Go)."""
    if c is None:
        return None
    if typ == "float64":
        return b"" if nonfinite64(c) else go_float_text(f64(c)).encode()
    if typ == "float32":
        return b"" if nonfinite32(c) else go_float_text(f32(c)).encode()
    if typ in PER_SEC:
        s, n = ts_split(typ, c)
        return rfc3339nano(s, n).encode() if s >= GO_TIME_SAFE else None
    if typ == "date32":
        return rfc3339nano(c * 86400, 0).encode()
    return None


def cell_harness(typ, c):
    if c is None:
        return None
    if typ in ("utf8", "large_utf8", "binary"):
        return c.hex()
    if typ == "bool":
        return "1" if c else "0"
    return str(c)


def clist(items):
    """prefix cons/nil form: coqc elaborates the [a; b; c] notation ~20x slower"""
    items = list(items)
    if not items:
        return "nil"
    return "(" + "".join("cons %s (" % x for x in items) + "nil" + ")" * len(items) + ")"


def cb(b):
    """bytes -> Coq `list N` term; long runs of one byte become `repeat x n` (coqc's parser
    overflows its stack on list literals with tens of thousands of elements)."""
    if not b:
        return "nil"
    if len(b) < 4:
        return clist(str(x) for x in b)
    if len(b) < 2000:
        return "(pk 0x%x)" % (int.from_bytes(b, "little") | (1 << (8 * len(b))))
    parts, i = [], 0
    while i < len(b):
        j = i
        while j < len(b) and b[j] == b[i]:
            j += 1
        if j - i >= 64:
            parts.append("repeat %d (N.to_nat %d)" % (b[i], j - i))
            i = j
        else:
            k = i
            while k < len(b) and not (k + 64 <= len(b) and len(set(b[k:k + 64])) == 1) and k - i < 1500:
                k += 1
            parts.append("(pk 0x%x)" % (int.from_bytes(b[i:k], "little") | (1 << (8 * (k - i)))))
            i = k
    return "(" + " ++ ".join(parts) + ")"


def cell_coq(typ, c, txt=None):
    if c is None:
        return "Null"
    if typ == "bool":
        return "(VBool %s)" % cbool(c)
    if typ in RANGES:
        return "(VInt %s)" % cz(c)
    if typ in ("float32", "float64"):
        return "(VFloat %d %s)" % (c, cb(txt if txt is not None else cell_txt(typ, c)))
    if typ in PER_SEC or typ == "date32":
        t = txt if txt is not None else cell_txt(typ, c)
        return "(VTime %s %s)" % (cz(c), cb(t))
    return "(VBytes %s)" % cb(c)


# --------------------------------------------------------------------------------------
# generators
# --------------------------------------------------------------------------------------

UTF8_SNIPS = [b"\xc3\xa9", b"\xe2\x80\xa8", b"\xe2\x80\xa9", b"\xf0\x9f\x98\x80", b"\xef\xbf\xbd", b"\xd7\x90", b"\xe4\xb8\xad",
              b"\xed\x9f\xbf", b"\xee\x80\x80", b"\xf4\x8f\xbf\xbf", b"\xc2\x80"]
BAD_SNIPS = [b"\x80", b"\xff", b"\xc0\xaf", b"\xe2\x80", b"\xed\xa0\x80", b"\xf5\x80\x80\x80", b"\xc3", b"\xfe", b"\xf0\x9f"]


def gen_bytes(rng, valid_utf8, maxlen=60):
    out = b""
    n = rng.choice([0, 1, 2, 3, 5, 8, 13, 30, maxlen])
    while len(out) < n:
        k = rng.random()
        if k < 0.30:
            out += bytes([rng.randrange(32, 127)])
        elif k < 0.42:
            out += rng.choice([b'"', b"\\", b"/", b"'"])
        elif k < 0.60:
            out += bytes([rng.randrange(0, 32)])
        elif k < 0.64:
            out += b"\x7f"
        elif k < 0.70:
            out += rng.choice([b"\\u0041", b"\\n", b'\\"', b"\\\\"])
        elif k < 0.85 or valid_utf8:
            out += rng.choice(UTF8_SNIPS)
        else:
            out += rng.choice(BAD_SNIPS)
        if rng.random() < 0.08:
            out += bytes(rng.randrange(97, 123) for _ in range(rng.choice([20, 70, 130])))   # long clean segment
    return out


def int_edges(lo, hi):
    cand = [0, 1, -1, 31, 32, 127, 128, 255, 256, 32767, 32768, 65535, 65536, 2 ** 31 - 1, 2 ** 31, 2 ** 32 - 1, 2 ** 32,
            2 ** 63 - 1, 2 ** 63, 2 ** 64 - 1, -31, -32, -33, -127, -128, -129, -32768, -32769, -2 ** 31, -2 ** 31 - 1, -2 ** 63, -2 ** 63 + 1]
    return sorted({c for c in cand if lo <= c <= hi} | {lo, hi})


F64_EDGES = [0, 1 << 63, 0x3ff0000000000000, 0x3fb999999999999a, 0x7ff8000000000000, 0x7ff8000000000001, 0xfff8000000000000,
             0x7ff0000000000000, 0xfff0000000000000, 0x7ff0000000000001, 1, 0x7fefffffffffffff, 0x444b1ae4d6e2ef50, 0x3e7ad7f29abcaf48,
             0x419d6f3454800000, 0xc08f400000000000, 0x4340000000000000, 0x433fffffffffffff, 0x000fffffffffffff, 0x0010000000000000]
F32_EDGES = [0, 1 << 31, 0x3f800000, 0x3dcccccd, 0x7fc00000, 0xffc00000, 0x7f800000, 0xff800000, 0x7f800001, 1, 0x7f7fffff,
             0x4b800000, 0x33d6bf95, 0x00800000, 0x007fffff, 0xc2f70000]


def ts_edges(p):
    secs = [0, 1, -1, 2 ** 32 - 1, 2 ** 32, 2 ** 34 - 1, 2 ** 34, -2 ** 34, 1700000000, -62135596800, 253402300799, 9223372036, -9223372037]
    out = set()
    for s in secs:
        for frac in (0, 1, p - 1, p // 2 + 1):
            if frac < p or p == 1:
                out.add(s * p + (frac if p > 1 else 0))
    out |= {I64[0], I64[1], I64[0] + 1, I64[1] - 1, -p, -p - 1, -p + 1, p, 999, 1000, 1001, -999, -1000, -1001}
    return sorted(v for v in out if I64[0] <= v <= I64[1])


DATE_EDGES = [0, 1, -1, 49710, 49711, 198841, 198842, -719162, 2932896, 12345, 2 ** 31 - 1, -2 ** 31, 2 ** 31 - 2, -2 ** 31 + 1, -141427, 106751991]

NATIVE = ["bool", "int8", "int16", "int32", "int64", "uint8", "uint16", "uint32", "uint64", "float32", "float64",
          "ts_s", "ts_ms", "ts_us", "ts_ns", "ts_us_tz", "date32", "utf8", "large_utf8", "binary"]


def gen_value(rng, typ, allow_bad_blob=True, go_safe=False):
    if go_safe and typ in PER_SEC:
        while True:
            v = gen_value(rng, typ)
            if ts_split(typ, v)[0] >= GO_TIME_SAFE:
                return v
    if typ == "bool":
        return rng.random() < 0.5
    if typ in RANGES:
        lo, hi = RANGES[typ]
        return rng.choice(int_edges(lo, hi)) if rng.random() < 0.6 else rng.randint(lo, hi)
    if typ == "float64":
        return rng.choice(F64_EDGES) if rng.random() < 0.5 else rng.choice(
            [rng.getrandbits(64), f64bits(rng.uniform(-1e6, 1e6)), f64bits(rng.randint(-10 ** 6, 10 ** 6) / 8), f64bits(10.0 ** rng.randint(-30, 40))])
    if typ == "float32":
        return rng.choice(F32_EDGES) if rng.random() < 0.5 else rng.getrandbits(32)
    if typ in PER_SEC:
        p = PER_SEC[typ]
        return rng.choice(ts_edges(p)) if rng.random() < 0.6 else rng.choice(
            [rng.randint(*I64), rng.randint(-4 * 10 ** 9, 4 * 10 ** 9) * p + rng.randrange(p), rng.randint(-2 ** 40, 2 ** 40)])
    if typ == "date32":
        return rng.choice(DATE_EDGES) if rng.random() < 0.6 else rng.randint(-2 ** 31, 2 ** 31 - 1)
    if typ in ("utf8", "large_utf8"):
        return gen_bytes(rng, True)
    if typ == "binary":
        return gen_bytes(rng, not (allow_bad_blob and rng.random() < 0.35))
    raise ValueError(typ)


def split_batches(rng, items, nb):
    cuts = sorted(rng.randint(0, len(items)) for _ in range(nb - 1))
    out, prev = [], 0
    for c in cuts + [len(items)]:
        out.append(items[prev:c])
        prev = c
    return out


def gen_cases(rng, tier):
    q = tier == "quick"
    cases = []
    # --- JSON string writer
    fixed = [b"", b'"', b"\\", b"\x00", b"\x1f", b" ", b"\x7f", bytes(range(0, 40)), b'a"b\\c\nd\re\tf\x08g\x0ch', b"\xe2\x80\xa8\xe2\x80\xa9",
             b"\xff", b"\xc3", b"\xed\xa0\x80", bytes(range(128, 256)), b"x" * 200, b"x" * 63 + b'"' + b"y" * 64, b"\\u0000", b'\\"']
    for s in fixed:
        cases.append({"kind": "jstr", "s": s})
    for _ in range(230 if q else 4000):
        cases.append({"kind": "jstr", "s": gen_bytes(rng, rng.random() < 0.7, rng.choice([60, 60, 200]))})
    cases.append({"kind": "jarr", "arr": []})
    for _ in range(30 if q else 400):
        cases.append({"kind": "jarr", "arr": [gen_bytes(rng, True, 20) for _ in range(rng.randint(1, 6))]})
    # --- columns of every natively encoded type
    for typ in NATIVE:
        if typ in RANGES:
            edges = int_edges(*RANGES[typ])
        elif typ == "float64":
            edges = F64_EDGES
        elif typ == "float32":
            edges = F32_EDGES
        elif typ in PER_SEC:
            edges = ts_edges(PER_SEC[typ])
        elif typ == "date32":
            edges = DATE_EDGES
        elif typ == "bool":
            edges = [True, False]
        else:
            edges = [b"", b"a" * 31, b"b" * 32, b"c" * 255, b"d" * 256, b'q"\\\n', b"\xc3\xa9" * 20]
            if typ == "binary":
                edges += [b"\xff\x00\xfe", bytes(range(256))]
        vals = list(edges)
        vals.insert(len(vals) // 2, None)
        cases.append({"kind": "col", "type": typ, "batches": [vals[:len(vals) // 3], vals[len(vals) // 3:]]})
        for _ in range(6 if q else 80):
            n = rng.randint(0, 12)
            vals = [None if rng.random() < 0.15 else gen_value(rng, typ) for _ in range(n)]
            cases.append({"kind": "col", "type": typ, "batches": split_batches(rng, vals, rng.randint(1, 3))})
    for typ in ("utf8", "binary"):       # str16/str32 and bin16/bin32 headers
        for n in (65535, 65536):
            cases.append({"kind": "col", "type": typ, "batches": [[bytes([97 + n % 7]) * n]]})
    for typ, (_, js) in OTHER.items():
        cases.append({"kind": "col", "type": typ, "json": js})
    # --- whole responses with a row limit
    for i in range(130 if q else 2500):
        ncols = rng.randint(1, 6)
        types = [rng.choice(NATIVE) for _ in range(ncols)]
        if i % 5 == 0:
            types = (["int32", "float64", "utf8", "ts_us", "binary", "uint64", "date32", "bool"] * 2)[i % 8:i % 8 + max(3, ncols)]
        total = rng.choice([0, 1, 2, 3, 5, 8, 13, 21])
        rows = [[None if rng.random() < 0.2 else gen_value(rng, t, allow_bad_blob=(i % 11 == 0), go_safe=True) for t in types] for _ in range(total)]
        batches = split_batches(rng, rows, rng.randint(1, 4)) if rng.random() < 0.9 else []
        if not batches:
            rows = []
        edges = [0, 0, 1, total, total + 1, max(total - 1, 1), rng.randint(1, total + 2)]
        acc = 0
        for b in batches:
            acc += len(b)
            edges += [acc, acc + 1, max(acc - 1, 1)]
        limit = rng.choice([e for e in edges if e >= 0])
        names = [rng.choice([b"c%d" % k, b"time", gen_bytes(rng, True, 8) or b"x", b'a"b', b"\xc3\xa9t\xc3\xa9"]) for k in range(len(types))]
        cases.append({"kind": "result", "names": names, "types": types, "batches": batches, "limit": limit})
    return cases


def to_harness(i, c):
    k = c["kind"]
    if k == "jstr":
        return {"id": i, "kind": k, "s": c["s"].hex()}
    if k == "jarr":
        return {"id": i, "kind": k, "arr": [s.hex() for s in c["arr"]]}
    if k == "col":
        col = {"name": "63", "type": c["type"]}
        if "json" in c:
            col["json"] = c["json"]
        else:
            col["batches"] = [[cell_harness(c["type"], v) for v in b] for b in c["batches"]]
        return {"id": i, "kind": k, "cols": [col]}
    if k == "result":
        cols = []
        for j, t in enumerate(c["types"]):
            cols.append({"name": c["names"][j].hex(), "type": t,
                         "batches": [[cell_harness(t, r[j]) for r in b] for b in c["batches"]]})
        return {"id": i, "kind": k, "cols": cols, "limit": c["limit"]}
    if k == "e2e":
        return {"id": i, "kind": k, "sql": c["sql"], "limit": c.get("limit", 0), "http": c.get("http", True)}
    raise ValueError(k)


def hx(s):
    return bytes.fromhex(s or "")


JSON_TAIL = re.compile(rb',"execution_time_ms":\d+(\.\d+)?,"timestamp":"2024-01-15T12:00:00Z"\}$')


def split_json_body(body):
    m = JSON_TAIL.search(body)
    return (body[:m.start()], True) if m else (body, False)


MP_TAIL_KEY = b"\xb1execution_time_ms"


def split_mp_body(body):
    i = body.rfind(MP_TAIL_KEY)
    if i < 0:
        return body, False
    try:
        v, pos = mp_decode(body, i + len(MP_TAIL_KEY))
        k, pos = mp_decode(body, pos)
        t, pos = mp_decode(body, pos)
        ok = isinstance(v, int) and k == ("s", b"timestamp") and t == ("s", b"2024-01-15T12:00:00Z") and pos == len(body)
    except MPError:
        ok = False
    return body[:i], ok


def to_coq(c, o):
    """Coq term of the case with the implementation's observations; None when the harness
    reported an error for the case."""
    k = c["kind"]
    if o.get("err"):
        return None
    if k == "jstr":
        return "CJStr %s %s" % (cb(c["s"]), cb(hx(o.get("out"))))
    if k == "jarr":
        return "CJArr %s %s" % (clist([cb(s) for s in c["arr"]]), cb(hx(o.get("out"))))
    if k == "col":
        typ = c["type"]
        jc = o.get("jsoncell") or []
        if "json" in c:
            kind = OTHER[typ][0]
            if kind is None:
                tn = hx(o["typename"].encode().hex())
                assert tn.startswith(b"unknown:")
                kind = "(OUnknown %s)" % cb(tn[len(b"unknown:"):])
            ct = "(TOther %s)" % kind
            batches = []
            for bi, vs in enumerate(o.get("valuestr") or []):
                batches.append([None if o["nulls"][bi][ci] else hx(v) for ci, v in enumerate(vs)])
            c["_cells"] = batches
            cells = [[("(VBytes %s)" % cb(v)) if v is not None else "Null" for v in b] for b in batches]
        else:
            ct = CT[typ]
            cells = []
            for bi, b in enumerate(c["batches"]):
                row = []
                for ci, v in enumerate(b):
                    txt = cell_txt(typ, v)
                    if v is not None and txt is None and (typ in PER_SEC):      # Go time wraps: text taken from the run
                        tok = hx(jc[bi][ci])
                        txt = tok[1:-1]
                        c.setdefault("_txt_from_impl", 0)
                        c["_txt_from_impl"] += 1
                    row.append(cell_coq(typ, v, txt))
                cells.append(row)
        return "CCol %s %s %s %s %s %s" % (coq_mode(), ct, cb(o.get("typename", "").encode()), clist([clist(b) for b in cells]),
                                        clist([clist([cb(hx(x)) for x in b]) for b in jc]), cb(hx(o.get("msgpack"))))
    if k == "result":
        jb, jok = split_json_body(hx(o.get("jsonbody")))
        mb, mok = split_mp_body(hx(o.get("mpbody")))
        c["_tail_ok"] = jok and mok and not o.get("jsonerr") and not o.get("mperr")
        types = c["types"]
        rows = []
        for b in c["batches"]:
            rb = []
            for r in b:
                cells = []
                for t, v in zip(types, r):
                    txt = cell_txt(t, v)
                    if v is not None and txt is None and t in PER_SEC:
                        txt = b"?"          # never generated for results (values kept in Go's safe range)
                    cells.append(cell_coq(t, v, txt))
                rb.append(clist(cells))
            rows.append(clist(rb))
        return "CResult %s %s %s %d %s %s %d %s %d %s" % (
            coq_mode(), clist([cb(n) for n in c["names"]]), clist([CT[t] for t in types]), c["limit"], clist(rows),
            cb(jb), o.get("jsonrc", 0), cb(mb), o.get("mprc", 0), clist([str(x) for x in (o.get("drained") or [])]))
    raise ValueError(k)


def has_bad_blob(c):
    if BLOB_MODE["duck"]:
        return False
    if c["kind"] == "col" and c["type"] == "binary" and "batches" in c:
        return any(v is not None and not utf8_ok(v) for b in c["batches"] for v in b)
    if c["kind"] == "result":
        return any(t == "binary" and r[j] is not None and not utf8_ok(r[j])
                   for b in c["batches"] for r in b for j, t in enumerate(c["types"]))
    return False


def limited_rows(c):
    rows = [r for b in c["batches"] for r in b]
    return rows[:c["limit"]] if c["limit"] > 0 else rows


def py_check_result(c, o):
    """Decode the two bodies with decoders independent of the Go code and compare with the
    generated rows.  Returns a list of problem strings (prefix 'KNOWN:' for the blob class)."""
    probs = []
    rows = limited_rows(c)
    types = c["types"]
    body = hx(o.get("jsonbody"))
    try:
        doc = json.loads(body.decode("utf-8"), parse_float=lambda s: ("num", s), parse_int=lambda s: ("num", s))
    except UnicodeDecodeError:
        doc = None
        probs.append(("KNOWN:" if has_bad_blob(c) else "") + "json body is not valid UTF-8")
    except ValueError as e:
        doc = None
        probs.append("json body does not parse: %s" % e)
    if doc is not None:
        if [n.encode("utf-8", "surrogatepass") for n in doc.get("columns", [])] != c["names"]:
            probs.append("json columns differ")
        if doc.get("row_count") != ("num", str(len(rows))) or len(doc.get("data", [])) != len(rows):
            probs.append("json row_count/data length differ from the first `limit` rows")
        else:
            for r, got in zip(rows, doc["data"]):
                for t, v, g in zip(types, r, got):
                    p = json_cell_problem(t, v, g)
                    if p:
                        probs.append("json cell: " + p)
    try:
        d = mp_document(hx(o.get("mpbody")))
        if [x[1] for x in d["columns"]] != c["names"]:
            probs.append("msgpack columns differ")
        if d["row_count"] != len(rows) or len(d["data"]) != len(types) or any(len(col) != len(rows) for col in d["data"]):
            probs.append("msgpack row_count/data shape differ from the first `limit` rows")
        else:
            for j, t in enumerate(types):
                for r, g in zip(rows, d["data"][j]):
                    p = mp_cell_problem(t, r[j], g)
                    if p:
                        probs.append("msgpack cell: " + p)
    except (MPError, KeyError, IndexError, TypeError) as e:
        probs.append("msgpack body does not decode: %r" % (e,))
    return probs


def json_cell_problem(t, v, g):
    if v is None:
        return None if g is None else "%s NULL decoded as %r" % (t, g)
    if t == "bool":
        return None if g is v else "bool %r decoded as %r" % (v, g)
    if t in RANGES:
        return None if g == ("num", str(v)) else "%s %d decoded as %r" % (t, v, g)
    if t in ("float32", "float64"):
        nf = nonfinite32(v) if t == "float32" else nonfinite64(v)
        x = f32(v) if t == "float32" else f64(v)
        if nf:
            return None if g is None else "non-finite %s decoded as %r" % (t, g)
        if not (isinstance(g, tuple) and f64bits(float(g[1])) == f64bits(x)):
            return "%s bits %d decoded as %r" % (t, v, g)
        return None
    if t in PER_SEC or t == "date32":
        s, n = ts_split(t, v) if t in PER_SEC else (v * 86400, 0)
        return None if g == rfc3339nano(s, n) else "%s %d decoded as %r" % (t, v, g)
    want = json_blob_expect(v) if t == "binary" else v.decode("utf-8", "replace")
    return None if g == want else "%s %r decoded as %r" % (t, v, g)


def mp_cell_problem(t, v, g):
    if v is None:
        return None if g is None else "%s NULL decoded as %r" % (t, g)
    if t == "bool":
        return None if g is v else "bool %r decoded as %r" % (v, g)
    if t in RANGES:
        return None if (isinstance(g, int) and not isinstance(g, bool) and g == v) else "%s %d decoded as %r" % (t, v, g)
    if t == "float64":
        return None if g == ("f", v) else "float64 bits %d decoded as %r" % (v, g)
    if t == "float32":
        return None if g == ("g", v) else "float32 bits %d decoded as %r" % (v, g)
    if t in PER_SEC or t == "date32":
        s, n = ts_split(t, v) if t in PER_SEC else (v * 86400, 0)
        return None if g == ("t", s, n) else "%s %d decoded as %r" % (t, v, g)
    if t == "binary":
        return None if g == ("x", v) else "binary %r decoded as %r" % (v, g)
    return None if g == ("s", v) else "%s %r decoded as %r" % (t, v, g)


def canon(c):
    def enc(x):
        if isinstance(x, bytes):
            return "h:" + x.hex()
        if isinstance(x, list):
            return [enc(y) for y in x]
        return x
    return json.dumps({k: enc(v) for k, v in c.items() if not k.startswith("_")}, sort_keys=True)


def decanon(s):
    def dec(x):
        if isinstance(x, str) and x.startswith("h:"):
            return bytes.fromhex(x[2:])
        if isinstance(x, list):
            return [dec(y) for y in x]
        return x
    return {k: (v if k in ("kind", "type", "types", "json", "sql") else dec(v)) for k, v in json.loads(s).items()}


def nontrivial(c):
    k = c["kind"]
    if k == "jstr":
        return any(x < 32 or x in (34, 92) for x in c["s"]) and len(c["s"]) >= 2
    if k == "jarr":
        return len(c["arr"]) >= 2
    if k == "col":
        if "json" in c:
            return True
        vals = [v for b in c["batches"] for v in b]
        return any(v is None for v in vals) and len({repr(v) for v in vals if v is not None}) >= 2
    if k == "result":
        rows = [r for b in c["batches"] for r in b]
        return len(set(c["types"])) >= 3 and any(v is None for r in rows for v in r)
    if k == "e2e":
        return c.get("ntypes", 0) >= 3 and c.get("has_null", False)
    return False


# --------------------------------------------------------------------------------------
# running
# --------------------------------------------------------------------------------------

def run_harness(cases, tag):
    hc = [to_harness(i, c) for i, c in enumerate(cases)]
    out = vlib.run_go_harness("C19", PKG, TEST, HARNESS, hc, tags=TAGS, timeout=2400, tag=tag)
    if not isinstance(out, list) or len(out) != len(cases):
        raise vlib.TieBroken("C19 harness returned %s results for %d cases" % (len(out) if isinstance(out, list) else "no", len(cases)))
    return out


def evaluate(cases, outs, name):
    """-> (disagree idx, oracle-fail idx, harness-error idx)"""
    terms, idx, errs = [], [], []
    for i, (c, o) in enumerate(zip(cases, outs)):
        if c["kind"] == "e2e":
            continue
        t = to_coq(c, o)
        if t is None:
            errs.append(i)
            continue
        terms.append(t)
        idx.append(i)
    preds = {"agree": "case_agrees", "oracle": "case_oracle"}
    step = 70
    offs = list(range(0, len(terms), step))

    def one(off):
        return off, vlib.coq_check_cases("C19", COQ_HEADER, "vcase", terms[off:off + step], preds, chunk=step,
                                         name="%s_%d" % (name, off), timeout=1800)
    r = {"agree": [], "oracle": []}
    if offs:
        from concurrent.futures import ThreadPoolExecutor
        with ThreadPoolExecutor(max_workers=min(8, len(offs))) as ex:
            for off, part in ex.map(one, offs):
                for k in r:
                    r[k] += [off + x for x in part[k]]
    return [idx[x] for x in sorted(r["agree"])], [idx[x] for x in sorted(r["oracle"])], errs


def shrink_case(c):
    """candidate reductions of a failing case (one level)."""
    k = c["kind"]
    out = []
    if k == "jstr":
        s = c["s"]
        for a in range(0, len(s), max(1, len(s) // 8)):
            out.append(dict(c, s=s[:a] + s[a + max(1, len(s) // 8):]))
        if len(s) > 1:
            out += [dict(c, s=s[:len(s) // 2]), dict(c, s=s[len(s) // 2:])]
    elif k == "jarr":
        for i in range(len(c["arr"])):
            out.append(dict(c, arr=c["arr"][:i] + c["arr"][i + 1:]))
    elif k == "col" and "batches" in c:
        bs = c["batches"]
        for bi in range(len(bs)):
            if len(bs) > 1:
                out.append(dict(c, batches=bs[:bi] + bs[bi + 1:]))
            for ci in range(len(bs[bi])):
                out.append(dict(c, batches=bs[:bi] + [bs[bi][:ci] + bs[bi][ci + 1:]] + bs[bi + 1:]))
    elif k == "result":
        bs = c["batches"]
        for j in range(len(c["types"])):
            if len(c["types"]) > 1:
                out.append(dict(c, types=c["types"][:j] + c["types"][j + 1:], names=c["names"][:j] + c["names"][j + 1:],
                                batches=[[r[:j] + r[j + 1:] for r in b] for b in bs]))
        for bi in range(len(bs)):
            for ri in range(len(bs[bi])):
                out.append(dict(c, batches=bs[:bi] + [bs[bi][:ri] + bs[bi][ri + 1:]] + bs[bi + 1:]))
        if c["limit"] > 1:
            out.append(dict(c, limit=c["limit"] - 1))
    return [{k2: v for k2, v in x.items() if not k2.startswith("_")} for x in out[:40]]


def shrink(c, pred_name):
    """greedy shrinking; every round evaluates all candidates in ONE harness + ONE coqc run."""
    cur = {k: v for k, v in c.items() if not k.startswith("_")}
    for rnd in range(5):
        cands = shrink_case(cur)
        if not cands:
            break
        try:
            outs = run_harness(cands, "shrink")
            dis, orf, errs = evaluate(cands, outs, "Shrink")
        except (vlib.TieBroken, vlib.InfraError):
            break
        bad = set(dis if pred_name == "agree" else orf)
        nxt = [cands[i] for i in sorted(bad)]
        if not nxt:
            break
        cur = min(nxt, key=lambda x: len(canon(x)))
    return cur


# --------------------------------------------------------------------------------------
# part 2: exploration on the real DuckDB (oracle half)
# --------------------------------------------------------------------------------------

def sql_lit(t, v):
    if v is None:
        return "NULL::%s" % SQLT[t]
    if t in ("TINYINT", "SMALLINT", "INTEGER", "BIGINT", "UTINYINT", "USMALLINT", "UINTEGER", "UBIGINT", "HUGEINT", "UHUGEINT"):
        return "(%d)::%s" % (v, t)
    if t == "DOUBLE" or t == "FLOAT":
        x = f64(v) if t == "DOUBLE" else f32(v)
        if x != x:
            return "'NaN'::%s" % t
        if x in (float("inf"), float("-inf")):
            return "'%sInfinity'::%s" % ("-" if x < 0 else "", t)
        return "'%s'::%s" % (repr(x), t)
    if t == "BOOLEAN":
        return "true" if v else "false"
    if t == "VARCHAR":
        return "decode(from_hex('%s'))" % v.hex() if v else "''::VARCHAR"
    if t == "BLOB":
        return "from_hex('%s')" % v.hex()
    if t == "DATE":
        return "(DATE '1970-01-01' + (%d)::INTEGER)" % v
    if t == "TIMESTAMP":
        return "make_timestamp((%d)::BIGINT)" % v
    if t == "TIMESTAMP_S":
        return "make_timestamp((%d)::BIGINT)::TIMESTAMP_S" % (v * 10 ** 6)
    if t == "TIMESTAMP_MS":
        return "make_timestamp((%d)::BIGINT)::TIMESTAMP_MS" % (v * 10 ** 3)
    if t == "TIMESTAMP_NS":
        return "make_timestamp_ns((%d)::BIGINT)" % v
    if t == "TIMESTAMPTZ":
        return "make_timestamp((%d)::BIGINT)::TIMESTAMPTZ" % v
    if t.startswith("DECIMAL"):
        return "'%s'::%s" % (v, t)
    if t == "INTERVAL":
        return "(to_months(%d) + to_days(%d) + to_microseconds(%d))" % v
    if t == "INTLIST":
        return "[" + ", ".join("NULL" if x is None else str(x) for x in v) + "]::INTEGER[]"
    if t == "TIME":
        return "TIME '%02d:%02d:%02d.%06d'" % (v // 3600000000, v // 60000000 % 60, v // 1000000 % 60, v % 1000000)
    raise ValueError(t)


SQLT = {t: t for t in ("TINYINT", "SMALLINT", "INTEGER", "BIGINT", "UTINYINT", "USMALLINT", "UINTEGER", "UBIGINT", "HUGEINT", "UHUGEINT",
                       "DOUBLE", "FLOAT", "BOOLEAN", "VARCHAR", "BLOB", "DATE", "TIMESTAMP", "TIMESTAMP_S", "TIMESTAMP_MS", "TIMESTAMP_NS",
                       "TIMESTAMPTZ", "INTERVAL", "TIME")}
SQLT["INTLIST"] = "INTEGER[]"
SQL_INT = {"TINYINT": "int8", "SMALLINT": "int16", "INTEGER": "int32", "BIGINT": "int64", "UTINYINT": "uint8", "USMALLINT": "uint16",
           "UINTEGER": "uint32", "UBIGINT": "uint64"}
TS_US_RANGE = (-9223372022400000000 + 10 ** 6, 9223372036854775806)


def e2e_value(rng, t):
    if t in SQL_INT:
        lo, hi = RANGES[SQL_INT[t]]
        return rng.choice(int_edges(lo, hi) + [rng.randint(lo, hi)])
    if t == "HUGEINT":
        return rng.choice([0, 5, -5, 2 ** 63 - 1, 2 ** 63 - 2, -2 ** 63, 2 ** 63, -2 ** 63 - 1, 10 ** 38 - 1, 10 ** 38, -(10 ** 38), 2 ** 127 - 1, -2 ** 127 + 1, rng.randint(-2 ** 62, 2 ** 62)])
    if t == "UHUGEINT":
        return rng.choice([0, 7, 2 ** 63 - 1, 2 ** 64, 10 ** 38 - 1, 2 ** 127 - 1, 2 ** 127, 2 ** 128 - 1])
    if t == "DOUBLE":
        return rng.choice(F64_EDGES[:9] + F64_EDGES[10:] + [f64bits(rng.uniform(-1e9, 1e9)), f64bits(rng.randint(-999, 999) / 16)])
    if t == "FLOAT":
        return rng.choice(F32_EDGES[:8] + F32_EDGES[9:])
    if t == "BOOLEAN":
        return rng.random() < 0.5
    if t == "VARCHAR":
        return gen_bytes(rng, True, 30)
    if t == "BLOB":
        return gen_bytes(rng, rng.random() < 0.6, 20)
    if t == "DATE":
        return rng.choice([0, 1, -1, 49710, 49711, 19000, -719162, 2932896, rng.randint(-700000, 2900000)])
    if t in ("TIMESTAMP", "TIMESTAMPTZ"):
        return rng.choice([0, 1, -1, 999999, 1000000, -1000000, 1700000000123456, 253402300799999999, -62135596800000000,
                           2 ** 32 * 10 ** 6, 2 ** 34 * 10 ** 6 - 1, 2 ** 34 * 10 ** 6, rng.randint(-2 ** 55, 2 ** 55), TS_US_RANGE[1], -9223372022400000000 + 10 ** 7])
    if t == "TIMESTAMP_S":
        return rng.choice([0, -1, 1700000000, 2 ** 32 - 1, 2 ** 32, 2 ** 34, rng.randint(-2 ** 35, 2 ** 35), 9223372036854])
    if t == "TIMESTAMP_MS":
        return rng.choice([0, -1, 1, 999, -999, 1700000000123, 2 ** 32 * 1000 + 1, rng.randint(-2 ** 45, 2 ** 45), 9223372036854775])
    if t == "TIMESTAMP_NS":
        return rng.choice([0, -1, 1, 999999999, -999999999, 1700000000123456789, 2 ** 63 - 1000, -2 ** 63 + 10 ** 10, rng.randint(-2 ** 62, 2 ** 62)])
    if t.startswith("DECIMAL"):
        p, s = map(int, re.findall(r"\d+", t))
        n = rng.choice([0, 1, -1, 10 ** p - 1, -(10 ** p - 1), 12345, rng.randint(-(10 ** p - 1), 10 ** p - 1), 2 ** 53 + 1 if p > 16 else 7])
        n = max(-(10 ** p - 1), min(10 ** p - 1, n))
        d = decimal.Decimal(n).scaleb(-s)
        return format(d, "f")
    if t == "INTERVAL":
        return (rng.randint(-30, 30), rng.randint(-40, 40), rng.randint(-10 ** 11, 10 ** 11))
    if t == "INTLIST":
        return [None if rng.random() < 0.2 else rng.randint(-99, 99) for _ in range(rng.randint(0, 4))]
    if t == "TIME":
        return rng.randrange(0, 86400 * 10 ** 6)
    raise ValueError(t)


E2E_TYPES = list(SQL_INT) + ["HUGEINT", "UHUGEINT", "DOUBLE", "FLOAT", "BOOLEAN", "VARCHAR", "BLOB", "DATE", "TIMESTAMP", "TIMESTAMP_S",
                             "TIMESTAMP_MS", "TIMESTAMP_NS", "TIMESTAMPTZ", "DECIMAL(10,2)", "DECIMAL(18,0)", "DECIMAL(20,3)", "DECIMAL(38,0)",
                             "INTERVAL", "INTLIST", "TIME"]
for _t in E2E_TYPES:
    SQLT.setdefault(_t, _t)


def gen_e2e(rng, tier):
    cases = []
    # the three witnesses of the known findings first
    cases.append({"kind": "e2e", "witness": SIG_BLOB, "types": ["INTEGER", "BLOB"], "rows": [[1, b"\xff\x00\xfe"]], "limit": 0})
    cases.append({"kind": "e2e", "witness": SIG_HUGE, "types": ["HUGEINT"], "rows": [[2 ** 127 - 1]], "limit": 0})
    cases.append({"kind": "e2e", "witness": SIG_UHUGE, "types": ["UHUGEINT"], "rows": [[2 ** 128 - 1]], "limit": 0})
    n = 28 if tier == "quick" else 400
    for i in range(n):
        ncols = rng.randint(3, 7)
        types = [rng.choice(E2E_TYPES) for _ in range(ncols)]
        if i < len(E2E_TYPES):
            types[0] = E2E_TYPES[i]              # every type appears
        nrows = rng.randint(1, 5)
        rows = [[None if rng.random() < 0.15 else e2e_value(rng, t) for t in types] for _ in range(nrows)]
        cases.append({"kind": "e2e", "types": types, "rows": rows, "limit": rng.choice([0, 0, 1, nrows, nrows + 1])})
    # multi-batch results (DuckDB hands out 2048-row Arrow batches)
    for total, limit in ([(2049, 2048), (4100, 2500), (2048, 0)] if tier == "quick" else
                         [(2048, 0), (2049, 2048), (5000, 2500), (4096, 4097), (6000, 2049), (20000, 10001), (4097, 1), (12000, 0)]):
        cases.append({"kind": "e2e", "range": total, "limit": limit})
    for c in cases:
        if "range" in c:
            c["sql"] = ("SELECT i::INTEGER AS a, (i * 3000000007)::BIGINT AS b, 's' || i::VARCHAR AS c, "
                        "CASE WHEN i %% 7 = 0 THEN NULL ELSE (i / 4)::DOUBLE END AS d, make_timestamp((i * 1000001)::BIGINT) AS e, "
                        "(i %% 2 = 0) AS f FROM range(%d) t(i) ORDER BY i" % c["range"])
            c["ntypes"], c["has_null"] = 6, True
        else:
            names = ["c%d" % j for j in range(len(c["types"]))]
            vals = ", ".join("(" + ", ".join(sql_lit(t, v) for t, v in zip(c["types"], r)) + ")" for r in c["rows"])
            c["sql"] = "SELECT * FROM (VALUES %s) AS t(%s)" % (vals, ", ".join(names))
            c["ntypes"] = len(set(c["types"]))
            c["has_null"] = any(v is None for r in c["rows"] for v in r)
        c["http"] = True
    return cases


def e2e_expected_rows(c):
    if "range" in c:
        out = []
        for i in range(c["range"]):
            out.append([i, i * 3000000007, ("s%d" % i).encode(), None if i % 7 == 0 else f64bits(i / 4), i * 1000001, i % 2 == 0])
        return ["INTEGER", "BIGINT", "VARCHAR", "DOUBLE", "TIMESTAMP", "BOOLEAN"], out
    return c["types"], c["rows"]


def dec_to_float_bits(s):
    return f64bits(float(decimal.Decimal(s)))


def e2e_class(t, v):
    """known / documented deviation classes of a (type, value)"""
    if v is None:
        return None
    if t == "BLOB" and not utf8_ok(v) and not BLOB_MODE["duck"]:
        return SIG_BLOB
    if t == "UHUGEINT" and v >= 2 ** 127:
        return SIG_UHUGE
    if t in ("HUGEINT", "UHUGEINT", "DECIMAL(38,0)"):
        n = int(v)
        if abs(n) >= 10 ** 38:
            return SIG_HUGE
    return None


def e2e_ref(t, v):
    """expected canonical database/sql value (harness verifSQLCanon)"""
    if v is None:
        return "null"
    if t in SQL_INT or t in ("HUGEINT", "UHUGEINT"):
        return "i:%d" % v
    if t == "DOUBLE":
        return "f:%d" % v
    if t == "FLOAT":
        return "g:%d" % v
    if t == "BOOLEAN":
        return "b:1" if v else "b:0"
    if t == "VARCHAR":
        return "s:" + v.hex()
    if t == "BLOB":
        return "x:" + v.hex()
    if t == "DATE":
        return "t:%d:0" % (v * 86400)
    if t in ("TIMESTAMP", "TIMESTAMPTZ"):
        return "t:%d:%d" % ts_split("ts_us", v)
    if t == "TIMESTAMP_S":
        return "t:%d:0" % v
    if t == "TIMESTAMP_MS":
        return "t:%d:%d" % ts_split("ts_ms", v)
    if t == "TIMESTAMP_NS":
        return "t:%d:%d" % ts_split("ts_ns", v)
    if t.startswith("DECIMAL"):
        return "o:duckdb.Decimal:" + v
    return None          # interval / list / time: reference form not compared


def arrow_text(t, v):
    """Arrow ValueStr text the fallback branch emits for the types without a native encoder"""
    if t == "INTERVAL":
        return '{"months":%d,"days":%d,"nanoseconds":%d}' % (v[0], v[1], v[2] * 1000)
    if t == "INTLIST":
        return "[" + ",".join("null" if x is None else str(x) for x in v) + "]"
    if t == "TIME":
        return "%02d:%02d:%02d.%06d" % (v // 3600000000, v // 60000000 % 60, v // 1000000 % 60, v % 1000000)
    return None


def e2e_json_problem(t, v, g):
    if v is None:
        return None if g is None else "NULL decoded as %r" % (g,)
    if t in SQL_INT:
        return None if g == ("num", str(v)) else "decoded as %r" % (g,)
    if t in ("HUGEINT", "UHUGEINT", "DECIMAL(38,0)", "DECIMAL(18,0)"):
        return None if g == str(int(v)) else "decoded as %r" % (g,)
    if t.startswith("DECIMAL"):
        return None if isinstance(g, str) and decimal.Decimal(g) == decimal.Decimal(v) and g == v else "decoded as %r" % (g,)
    if t in ("DOUBLE", "FLOAT"):
        return json_cell_problem("float64" if t == "DOUBLE" else "float32", v, g)
    if t == "BOOLEAN":
        return None if g is v else "decoded as %r" % (g,)
    if t == "VARCHAR":
        return None if g == v.decode() else "decoded as %r" % (g,)
    if t == "BLOB":
        return None if g == json_blob_expect(v) else "decoded as %r" % (g,)
    if t == "DATE":
        return None if g == rfc3339nano(v * 86400, 0) else "decoded as %r" % (g,)
    if t in ("TIMESTAMP", "TIMESTAMPTZ", "TIMESTAMP_S", "TIMESTAMP_MS", "TIMESTAMP_NS"):
        u = {"TIMESTAMP": "ts_us", "TIMESTAMPTZ": "ts_us", "TIMESTAMP_S": "ts_s", "TIMESTAMP_MS": "ts_ms", "TIMESTAMP_NS": "ts_ns"}[t]
        return None if g == rfc3339nano(*ts_split(u, v)) else "decoded as %r" % (g,)
    return None if g == arrow_text(t, v) else "decoded as %r" % (g,)


def e2e_mp_problem(t, v, g, arrow=False):
    """g: decoded msgpack value, or (arrow=True) the harness' canonical Arrow IPC cell"""
    if v is None:
        return None if g in (None, "null") else "NULL decoded as %r" % (g,)
    if t in SQL_INT:
        want = "i:%d" % v if arrow else v
        return None if g == want and not isinstance(g, bool) else "decoded as %r" % (g,)
    if t in ("HUGEINT", "UHUGEINT", "DECIMAL(38,0)", "DECIMAL(18,0)"):
        want = "i:%d" % int(v) if arrow else int(v)        # documented: decimal(x,0) -> int64
        return None if g == want and not isinstance(g, bool) else "decoded as %r" % (g,)
    if t.startswith("DECIMAL"):                             # documented: decimal(x,y) -> float64
        want = dec_to_float_bits(v)
        if g == (("f:%d" % want) if arrow else ("f", want)):
            return None
        try:
            got = int(g[2:]) if arrow else g[1]
            if (g[0] == "f") and abs(got - want) <= 2:
                return "ULP: float64 %r is %d ulp away from the nearest double" % (f64(got), abs(got - want))
        except (ValueError, TypeError, IndexError):
            pass
        return "decoded as %r" % (g,)
    if t == "DOUBLE":
        return None if g == (("f:%d" % v) if arrow else ("f", v)) else "decoded as %r" % (g,)
    if t == "FLOAT":
        return None if g == (("g:%d" % v) if arrow else ("g", v)) else "decoded as %r" % (g,)
    if t == "BOOLEAN":
        return None if g == (("b:1" if v else "b:0") if arrow else v) else "decoded as %r" % (g,)
    if t == "VARCHAR":
        return None if g == (("s:" + v.hex()) if arrow else ("s", v)) else "decoded as %r" % (g,)
    if t == "BLOB":
        return None if g == (("x:" + v.hex()) if arrow else ("x", v)) else "decoded as %r" % (g,)
    if t == "DATE":
        return None if g == (("d:%d" % v) if arrow else ("t", v * 86400, 0)) else "decoded as %r" % (g,)
    if t in ("TIMESTAMP", "TIMESTAMPTZ", "TIMESTAMP_S", "TIMESTAMP_MS", "TIMESTAMP_NS"):
        u = {"TIMESTAMP": "us", "TIMESTAMPTZ": "us", "TIMESTAMP_S": "s", "TIMESTAMP_MS": "ms", "TIMESTAMP_NS": "ns"}[t]
        want = ("ts:%s:%d" % (u, v)) if arrow else ("t",) + ts_split("ts_" + u, v)
        return None if g == want else "decoded as %r" % (g,)
    txt = arrow_text(t, v)
    want = ("o:" + txt.encode().hex()) if arrow else ("s", txt.encode())
    return None if g == want else "decoded as %r" % (g,)


def check_e2e(c, o):
    """-> list of (format, signature-or-None, message).  signature None = unexplained."""
    types, rows = e2e_expected_rows(c)
    limited = rows[:c["limit"]] if c.get("limit", 0) > 0 else rows
    probs = []
    if o.get("err"):
        return [("harness", None, o["err"])]
    if o.get("sqlerr"):
        return [("generator", "generator-statement-rejected-by-duckdb", "reference query failed: " + o["sqlerr"][:200])]
    ref = o.get("sqlvals") or []
    gen_bug = len(ref) != len(rows)
    for r, got in zip(rows, ref):
        for t, v, g in zip(types, r, got):
            want = e2e_ref(t, v)
            if want is not None and want != g:
                gen_bug = True
    if gen_bug:
        return [("generator", "generator-expectation-differs-from-database/sql", "the values the statement was generated from differ from database/sql: not judged")]
    cls = sorted({e2e_class(t, v) for r in rows for t, v in zip(types, r)} - {None})

    def judge(fmt, sig_ok, cellprob, t, v):
        k = e2e_class(t, v)
        if cellprob.startswith("ULP:"):
            probs.append((fmt, "decimal-to-float64-cast-within-2ulp-of-nearest", "%s %s %s" % (t, v, cellprob)))
            return
        probs.append((fmt, k if (k in sig_ok) else None, "%s %r %s" % (t, v if not isinstance(v, bytes) else v.hex(), cellprob)))

    # Documented conversion limit of the msgpack / Arrow IPC paths (normalizeDecimalSchema +
    # castDecimalBatch -> arrow compute.CastArray with SafeCastOptions): a decimal(x,0) column
    # (HUGEINT, UHUGEINT, DECIMAL(p,0), SUM over integers) is cast to int64 and the request FAILS
    # (msgpack: drain error / HTTP 500; Arrow IPC: headers already committed, HTTP 200 with a stream
    # that carries the schema and no further rows) iff some cell is outside
    # [-2^63, 2^63-2].  The upper bound excludes MaxInt64 itself because arrow-go v18.6.0
    # decimalToIntImpl tests `v.GreaterEqual(max)` (third-party off-by-one, not Arc code).
    def fits_cast(t, v):
        if v is None or t not in ("HUGEINT", "UHUGEINT", "DECIMAL(38,0)", "DECIMAL(18,0)"):
            return True
        n = int(v)
        if t == "UHUGEINT" and n >= 2 ** 127:
            n -= 2 ** 128                       # what DuckDB's decimal(38,0) export carries
        return I64[0] <= n <= I64[1] - 1
    out_of_i64 = not all(fits_cast(t, v) for r in rows for t, v in zip(types, r))

    def check_json(label, body, rws):
        try:
            doc = json.loads(body.decode("utf-8"), parse_float=lambda s: ("num", s), parse_int=lambda s: ("num", s))
        except UnicodeDecodeError:
            probs.append((label, SIG_BLOB if SIG_BLOB in cls else None, "body is not valid UTF-8 (not a JSON text)"))
            return
        except ValueError as e:
            probs.append((label, None, "body does not parse: %s" % e))
            return
        if doc.get("success") is not True or len(doc.get("data", [])) != len(rws) or doc.get("row_count") != ("num", str(len(rws))):
            probs.append((label, None, "row count %r / %d rows, expected %d" % (doc.get("row_count"), len(doc.get("data", [])), len(rws))))
            return
        if doc.get("columns") != ["c%d" % j for j in range(len(types))] and "range" not in c:
            probs.append((label, None, "columns %r" % doc.get("columns")))
        for r, got in zip(rws, doc["data"]):
            for t, v, g in zip(types, r, got):
                p = e2e_json_problem(t, v, g)
                if p:
                    judge(label, (SIG_HUGE, SIG_UHUGE, SIG_BLOB), p, t, v)

    def check_mp(label, body, rws, err):
        if err or not body:
            sig = SIG_CAST if out_of_i64 else None
            probs.append((label, sig, "no body: %s" % (err or "empty")))
            return
        try:
            d = mp_document(body)
            if d.get("success") is not True or d["row_count"] != len(rws) or len(d["data"]) != len(types) or any(len(x) != len(rws) for x in d["data"]):
                probs.append((label, None, "shape: row_count %r" % (d.get("row_count"),)))
                return
            for j, t in enumerate(types):
                for r, g in zip(rws, d["data"][j]):
                    p = e2e_mp_problem(t, r[j], g)
                    if p:
                        judge(label, (SIG_UHUGE,), p, t, r[j])
        except (MPError, KeyError, TypeError, IndexError) as e:
            probs.append((label, None, "does not decode: %r" % (e,)))

    check_json("json(limit)", hx(o.get("jsonbody")), limited)
    check_mp("msgpack(limit)", hx(o.get("mpbody")), limited, o.get("mperr"))
    if c.get("http"):
        if o.get("httpjsonst") == 200:
            check_json("http-json", hx(o.get("httpjson")), rows)
        else:
            probs.append(("http-json", None, "status %r" % o.get("httpjsonst")))
        if o.get("httpmpst") == 200:
            check_mp("http-msgpack", hx(o.get("httpmp")), rows, None)
        else:
            probs.append(("http-msgpack", SIG_CAST if out_of_i64 else None, "status %r" % o.get("httpmpst")))
        av = o.get("arrvals")
        if o.get("httparrst") != 200 or o.get("httparrerr") or (av is None and rows):
            probs.append(("http-arrow", SIG_CAST if out_of_i64 else None,
                          "status %r %s" % (o.get("httparrst"), (o.get("httparrerr") or "")[:200])))
        else:
            av = av or []
            if len(av) != len(rows):
                probs.append(("http-arrow", None, "%d rows, expected %d" % (len(av), len(rows))))
            for r, got in zip(rows, av):
                for t, v, g in zip(types, r, got):
                    p = e2e_mp_problem(t, v, g, arrow=True)
                    if p:
                        judge("http-arrow", (SIG_UHUGE,), p, t, v)
    return probs


# --------------------------------------------------------------------------------------

def setup():
    translate_params()


def warm():
    run_harness([], "warm")


def load_corpus():
    d = os.path.join(vlib.ROOT, "corpus", "C19")
    out = []
    if os.path.isdir(d):
        for f in sorted(os.listdir(d)):
            if f.endswith(".json"):
                obj = json.load(open(os.path.join(d, f)))
                if obj.get("case"):
                    out.append(decanon(json.dumps(obj["case"])))
    return out


def run(res, tier, seed):
    rng = random.Random(seed * 1000003 + 19)
    t0 = time.time()
    try:
        duck = translate_params()
    finally:
        res.stage("translate_params", t0)
    res.cov["params"] = {"json_blob_duck_text": duck}
    failed = vlib.std_proof_stage(res, "C19", AREA, MODULES, THEOREMS, extra_targets=["theories/Codec/Obligations.vo"])
    if tier == "thorough":
        ok, _ = vlib.coqchk_stage(res, MODULES)
        if not ok:
            failed.append(("coqchk", "coqchk rejected the compiled Codec modules or reported inadmissible axioms"))
    res.cov["trusted_base"] += [
        "ORACLES (inputs of the model): strconv.AppendFloat text of finite floats and time.AppendFormat RFC3339Nano text (both re-derived "
        "independently in tools/props/C19.py and compared on every case), Arrow ValueStr text of types without a native encoder, "
        "Arrow arrays / DuckDB's Arrow export, arrow compute.CastArray (decimal normalisation), Arrow IPC writer",
        "msgpack/v6 primitives (EncodeInt/Uint/Int64/Uint64/Float/String/Bytes/Time/ArrayLen/MapLen) and arrow Timestamp.ToTime / "
        "Date32.ToTime are modelled from their source and tied only by the correspondence",
        "spec decoders written for this property: json_scan (RFC 8259 strings, surrogate escapes rejected), parse_int, json_number_ok, "
        "utf8_valid (RFC 3629), mp_dec_int/str/bin/time (MessagePack spec, timestamp ext -1)",
        "response tails (execution_time_ms, timestamp) and the optional profile object are checked structurally, not modelled",
        "executeArrowMsgPackQuery's composition normalizeDecimalSchema -> drainArrowBatches -> streamMsgPackFromBatches is re-composed by the harness for the row-limit cases",
    ]
    known = {e["signature"]: e for e in vlib.known_for("C19")}

    t0 = time.time()
    cases = load_corpus() + gen_cases(rng, tier)
    e2e = gen_e2e(rng, tier)
    allc = cases + e2e
    outs = run_harness(allc, tier)
    res.stage("impl_harness", t0)
    t1 = time.time()
    dis, orf, errs = evaluate(allc, outs, "Cases_" + tier)
    res.stage("coq_eval", t1)

    t2 = time.time()
    py_fail, known_hits = [], {}
    for i, (c, o) in enumerate(zip(cases, outs)):
        if c["kind"] == "result":
            probs = py_check_result(c, o)
            if not c.get("_tail_ok", True):
                probs.append("response tail (execution_time_ms / timestamp) malformed or stream error")
            unk = [p for p in probs if not p.startswith("KNOWN:")]
            if unk:
                py_fail.append((i, unk))
            elif probs:
                known_hits.setdefault(SIG_BLOB, []).append(i)
    res.stage("python_decode", t2)

    # ---- classify Coq oracle failures
    violations = 0
    for i in orf:
        c = allc[i]
        if i in dis:
            continue
        if has_bad_blob(c) and SIG_BLOB in known:
            known_hits.setdefault(SIG_BLOB, []).append(i)      # model agrees (i not in dis): predicted exactly
        else:
            small = shrink(c, "oracle")
            res.violation("spec decoder rejects the real encoder's output (%s case)" % c["kind"],
                          {"kind": "oracle-on-implementation", "case": json.loads(canon(small)), "original_case_index": i,
                           "how_to_replay": "python3 tools/check.py C19 --replay <this file>"}, suffix="oracle")
            violations += 1
            if violations >= 3:
                break
    for i, unk in py_fail[:3]:
        res.violation("independent decoding of the response differs from the generated rows: " + unk[0],
                      {"kind": "decoded-response-differs", "case": json.loads(canon(allc[i])), "problems": unk[:10]}, suffix="decode")
    for i in errs[:3]:
        res.violation("real encoder failed on a generated case: %s" % outs[i].get("err"),
                      {"kind": "encoder-error", "case": json.loads(canon(allc[i])), "error": outs[i].get("err")}, suffix="error")
    if dis:
        i = dis[0]
        small = shrink(allc[i], "agree")
        so = run_harness([small], "shrunk")
        d2, o2, _ = evaluate([small], so, "Shrunk")
        pyp = py_check_result(small, so[0]) if small["kind"] == "result" else []
        fails = bool(o2) or any(not p.startswith("KNOWN:") for p in pyp)
        res.violation("model and implementation disagree on a %s case" % small["kind"],
                      {"kind": "correspondence", "correspondence": TIE_NAME, "case": json.loads(canon(small)),
                       "observed": {k: v for k, v in so[0].items() if k in ("out", "jsoncell", "msgpack", "typename", "jsonrc", "mprc", "drained", "jsonbody", "mpbody", "err")},
                       "disagreeing_cases": len(dis), "oracle_fails_on_impl": fails}, no_input=not fails, suffix="corr")

    # ---- exploration (oracle half)
    t3 = time.time()
    expl = {"statements": len(e2e), "statements_all_formats_agree": 0, "cells_compared": 0, "deviations": {}, "unexplained": [],
            "arrow_types_seen": {}, "batches_max": 0}
    for c, o in zip(e2e, outs[len(cases):]):
        types, rows = e2e_expected_rows(c)
        expl["cells_compared"] += len(rows) * len(types) * 6
        for s in o.get("schema") or []:
            expl["arrow_types_seen"][s] = expl["arrow_types_seen"].get(s, 0) + 1
        expl["batches_max"] = max(expl["batches_max"], len(o.get("batchrows") or []))
        probs = check_e2e(c, o)
        if not probs:
            expl["statements_all_formats_agree"] += 1
        for fmt, sig, msg in probs:
            if sig in (SIG_BLOB, SIG_HUGE, SIG_UHUGE) and sig not in known:
                sig = None                      # a finding that is not (or no longer) listed as open
            if sig is None:
                expl["unexplained"].append({"sql": c["sql"][:2000], "format": fmt, "problem": msg[:300]})
            else:
                expl["deviations"].setdefault(sig, {"count": 0, "example": None})
                expl["deviations"][sig]["count"] += 1
                expl["deviations"][sig]["example"] = expl["deviations"][sig]["example"] or {"sql": c["sql"][:600], "format": fmt, "problem": msg[:300]}
                if sig in known:
                    known_hits.setdefault(sig, []).append(c["sql"][:200])
    res.stage("exploration_compare", t3)
    for u in expl["unexplained"][:3]:
        res.violation("real response differs from DuckDB's values (database/sql agrees with the generator): %s %s" % (u["format"], u["problem"]),
                      {"kind": "e2e-response-differs", "sql": u["sql"], "format": u["format"], "problem": u["problem"],
                       "note": "found by the exploration of the oracle half (real DuckDB through the production writers)"}, suffix="e2e")
    expl["unexplained_count"] = len(expl["unexplained"])
    expl["unexplained"] = expl["unexplained"][:5]
    expl["note"] = ("SUPPORTING EXPLORATION, NOT PROOF: Arrow arrays, DuckDB's Arrow export, ValueStr/decimal text and the Arrow IPC writer are oracles; "
                    "documented conversions accepted: non-finite floats -> JSON null, decimal(x,0) -> int64 (the request fails when a cell is outside "
                    "[-2^63, 2^63-2]; MaxInt64 itself is rejected by arrow-go's decimalToIntImpl `GreaterEqual(max)`) and decimal(x,y>0) -> float64 within 2 ulp "
                    "of the nearest double on the msgpack/Arrow paths, types without a native encoder -> Arrow ValueStr text")
    res.cov["oracle_half_exploration"] = expl

    for sig, hits in sorted(known_hits.items()):
        res.known_finding("%s (%s; reproduced on %d case(s) this run)" % (known[sig]["what"], sig, len(hits)) if sig in known else sig)

    if failed:
        res.violation("proof obligation(s) no longer check: " + "; ".join(r for _, r in failed),
                      {"kind": "obligation-failed", "theorems": [t for t, _ in failed], "detail": [r for _, r in failed],
                       "search": "all generated cases were run on the implementation; failing inputs (if any) are reported separately"},
                      no_input=not (orf or py_fail or dis), suffix="obligation")

    # ---- coverage numbers (measured)
    res.cov["evaluations"] = len(allc)
    keys = {hashlib.sha1(canon(c).encode()).hexdigest() for c in allc if nontrivial(c)}
    res.cov["distinct_nontrivial"] = len(keys)
    res.cov["rule"] = ("distinct by canonical hash of the case; non-trivial = jstr: >= 2 bytes with >= 1 byte needing an escape; jarr: >= 2 names; "
                       "col: >= 1 NULL and >= 2 distinct values (or a type without native encoder); result / SELECT: >= 3 column types and >= 1 NULL")
    kinds = {}
    for c in allc:
        kinds[c["kind"]] = kinds.get(c["kind"], 0) + 1
    res.cov["histogram"] = {
        "kinds": kinds,
        "col_types": {t: sum(1 for c in cases if c["kind"] == "col" and c["type"] == t) for t in NATIVE + list(OTHER)},
        "result_limits": {"unlimited": sum(1 for c in cases if c["kind"] == "result" and c["limit"] == 0),
                          "cuts_inside_or_at_batch_edge": sum(1 for c in cases if c["kind"] == "result" and 0 < c["limit"] < sum(len(b) for b in c["batches"])),
                          "at_or_above_total": sum(1 for c in cases if c["kind"] == "result" and c["limit"] >= max(1, sum(len(b) for b in c["batches"])))},
        "cells": sum(len(b) for c in cases if c["kind"] == "col" and "batches" in c for b in c["batches"])
        + sum(len(r) for c in cases if c["kind"] == "result" for b in c["batches"] for r in b),
        "time_text_taken_from_run_because_go_time_wraps": sum(c.get("_txt_from_impl", 0) for c in cases),
        "binary_cells_not_utf8_cases": sum(1 for c in cases if has_bad_blob(c)),
    }
    res.cov["model_vs_impl_disagreements"] = len(dis)
    res.cov["oracle_failures"] = len(orf) + len(py_fail)
    res.cov["oracle_failures_known_class"] = sum(1 for i in orf if has_bad_blob(allc[i]))
    res.cov["harness_errors"] = len(errs)
    samp = [json.loads(canon(cases[k])) for k in (len(cases) // 3, len(cases) - 5)]
    res.cov["samples"] = samp + [{"sql": e2e[5]["sql"][:400]}]


def replay(res, path):
    translate_params()
    obj = json.load(open(path))
    if obj.get("sql"):
        c = {"kind": "e2e", "sql": obj["sql"], "limit": 0, "http": True}
        o = run_harness([c], "replay")[0]
        for k in ("sqlvals", "schema", "jsonerr", "mperr", "httpjsonst", "httpmpst", "httparrst", "httparrerr", "arrvals"):
            print(k, ":", str(o.get(k))[:600])
        print("json body:", hx(o.get("jsonbody"))[:800])
        print("problem recorded:", obj.get("problem"))
        return 1
    if not obj.get("case"):
        print("replay file names no concrete case:", obj.get("summary"))
        return 1
    c = decanon(json.dumps(obj["case"]))
    o = run_harness([c], "replay")
    d, orf, errs = evaluate([c], o, "Replay")
    pyp = py_check_result(c, o[0]) if c["kind"] == "result" else []
    print("observed:", {k: (v if len(str(v)) < 400 else str(v)[:400] + "...") for k, v in o[0].items() if v not in (None, "", [], 0)})
    print("model disagrees:", bool(d), "| spec decoders reject implementation output:", bool(orf), "| encoder error:", bool(errs),
          "| python decode problems:", pyp[:5])
    return 1 if (d or orf or errs or pyp) else 0
