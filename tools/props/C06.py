"""C06 - The WAL reader returns only intact entries in append order.

Proof: coq/theories/Wal (byte-level model of Writer framing/rotation, ParseEnvelope,
Reader.ReadAll/readEntry, Recovery).  C06_intact / C06_intact_ops / C06_rotation_recover (all
entry sequences), C06_truncation (EVERY truncation offset: exactly the maximal prefix of
complete frames), C06_corruption_refuted (one changed length byte + a frame embedded in a
payload => fabricated entry) and C06_corruption_guarded (every position, every byte value:
subsequence, provided a damaged length byte does not meet a ghost frame).

Tie 1 (translator): the format constants are re-extracted from wal.go, evaluated by the Go
compiler, written to coq/gen/Params_Wal.v; Obligations.v re-checks the layout facts.
Tie 2 (correspondence): the REAL wal.Writer (incl. rotation) writes generated append sequences
(raw, enveloped, row format); for every file EVERY truncation offset and every single-byte
substitution from a small alphabet per position (full alphabet on the low length byte) is
read back with the REAL Reader.ReadAll (plus Recovery runs); observations are compared inside
Coq with read_all on the same bytes, and the property itself is evaluated on the observations.
"""
import hashlib
import json
import os
import random
import re
import struct
import time
from concurrent.futures import ThreadPoolExecutor

import lib_wal as W
import vlib

PID = "C06"
AREA = "Wal"
P = "Arc.Wal.Props"
O = "Arc.Wal.Obligations"
# plain names: one coqc run prints the assumptions of all of them (Props and Obligations loaded together)
THEOREMS = ["C06_intact", "C06_intact_ops", "C06_rotation_recover", "C06_truncation", "C06_truncation_prefix_maximal",
            "C06_reader_terminates", "C06_corruption_refuted", "C06_corruption_guarded", "C06_ghost_cert_sound",
            "C06_guarded_hypotheses_satisfiable", "C06_excluded_class_nonempty", "C06_no_panic_needed",
            "C06_intact_truncation_nonvacuous",
            "C06_params_layout", "C06_params_header_accepted"]
MODULES = [P, O]
TIE_NAME = "C06 correspondence (wal.Writer / Reader.ReadAll / Recovery vs Arc.Wal.Model.writer_files / read_all / recover) / Params_Wal"
HDR = 7
SIG_GHOST = "length-byte-corruption+frame-embedded-in-payload"
SIG_PANIC = "appended-payload-01-ffxx-envelope-length-wraps"


# ---------------------------------------------------------------------------------------------
# generators
# ---------------------------------------------------------------------------------------------

def rand_name(rng, lo=1, hi=6):
    return "".join(rng.choice("abcdexyz_") for _ in range(rng.randint(lo, hi)))


def gen_columnar(rng):
    cols = {}
    n = rng.randint(1, 3)
    for _ in range(rng.randint(1, 2)):
        kind = rng.choice("ifs")
        if kind == "i":
            cols[rand_name(rng, 1, 3)] = [rng.choice([0, 1, 127, 128, 255, 256, 65535, -1, 70000]) for _ in range(n)]
        elif kind == "f":
            cols[rand_name(rng, 1, 3)] = [rng.choice([0.5, -1.25, 1e9]) for _ in range(n)]
        else:
            cols[rand_name(rng, 1, 3)] = [rand_name(rng, 0, 5) for _ in range(n)]
    return W.mp_columnar(rand_name(rng, 1, 4), cols)


def gen_rows(rng):
    return [{"_database": rand_name(rng, 1, 4), "_measurement": rand_name(rng, 1, 4), rand_name(rng, 1, 2): rng.choice([1.5, 2.0, "s", True])}
            for _ in range(rng.randint(1, 2))]


def gen_op(rng):
    r = rng.random()
    if r < 0.30:
        return {"k": "meta", "db": rand_name(rng, 0, 5).encode().hex(), "p": gen_columnar(rng).hex()}
    if r < 0.50:
        return {"k": "raw", "p": gen_columnar(rng).hex()}
    if r < 0.70:
        return {"k": "rows", "rows": gen_rows(rng)}
    if r < 0.80:          # replication receiver: AppendRaw of an already enveloped payload
        return {"k": "raw", "p": W.envelope(rand_name(rng, 1, 4).encode(), gen_columnar(rng)).hex()}
    if r < 0.85:          # enveloped row-format payload
        return {"k": "meta", "db": rand_name(rng, 1, 4).encode().hex(), "p": W.mp_val(gen_rows(rng)).hex()}
    edge = rng.choice([b"", b"\xc0", b"\x90", b"\xff\x00", b"\x01\x00\x09\xab", b"\x01\x00\x00", b"\x80", b"\x01",
                       b"\x81\xa1m\xa1x", b"\x01\x00\x01\x41\xc0"])
    if rng.random() < 0.5:
        return {"k": "raw", "p": edge.hex()}
    return {"k": "meta", "db": rng.choice([b"", b"d"]).hex(), "p": edge.hex()}


def gen_log(rng, lid):
    ops = [gen_op(rng) for _ in range(rng.randint(2, 4))]
    max_size = rng.choice([0, 0, 0, 60, 90, 130, 200])
    return {"id": lid, "max_size": max_size, "ops": ops, "tag": "gen"}


def witness_logs():
    """Refutation witnesses (run first).  A: the Coq witness of C06_corruption_refuted - enveloped
    columnar write whose string ends with a complete frame; B: plain columnar payload with an
    embedded frame at payload offset 32 (oversize length => the reader strides through the
    payload); C: appended payload on which ParseEnvelope's uint16 arithmetic wraps."""
    evil = W.mp_val([{"_database": "other", "_measurement": "cpu", "v": 666}])
    evil_frame = W.frame(1700000000000001, evil)
    outer = bytes([0x82]) + W.mp_str("m") + W.mp_str("cpu") + W.mp_str("columns") + bytes([0x81]) + W.mp_str("note") + \
        bytes([0x91]) + W.mp_str(b"x" + evil_frame)
    e0 = W.mp_columnar("cpu", {"v": [1, 2]})
    a = {"id": 0, "max_size": 0, "tag": "witness-ghost-short-length", "full_len": True, "ops": [
        {"k": "raw", "p": e0.hex()},
        {"k": "meta", "db": b"mydb".hex(), "p": outer.hex()},
        {"k": "rows", "rows": [{"_database": "mydb", "_measurement": "mem", "u": 7.0}]}]}
    # B: {"m":"cpu","columns":{"s":[str]}}: string content starts at payload offset 21; 11 pad bytes
    head = bytes([0x82]) + W.mp_str("m") + W.mp_str("cpu") + W.mp_str("columns") + bytes([0x81]) + W.mp_str("s") + bytes([0x91])
    body = b"k" * 11 + evil_frame
    pb = head + W.mp_str(body)
    assert len(head) + 2 == 21 and (len(head) + 2 + 11) % 16 == 0
    b = {"id": 1, "max_size": 0, "tag": "witness-ghost-oversize-stride", "full_len": True, "ops": [
        {"k": "raw", "p": pb.hex()},
        {"k": "raw", "p": e0.hex()}]}
    c = {"id": 2, "max_size": 0, "tag": "witness-envelope-wrap-panic", "light": True, "ops": [
        {"k": "raw", "p": e0.hex()},
        {"k": "raw", "p": "01fffd00"}]}
    return [a, b, c]


def literal_files(rng, params):
    """Malformed stream: files no writer produced."""
    hdr = bytes(params["WALMagic"]) + struct.pack(">H", params["WALVersion"]) + bytes([params["WALChecksumCRC32"]])
    mx = params["MaxWALPayloadSize"]
    good = W.frame(5, W.mp_columnar("m", {"v": [1]}))
    good2 = W.frame(6, W.mp_val([{"_database": "d", "x": 1}]))
    out = [
        b"", hdr[:3], hdr, hdr + b"\x00", hdr + good[:15], hdr + good[:16], hdr + good[:-1],
        b"XRCW" + hdr[4:] + good,                                   # bad magic
        hdr[:4] + b"\x00\x02" + hdr[6:] + good,                     # version mismatch: only a warning
        hdr[:6] + b"\x09" + good,                                   # unknown checksum type: ignored
        hdr + W.frame(1, b"") + good,                               # zero-length payload
        hdr + struct.pack(">IQI", 0, 1, 7) + good,                  # zero length, wrong checksum
        hdr + struct.pack(">IQI", mx, 1, 0) + good,                 # length == cap, payload short
        hdr + struct.pack(">IQI", mx + 1, 1, 0) + good,             # length == cap+1: oversize, continue at offset
        hdr + struct.pack(">IQI", 0xffffffff, 1, 0) + good2,
        hdr + good + hdr + good2,                                   # a second file header in the middle
        hdr + good + b"\x00" * 16 + good2,                          # 16 zero bytes parse as an empty, CRC-valid frame
        hdr + good + b"\x00" * 15 + good2,
        hdr + W.frame(1, b"\x01\xff\xfd\x00"),                      # envelope length wrap
        hdr + W.frame(1, b"\x01\xff\xfc\x00"),
        hdr + W.frame(1, b"\x01\x00\x02ab" + W.mp_columnar("m", {"v": [1]})) + good2,
    ]
    for _ in range(6):
        n = rng.randint(1, 60)
        out.append(hdr + good + bytes(rng.randrange(256) for _ in range(n)) + good2)
    for _ in range(4):
        out.append(hdr + bytes(rng.choice([0, 0, 0, 1, 255, rng.randrange(256)]) for _ in range(rng.randint(16, 70))))
    return out


# ---------------------------------------------------------------------------------------------
# mutation enumeration (exhaustive per file)
# ---------------------------------------------------------------------------------------------

ALPHA = [0x00, 0x01, 0x80, 0xff]


def enumerate_muts(data, fidx, frames, full_len=False, light=False, nosweep=False):
    """Every truncation offset, and for every position every byte of the small alphabet
    {00,01,80,FF, orig^01, orig^80, orig+1}; all 255 other values on the low length byte of every
    genuine frame (all four length bytes for the witness logs)."""
    muts = [{"f": fidx, "k": "n", "p": 0, "b": 0}]
    if nosweep:         # files whose length field makes the real reader allocate 100 MB per read: a handful of runs
        for k in (0, 6, 7, 22, 23, 24, len(data) - 1):
            if 0 <= k < len(data):
                muts.append({"f": fidx, "k": "t", "p": k, "b": 0})
        for i in range(7, min(len(data), 11)):
            for v in (0x00, 0x01, 0xff):
                if v != data[i]:
                    muts.append({"f": fidx, "k": "s", "p": i, "b": v})
        return muts
    for k in range(len(data)):
        muts.append({"f": fidx, "k": "t", "p": k, "b": 0})
    lenpos = set()
    for (o, ln) in frames:
        lenpos.add(o + 3)
        if full_len:
            lenpos.add(o + 2)       # (the two high bytes get the small alphabet: every value there makes the
                                    #  real reader allocate 64 KB - 100 MB before it notices the file is short)
    for i in range(len(data)):
        if light and i not in lenpos and i % 5:
            continue
        if i in lenpos:
            vals = range(256)
        else:
            vals = ALPHA + [data[i] ^ 0x01, data[i] ^ 0x80, (data[i] + 1) & 0xff]
        seen = set()
        for v in vals:
            if v != data[i] and v not in seen:
                seen.add(v)
                muts.append({"f": fidx, "k": "s", "p": i, "b": v})
    return muts


def position_class(pos, frames):
    if pos < HDR:
        return "file-header"
    for (o, ln) in frames:
        if o <= pos < o + 16 + ln:
            d = pos - o
            return "length" if d < 4 else "timestamp" if d < 12 else "checksum" if d < 16 else "payload"
    return "tail"


# ---------------------------------------------------------------------------------------------
# Coq case files
# ---------------------------------------------------------------------------------------------

KIND = {"n": 0, "t": 1, "s": 2}
ST = {"ok": 0, "err": 1, "panic": 2}


def bs(h):
    return '"%s"%%bs' % h


def pack_muts(muts, obs_idx):
    """-> Coq list of bstr pieces (coqc overflows its stack on very long string literals)"""
    out = []
    for m, oi in zip(muts, obs_idx):
        assert m["f"] < 16 and m["p"] < 4096 and oi < 4096
        out.append("%01x%01x%03x%02x%03x" % (m["f"], KIND[m["k"]], m["p"], m["b"], oi))
    return "[" + "; ".join(bs("".join(out[i:i + 600])) for i in range(0, len(out), 600)) + "]"


def log_to_coq(name, lg):
    """lg: dict with maxsize, literal, ops [(kind, ts, dbhex, phex)], hook [hex], files [hex], classes, entries,
    obs (distinct), muts, mut_obs, recs, rec_obs, certs"""
    ops = "; ".join("(%d, %d, %s, %s)" % (k, ts, bs(db), bs(p)) for (k, ts, db, p) in lg["ops"])
    classes = "; ".join("(%s, %d, %d)" % (bs(c["p"]), c["kind"], c["fp"]) for c in lg["classes"])
    entries = "; ".join("(%d, %d, %s, %d)" % (e["ts"], e["kind"], bs(e["db"]), e["fp"]) for e in lg["entries"])
    obs = "; ".join("(%d, [%s], %d)" % (st, "; ".join(str(i) for i in es), c) for (st, es, c) in lg["obs"])
    certs = "; ".join("(%d, %d, %d)" % c for c in lg["certs"])
    src = "Definition %s : wlog := mkLog %d %s\n  [%s]\n  [%s]\n  [%s]\n  [%s]\n  [%s]\n  [%s]\n  %s\n  %s\n  [%s].\n" % (
        name, lg["maxsize"], "true" if lg["literal"] else "false", ops,
        "; ".join(bs(h) for h in lg["hook"]), "; ".join(bs(h) for h in lg["files"]),
        classes, entries, obs, pack_muts(lg["muts"], lg["mut_obs"]), pack_muts(lg["recs"], lg["rec_obs"]), certs)
    src += "Eval vm_compute in (%s, check_log %s).\n" % (name.split("_")[1], name)
    return src


HEADER = "From Coq Require Import List NArith.\nFrom Arc Require Import Wal.Model.\nImport ListNotations.\nOpen Scope N_scope.\n"
FIELDS = ["v_disagree", "v_oracle", "v_unexplained", "v_rdisagree", "v_roracle", "v_runexplained"]


def parse_verdicts(out):
    res = {}
    for m in re.finditer(r"=\s*\((\d+),\s*\{\|(.*?)\|\}\)", out, re.S):
        name, body = "log_" + m.group(1), m.group(2)
        mw = re.search(r"v_writer\s*:=\s*(true|false)", body)
        if not mw:
            continue
        v = {"writer": mw.group(1) == "true"}
        for f in FIELDS:
            mm = re.search(f + r"\s*:=\s*(\[[^\]]*\]|nil)", body)
            if not mm:
                v = None
                break
            v[f] = [int(x) for x in re.findall(r"\d+", mm.group(1))]
        if v is not None:
            res[name] = v
    return res


def eval_logs(logs, tag, workers=8):
    """logs: {name: log dict}.  Evaluates check_log for each inside coqc (parallel chunks)."""
    nproc = max(1, min(workers, vlib.NCPU // 2, len(logs)))
    weight = lambda lg: 200 + len(lg["muts"]) + 4 * len(lg["recs"])
    chunks, load = [[] for _ in range(nproc)], [0] * nproc          # few coqc processes (each pays ~5 s to load), balanced
    for name, lg in sorted(logs.items(), key=lambda kv: -weight(kv[1])):
        i = load.index(min(load))
        chunks[i].append((name, lg))
        load[i] += weight(lg)
    chunks = [c for c in chunks if c]

    def run(ix):
        src = HEADER + "".join(log_to_coq(name, lg) for name, lg in chunks[ix])
        rc, out = vlib.coq_eval(PID, "Cases_%s_%d" % (tag, ix), src, timeout=900)
        v = parse_verdicts(out)
        if rc != 0 or any(name not in v for name, _ in chunks[ix]):
            raise vlib.InfraError("case evaluation failed: " + out[-2500:])
        return v
    res = {}
    with ThreadPoolExecutor(max_workers=len(chunks)) as ex:
        for v in ex.map(run, range(len(chunks))):
            res.update(v)
    return res


# ---------------------------------------------------------------------------------------------
# running the implementation
# ---------------------------------------------------------------------------------------------

def write_logs(logs, tag):
    """Real Writer.  Returns per log: files (bytes), ops as the model sees them (kind, ts, db, payload)."""
    out = W.run_harness(PID, {"mode": "write", "logs": [{"id": l["id"], "max_size": l["max_size"], "ops": l["ops"]} for l in logs]}, tag + "_w")
    if len(out["logs"]) != len(logs):
        raise vlib.TieBroken("harness returned %d logs for %d" % (len(out["logs"]), len(logs)))
    res = []
    for l, o in zip(logs, out["logs"]):
        if o["dropped"] or any(o["errs"]) or len(o["hook"]) != len(l["ops"]):
            raise vlib.TieBroken("writer refused an append of log %s: errs=%s dropped=%s" % (l["id"], o["errs"], o["dropped"]))
        ops = []
        for op, h in zip(l["ops"], o["hook"]):
            if op["k"] == "meta":
                ops.append((1, h["ts"], op["db"], op["p"]))
            elif op["k"] == "raw":
                ops.append((0, h["ts"], "", op["p"]))
            else:                              # Append(records): the payload is msgpack.Marshal(records), as the hook saw it
                ops.append((0, h["ts"], "", h["p"]))
        res.append({"files": [bytes.fromhex(f) for f in o["files"]], "ops": ops, "hook": [h["p"] for h in o["hook"]],
                    "names": o["names"]})
    return res, out.get("params", {})


def ghost_certs(files):
    """Candidate certificates (file, offset in the frame area, length): CRC-valid ranges that are not
    genuine frames.  Only candidates - Coq checks them (ghost_cert)."""
    import zlib
    certs = []
    for fi, data in enumerate(files):
        genuine = set(W.genuine_frames(data))
        for o in range(HDR, len(data) - 15):
            ln = struct.unpack(">I", data[o:o + 4])[0]
            if o + 16 + ln <= len(data) and (o, ln) not in genuine and ln > 0:
                if zlib.crc32(data[o + 16:o + 16 + ln]) & 0xffffffff == struct.unpack(">I", data[o + 12:o + 16])[0]:
                    certs.append((fi, o - HDR, ln))
    return certs[:8]


def read_items(items, tag):
    """items: [{id, files:[bytes], muts, recover}] -> harness output (items in order).  Runs in batches: one
    test process reads at most ~60 000 mutated files (it runs with the collector off, see lib_wal.run_harness)."""
    batches, cur, n = [], [], 0
    for it in items:
        cur.append(it)
        n += len(it["muts"]) + len(it["recs"])
        if n >= 60000:
            batches.append(cur)
            cur, n = [], 0
    if cur or not batches:
        batches.append(cur)
    total = {"items": [], "crc_checks": 0, "crc_misses": []}
    for bi, batch in enumerate(batches):
        req = {"mode": "read", "items": [{"id": it["id"], "files": [f.hex() for f in it["files"]], "muts": it["muts"], "recover": it["recs"],
                                          "frames": [[[o + 16, ln] for (o, ln) in W.genuine_frames(f)] for f in it["files"]]}
                                         for it in batch]}
        out = W.run_harness(PID, req, "%s_r%d" % (tag, bi), timeout=1500)
        if len(out["items"]) != len(batch):
            raise vlib.TieBroken("harness returned %d items for %d" % (len(out["items"]), len(batch)))
        for it, o in zip(batch, out["items"]):
            if len(o["obs"]) != len(it["muts"]) or len(o["recover"]) != len(it["recs"]):
                raise vlib.TieBroken("harness returned a wrong number of observations for item %s" % it["id"])
        total["items"] += out["items"]
        total["crc_checks"] += out["crc_checks"]
        total["crc_misses"] += out["crc_misses"]
    return total


def intern_obs(obs_list, table):
    idx = []
    for o in obs_list:
        key = (ST[o["st"]], tuple(o["e"]), o["c"])
        if key not in table:
            table[key] = len(table)
        idx.append(table[key])
    return idx


def build_log(it, o):
    table = {}
    mut_obs = intern_obs(o["obs"], table)
    rec_obs = intern_obs(o["recover"], table)
    obs = [None] * len(table)
    for k, i in table.items():
        obs[i] = (k[0], list(k[1]), k[2])
    return {"maxsize": it["maxsize"], "literal": it["literal"], "ops": it["ops"], "hook": it["hook"],
            "files": [f.hex() for f in it["files"]], "classes": o["classes"], "entries": o["entries"], "obs": obs,
            "muts": it["muts"], "mut_obs": mut_obs, "recs": it["recs"], "rec_obs": rec_obs, "certs": it["certs"]}


def make_item(iid, files, ops, hook, maxsize, literal, rng, full_len=False, light=False, nrec=10, tag="", nosweep=False):
    muts = []
    for fi, data in enumerate(files):
        muts += enumerate_muts(data, fi, W.genuine_frames(data), full_len=full_len, light=light, nosweep=nosweep)
    subst = [m for m in muts if m["k"] != "n"]
    recs = [{"f": 0, "k": "n", "p": 0, "b": 0}]
    if len(files) > 1:          # every file of a rotated log: unreadable (magic), torn in the middle
        for fi, data in enumerate(files):
            recs.append({"f": fi, "k": "s", "p": 0, "b": 0})
            if len(data) > HDR:
                recs.append({"f": fi, "k": "t", "p": (len(data) + HDR) // 2, "b": 0})
    recs += rng.sample(subst, min(nrec, len(subst))) if subst else []
    return {"id": iid, "files": files, "ops": ops, "hook": hook, "maxsize": maxsize or 104857600, "literal": literal,
            "muts": muts, "recs": recs, "certs": ghost_certs(files) if not literal else [], "tag": tag}


# ---------------------------------------------------------------------------------------------
# the check
# ---------------------------------------------------------------------------------------------

def setup():
    W.translate_params()


def warm():
    W.run_harness(PID, {"mode": "read", "items": []}, "warm")


def corpus_items(rng, start_id):
    d = os.path.join(vlib.ROOT, "corpus", PID)
    items = []
    if os.path.isdir(d):
        for fn in sorted(os.listdir(d)):
            if fn.endswith(".json"):
                c = json.load(open(os.path.join(d, fn))).get("case")
                if c:
                    items.append(item_from_case(c, start_id + len(items), "corpus:" + fn))
    return items


def item_from_case(c, iid, tag):
    files = [bytes.fromhex(h) for h in c["files"]]
    ops = [tuple(o) for o in c.get("ops", [])]
    literal = c.get("literal", not ops)
    m = c["mut"]
    it = {"id": iid, "files": files, "ops": ops, "hook": c.get("hook", []), "maxsize": c.get("maxsize", 104857600),
          "literal": literal, "muts": [m] if not c.get("recovery") else [], "recs": [m] if c.get("recovery") else [],
          "certs": [] if literal else ghost_certs(files), "tag": tag}
    return it


def case_of(it, m, recovery=False):
    return {"files": [f.hex() for f in it["files"]], "ops": [list(o) for o in it["ops"]], "hook": it["hook"],
            "maxsize": it["maxsize"], "literal": it["literal"], "mut": m, "recovery": recovery, "tag": it.get("tag", "")}


def evaluate(items, tag):
    out = read_items(items, tag)
    logs = {"log_%d" % it["id"]: build_log(it, o) for it, o in zip(items, out["items"])}
    verdicts = eval_logs(logs, tag)
    return out, logs, verdicts


def shrink_case(it, m, recovery, still_bad, budget=6):
    """Drop whole genuine frames that do not contain the mutated byte (literal files, one file)."""
    f = it["files"][m["f"]]
    cur_file, cur_m = f, dict(m, f=0)
    changed = True
    while changed and budget > 0:
        changed = False
        frames = W.genuine_frames(cur_file)
        for (o, ln) in frames:
            if cur_m["k"] != "n" and o <= cur_m["p"] < o + 16 + ln:
                continue
            if cur_m["k"] == "t" and cur_m["p"] < o + 16 + ln:
                continue
            cand = cur_file[:o] + cur_file[o + 16 + ln:]
            cm = dict(cur_m)
            if cm["k"] != "n" and cm["p"] >= o + 16 + ln:
                cm["p"] -= 16 + ln
            budget -= 1
            cit = {"id": 0, "files": [cand], "ops": [], "hook": [], "maxsize": 104857600, "literal": True,
                   "muts": [] if recovery else [cm], "recs": [cm] if recovery else [], "certs": [], "tag": "shrink"}
            if still_bad(cit):
                cur_file, cur_m = cand, cm
                changed = True
                break
            if budget <= 0:
                break
    return {"id": 0, "files": [cur_file], "ops": [], "hook": [], "maxsize": 104857600, "literal": True,
            "muts": [], "recs": [], "certs": [], "tag": "shrunk from " + str(it.get("tag", ""))}, cur_m


def run(res, tier, seed):
    rng = random.Random(seed * 7919 + 6)
    t0 = time.time()
    try:
        params = W.translate_params()
    finally:
        res.stage("translate_params", t0)
    res.cov["params"] = params

    failed = vlib.std_proof_stage(res, PID, AREA, MODULES, THEOREMS, extra_targets=["theories/Wal/Obligations.vo"])
    res.cov["trusted_base"] += [
        "CRC-32 is a parameter of the theorems with two premises: crc p < 2^32 and `one changed byte changes the checksum` (true of CRC-32: any error burst of <= 32 bits is detected); the run checks the second premise against hash/crc32 on every payload substitution it performs and evaluates the model with an executable Gallina CRC-32 whose agreement with hash/crc32 is checked through the writer tie (checksum field of every frame)",
        "msgpack decoding at the end of readEntry (msgpack.Unmarshal into []map / map + parseColumnarEntry) is a parameter `classify` of the theorems (nothing assumed about it); the run instantiates it with the verdicts and content fingerprints the real library gives for every CRC-valid candidate payload of every mutated file (harness: verifClassify, a copy of the last 15 lines of readEntry)",
        "file system: a file is the byte string ReadAll sees; process-crash model (a truncated file is a prefix of the written bytes); Writer's age-based rotation, fsync modes and the async channel (entries dropped when full) are not modelled",
        "timestamps are outside the CRC and outside the property: a damaged timestamp is returned as is (model and theorem say so; Recovery never uses it)",
    ]

    # ---- cases ----
    nlogs = int(os.environ.get("VERIF_C06_LOGS") or (8 if tier == "quick" else 100))
    t1 = time.time()
    wl = witness_logs()
    gl = [gen_log(rng, 10 + i) for i in range(nlogs)]
    written, hparams = write_logs(wl + gl, tier)
    for k, name in (("entry_header_size", "WALEntryHeaderSize"), ("file_header_size", "WALFileHeaderSize"),
                    ("max_payload", "MaxWALPayloadSize"), ("envelope_marker", "WALEnvelopeMarker")):
        if hparams.get(k) != params[name]:
            raise vlib.TieBroken("constant %s: translator says %s, package says %s" % (name, params[name], hparams.get(k)))
    items = []
    for l, w in zip(wl + gl, written):
        items.append(make_item(l["id"], w["files"], w["ops"], w["hook"], l["max_size"], False, rng,
                               full_len=l.get("full_len", False), light=l.get("light", False), tag=l["tag"]))
    lits = literal_files(rng, params)
    for i, f in enumerate(lits):
        huge = len(f) >= 11 and params["MaxWALPayloadSize"] // 2 <= struct.unpack(">I", f[7:11])[0] <= params["MaxWALPayloadSize"]
        items.append(make_item(1000 + i, [f], [], [], 0, True, rng, light=(tier == "quick" and i % 4 != 0), nrec=3, tag="literal",
                               nosweep=huge))
    items = corpus_items(rng, 5000) + items
    res.stage("generate_and_write", t1)

    t2 = time.time()
    out = read_items(items, tier)
    res.stage("impl_harness", t2)
    t3 = time.time()
    logs = {"log_%d" % it["id"]: build_log(it, o) for it, o in zip(items, out["items"])}
    verdicts = eval_logs(logs, tier)
    res.stage("coq_eval", t3)

    # ---- numbers ----
    nreads = sum(len(it["muts"]) for it in items)
    nrecs = sum(len(it["recs"]) for it in items)
    distinct = set()
    hist = {"mutation": {"none": 0, "truncate": 0, "substitute": 0}, "position": {}, "status": {"ok": 0, "err": 0, "panic": 0},
            "logs": {}, "entries_returned": {}, "files_per_log": {}}
    for it, o in zip(items, out["items"]):
        hist["logs"][it["tag"].split(":")[0]] = hist["logs"].get(it["tag"].split(":")[0], 0) + 1
        hist["files_per_log"][str(len(it["files"]))] = hist["files_per_log"].get(str(len(it["files"])), 0) + 1
        fh = [hashlib.sha1(f).hexdigest()[:12] for f in it["files"]]
        frames = [W.genuine_frames(f) for f in it["files"]]
        nontriv_log = len(it["ops"]) >= 2
        for m, ob in zip(it["muts"], o["obs"]):
            hist["mutation"][{"n": "none", "t": "truncate", "s": "substitute"}[m["k"]]] += 1
            hist["status"][ob["st"]] += 1
            ne = str(len(ob["e"]))
            hist["entries_returned"][ne] = hist["entries_returned"].get(ne, 0) + 1
            if m["k"] == "s":
                pc = position_class(m["p"], frames[m["f"]])
                hist["position"][pc] = hist["position"].get(pc, 0) + 1
            if nontriv_log and m["k"] != "n" and m["p"] >= HDR:
                distinct.add((fh[m["f"]], m["k"], m["p"], m["b"]))
    res.cov["evaluations"] = nreads + nrecs
    res.cov["distinct_nontrivial"] = len(distinct)
    res.cov["exhaustive"] = True
    res.cov["rule"] = ("per written log (2-4 appends: raw columnar, enveloped, row format, replication-style pre-enveloped, edge payloads; "
                       "some rotating at 60-200 bytes) and per malformed literal file: EVERY truncation offset and, for EVERY byte position, "
                       "every substitution from {00,01,80,FF,orig^01,orig^80,orig+1} (all 255 values on the low length byte of every frame; on all "
                       "four length bytes of the witness logs) - exhaustive per log; each mutated file read with the real Reader.ReadAll and "
                       "compared with read_all in Coq; plus Recovery runs over the whole directory.  Non-trivial = the log has >= 2 entries and "
                       "the mutation is inside the file body (offset >= 7); distinct by (file bytes, mutation)")
    res.cov["reader_runs"] = nreads
    res.cov["recovery_runs"] = nrecs
    res.cov["logs"] = len(items)
    res.cov["crc32_single_byte_checks"] = out["crc_checks"]
    res.cov["crc32_single_byte_misses"] = len(out["crc_misses"])
    res.cov["histogram"] = hist
    s0 = items[len(items) // 2]
    res.cov["samples"] = [{"log": it["id"], "tag": it["tag"], "files": [f.hex() for f in it["files"]], "mutation": it["muts"][len(it["muts"]) // 2],
                           "observed": o["obs"][len(it["muts"]) // 2]} for it, o in list(zip(items, out["items"]))[:2] + [(s0, out["items"][len(items) // 2])]]

    # ---- verdicts ----
    dis = sum(len(v["v_disagree"]) + len(v["v_rdisagree"]) for v in verdicts.values())
    orf = sum(len(v["v_oracle"]) + len(v["v_roracle"]) for v in verdicts.values())
    unex = sum(len(v["v_unexplained"]) + len(v["v_runexplained"]) for v in verdicts.values())
    res.cov["model_vs_impl_disagreements"] = dis
    res.cov["oracle_failures"] = orf
    res.cov["oracle_failures_outside_known_classes"] = unex
    res.cov["writer_tie_failures"] = sum(1 for v in verdicts.values() if not v["writer"])

    if out["crc_misses"]:
        res.violation("hash/crc32 did not detect a single changed byte: the premise crc_detects_1byte of C06_corruption_guarded is false",
                      {"kind": "crc-hypothesis", "detail": out["crc_misses"][:5]}, no_input=True, suffix="crc")

    known = {e["signature"]: e for e in vlib.known_for(PID)}
    reported = False
    by_name = {"log_%d" % it["id"]: (it, o) for it, o in zip(items, out["items"])}

    def one_eval(cit):
        _, _, v = evaluate([cit], "shrink")
        return v["log_0"]

    for name, v in verdicts.items():
        it, o = by_name[name]
        if not v["writer"] and not reported:
            res.violation("real wal.Writer output differs from the model's file/rotation layout (log %s)" % it["id"],
                          {"kind": "correspondence", "correspondence": TIE_NAME + " [writer]", "files": [f.hex() for f in it["files"]],
                           "ops": [list(x) for x in it["ops"]], "maxsize": it["maxsize"]}, no_input=True, suffix="writer")
            reported = True
    # unexplained property failures on the implementation: concrete violations
    nviol = 0
    for name, v in verdicts.items():
        it, o = by_name[name]
        for field, recovery in (("v_unexplained", False), ("v_runexplained", True)):
            for j in v[field][:1]:
                if nviol >= 3:
                    break
                m = (it["recs"] if recovery else it["muts"])[j]
                ob = (o["recover"] if recovery else o["obs"])[j]
                res.violation("the real %s violates C06 on a %s of log %s (observed %s)" % (
                    "Recovery" if recovery else "Reader.ReadAll", {"n": "intact file", "t": "truncation", "s": "substituted byte"}[m["k"]], it["id"], ob["st"]),
                    {"kind": "property-violated", "case": case_of(it, m, recovery), "observed": ob,
                     "observed_entries": [o["entries"][i] for i in ob["e"]],
                     "how_to_replay": "python3 tools/check.py C06 --replay <this file>"})
                nviol += 1
    # model/implementation disagreements
    if dis and nviol == 0:
        for name, v in verdicts.items():
            it, o = by_name[name]
            pick = [(j, False) for j in v["v_disagree"][:1]] + [(j, True) for j in v["v_rdisagree"][:1]]
            if not pick:
                continue
            j, recovery = pick[0]
            m = (it["recs"] if recovery else it["muts"])[j]

            def still_bad(cit):
                vv = one_eval(cit)
                return bool(vv["v_rdisagree"] if recovery else vv["v_disagree"])
            try:
                small, sm = shrink_case(it, m, recovery, still_bad)
                case = case_of(small, sm, recovery)
            except (vlib.TieBroken, vlib.InfraError):
                case = case_of(it, m, recovery)
            ob = (o["recover"] if recovery else o["obs"])[j]
            res.violation("model and implementation disagree on a %s (log %s, %d disagreeing runs in total)" % (
                "Recovery run" if recovery else "ReadAll run", it["id"], dis),
                {"kind": "correspondence", "correspondence": TIE_NAME, "case": case, "original_case": case_of(it, m, recovery),
                 "observed": ob, "observed_entries": [o["entries"][i] for i in ob["e"]], "disagreeing_runs": dis,
                 "oracle_fails_on_impl": j in (v["v_roracle"] if recovery else v["v_oracle"]),
                 "how_to_replay": "python3 tools/check.py C06 --replay <this file>"},
                no_input=j not in (v["v_roracle"] if recovery else v["v_oracle"]), suffix="corr")
            break
    # explained property failures = known findings, when the model predicts exactly the wrong output
    seen_sig = {}
    for name, v in verdicts.items():
        it, o = by_name[name]
        for field, ufield, dfield, recovery in (("v_oracle", "v_unexplained", "v_disagree", False), ("v_roracle", "v_runexplained", "v_rdisagree", True)):
            for j in v[field]:
                if j in v[ufield] or j in v[dfield]:
                    continue
                ob = (o["recover"] if recovery else o["obs"])[j]
                sig = SIG_PANIC if ob["st"] == "panic" else SIG_GHOST
                seen_sig.setdefault(sig, []).append((it, (it["recs"] if recovery else it["muts"])[j], ob, o, recovery))
    res.cov["known_class_failures"] = {k: len(vs) for k, vs in seen_sig.items()}
    for sig, lst in seen_sig.items():
        it, m, ob, o, recovery = lst[0]
        if sig in known:
            res.known_finding("%s [%d mutated files of this run; e.g. log %s, %s at offset %d -> %s]" % (
                known[sig]["what"], len(lst), it["tag"], {"n": "intact", "t": "truncate", "s": "byte %d" % m["b"]}[m["k"]], m["p"],
                "panic" if ob["st"] == "panic" else "entries " + json.dumps([o["entries"][i]["fp"] for i in ob["e"]])))
        else:
            res.violation("the real reader violates C06 in an excluded class that is not listed as an open finding (%s)" % sig,
                          {"kind": "property-violated", "case": case_of(it, m, recovery), "observed": ob, "signature": sig,
                           "observed_entries": [o["entries"][i] for i in ob["e"]]})
    if tier == "thorough":
        t4 = time.time()
        rc, o = vlib.sh(["timeout", "1500", "coqchk", "-silent", "-o", "-Q", os.path.join(vlib.COQ, "theories"), "Arc",
                         "-Q", os.path.join(vlib.COQ, "gen"), "ArcGen", "Arc.Wal.Props", "Arc.Wal.Obligations"], cwd=vlib.COQ, timeout=1600)
        res.stage("coqchk", t4)
        res.cov["coqchk"] = "ok" if rc == 0 else "rc=%d: %s" % (rc, o[-400:])
        if rc != 0 and rc != 127:
            failed.append(("coqchk", "coqchk rejects the compiled development: " + o[-300:]))
    if failed and not res.violations:
        res.violation("proof obligation(s) no longer check: " + "; ".join(r for _, r in failed),
                      {"kind": "obligation-failed", "theorems": [t for t, _ in failed], "detail": [r for _, r in failed]},
                      no_input=True, suffix="obligation")


def replay(res, path):
    obj = json.load(open(path))
    c = obj.get("case")
    if not c:
        print("replay file names no concrete case:", obj.get("summary"))
        return 1
    W.translate_params()
    it = item_from_case(c, 0, "replay")
    out, logs, verdicts = evaluate([it], "replay")
    v = verdicts["log_0"]
    o = out["items"][0]
    ob = (o["recover"] if c.get("recovery") else o["obs"])[0]
    print("mutation:", c["mut"], "| observed:", ob["st"], [o["entries"][i] for i in ob["e"]], "corrupted=%d" % ob["c"])
    bad_dis = bool(v["v_disagree"] or v["v_rdisagree"])
    bad_or = bool(v["v_oracle"] or v["v_roracle"])
    unexpl = bool(v["v_unexplained"] or v["v_runexplained"])
    print("model disagrees:", bad_dis, "| property violated by the implementation:", bad_or, "| outside the known classes:", unexpl,
          "| writer tie ok:", v["writer"])
    return 1 if (bad_dis or bad_or or not v["writer"]) else 0
