"""C06 - The WAL reader returns only intact entries in append order.

Proof: coq/theories/Wal (byte-level model of Writer framing/size test/rotation, ParseEnvelope,
Reader.ReadAll/readEntry as of commit 591fc4b, Recovery).  C06_intact / C06_intact_appends /
C06_accepted_fits_cap / C06_rotation_recover (all sequences), C06_truncation (EVERY truncation
offset: exactly the maximal prefix of complete frames), C06_corruption (every position, every
byte value: subsequence; a damaged length byte needs the CRC test of the wrong-length range to
fail - C06_length_alias_needed), C06_old_continue_fabricates (the reader before 591fc4b, model
variant).

Tie 1 (translator): the format constants are re-extracted from wal.go, evaluated by the Go
compiler, written to coq/gen/Params_Wal.v; Obligations.v re-checks the layout facts.
Tie 2 (correspondence): the REAL wal.Writer (incl. rotation and its size test; caller-owned
buffers overwritten right after each call, half of the logs with the writer goroutine held
off the queue) writes generated append sequences (raw, enveloped, row format); for every file
EVERY truncation offset and every single-byte substitution from a small alphabet per position
(full alphabet on the low length byte) is read back with the REAL Reader.ReadAll (plus Recovery
runs); observations are compared inside Coq with read_all on the same bytes, and the property
itself is evaluated on the observations.  A second build with MaxWALPayloadSize lowered by a
textual overlay exercises the size cap of writer and reader at the boundary.
"""
import hashlib
import json
import os
import random
import re
import struct
import time
from concurrent.futures import ThreadPoolExecutor

import lib_wal as W
import vlib

PID = "C06"
AREA = "Wal"
P = "Arc.Wal.Props"
O = "Arc.Wal.Obligations"
# plain names: one coqc run prints the assumptions of all of them (Props and Obligations loaded together)
THEOREMS = ["C06_intact", "C06_intact_appends", "C06_accepted_fits_cap", "C06_rotation_recover", "C06_truncation",
            "C06_truncation_prefix_maximal", "C06_reader_terminates", "C06_corruption", "C06_length_alias_needed",
            "C06_old_continue_fabricates", "C06_corruption_hypotheses_satisfiable", "C06_intact_truncation_nonvacuous",
            "C06_append_outcomes", "C06_envelope_length_no_wrap",
            "C06_params_layout", "C06_params_header_accepted"]
MODULES = [P, O]
TIE_NAME = "C06 correspondence (wal.Writer / Reader.ReadAll / Recovery vs Arc.Wal.Model.writer_files / read_all / recover) / Params_Wal"
HDR = 7
CAP_ANCHOR = ("MaxWALPayloadSize = 100 * 1024 * 1024", "MaxWALPayloadSize = %d", 1)
LOW_CAP = 120          # MaxWALPayloadSize of the boundary build


# ---------------------------------------------------------------------------------------------
# generators
# ---------------------------------------------------------------------------------------------

def rand_name(rng, lo=1, hi=6):
    return "".join(rng.choice("abcdexyz_") for _ in range(rng.randint(lo, hi)))


def gen_columnar(rng):
    cols = {}
    n = rng.randint(1, 3)
    for _ in range(rng.randint(1, 2)):
        kind = rng.choice("ifs")
        if kind == "i":
            cols[rand_name(rng, 1, 3)] = [rng.choice([0, 1, 127, 128, 255, 256, 65535, -1, 70000]) for _ in range(n)]
        elif kind == "f":
            cols[rand_name(rng, 1, 3)] = [rng.choice([0.5, -1.25, 1e9]) for _ in range(n)]
        else:
            cols[rand_name(rng, 1, 3)] = [rand_name(rng, 0, 5) for _ in range(n)]
    return W.mp_columnar(rand_name(rng, 1, 4), cols)


def gen_rows(rng):
    return [{"_database": rand_name(rng, 1, 4), "_measurement": rand_name(rng, 1, 4), rand_name(rng, 1, 2): rng.choice([1.5, 2.0, "s", True])}
            for _ in range(rng.randint(1, 2))]


def gen_op(rng):
    r = rng.random()
    if r < 0.30:
        return {"k": "meta", "db": rand_name(rng, 0, 5).encode().hex(), "p": gen_columnar(rng).hex()}
    if r < 0.50:
        return {"k": "raw", "p": gen_columnar(rng).hex()}
    if r < 0.70:
        return {"k": "rows", "rows": gen_rows(rng)}
    if r < 0.80:          # replication receiver: AppendRaw of an already enveloped payload
        return {"k": "raw", "p": W.envelope(rand_name(rng, 1, 4).encode(), gen_columnar(rng)).hex()}
    if r < 0.85:          # enveloped row-format payload
        return {"k": "meta", "db": rand_name(rng, 1, 4).encode().hex(), "p": W.mp_val(gen_rows(rng)).hex()}
    edge = rng.choice([b"", b"\xc0", b"\x90", b"\xff\x00", b"\x01\x00\x09\xab", b"\x01\x00\x00", b"\x80", b"\x01",
                       b"\x81\xa1m\xa1x", b"\x01\x00\x01\x41\xc0"])
    if rng.random() < 0.5:
        return {"k": "raw", "p": edge.hex()}
    return {"k": "meta", "db": rng.choice([b"", b"d"]).hex(), "p": edge.hex()}


def scribble_variant(p):
    """What the caller's buffer holds after it was recycled for the next request: the same columnar payload with
    another measurement name (same length, still decodable), or None (the harness fills with 'Z')."""
    if len(p) > 5 and p[0] == 0x82 and p[1:3] == b"\xa1m" and 0xa1 <= p[3] <= 0xbf:
        return p[:4] + bytes([p[4] ^ 0x03]) + p[5:]
    return None


def with_scribble(op):
    if op["k"] in ("raw", "meta"):
        v = scribble_variant(bytes.fromhex(op["p"]))
        if v is not None:
            op = dict(op, scr=v.hex())
    return op


def gen_log(rng, lid):
    ops = [with_scribble(gen_op(rng)) for _ in range(rng.randint(2, 4))]
    max_size = rng.choice([0, 0, 0, 60, 90, 130, 200])
    hold = lid % 2 == 1 and all(o["k"] != "rows" for o in ops)     # hold mode reads timestamps back by size: no Append(records)
    return {"id": lid, "max_size": max_size, "ops": ops, "tag": "gen-hold" if hold else "gen", "hold": hold}


def boundary_logs(cap):
    """Appends whose on-disk payload size is cap-1, cap, cap+1 (raw and enveloped), each followed by an ordinary
    entry; run against the build whose MaxWALPayloadSize is `cap`."""
    tail = W.mp_columnar("t", {"v": [1]})

    def doc(n):
        # a row-format document of exactly n bytes: [ {"k": "<pad>"} ]
        padlen = n - (1 + 1 + 2 + 2)                              # 0x91 0x81 a1 'k' d9 LL <pad>
        assert 0 <= padlen < 256
        return bytes([0x91, 0x81, 0xa1, 0x6b, 0xd9, padlen]) + b"p" * padlen
    logs = []
    lid = 300
    for k in (-1, 0, 1):
        logs.append({"id": lid, "max_size": 0, "tag": "boundary-raw%+d" % k, "hold": False, "light": True,
                     "ops": [{"k": "raw", "p": tail.hex()}, {"k": "raw", "p": doc(cap + k).hex()}, {"k": "raw", "p": tail.hex()}]})
        lid += 1
        for db in (b"", b"ab"):
            n = cap - 3 - len(db) + k
            logs.append({"id": lid, "max_size": 0, "tag": "boundary-meta%+d" % k, "hold": (lid % 2 == 0), "light": True,
                         "ops": [{"k": "raw", "p": tail.hex()}, {"k": "meta", "db": db.hex(), "p": doc(n).hex()},
                                 {"k": "meta", "db": b"d".hex(), "p": tail.hex()}]})
            lid += 1
    return logs


def witness_logs():
    """Regression logs (run first).  A: the witness against the reader before 591fc4b - enveloped columnar write
    whose string ends with a complete frame; B: plain columnar payload with an embedded frame at payload offset 32
    (oversize length => the old reader strode through the payload); C: appended payload on which the old
    ParseEnvelope's uint16 arithmetic wrapped; D: a 256-byte database name (AppendRawWithMeta panics, nothing is
    written); E: crafted payload whose 14-byte prefix has the CRC-32 of all 18 bytes (C06_length_alias_needed)."""
    evil = W.mp_val([{"_database": "other", "_measurement": "cpu", "v": 666}])
    evil_frame = W.frame(1700000000000001, evil)
    outer = bytes([0x82]) + W.mp_str("m") + W.mp_str("cpu") + W.mp_str("columns") + bytes([0x81]) + W.mp_str("note") + \
        bytes([0x91]) + W.mp_str(b"x" + evil_frame)
    e0 = W.mp_columnar("cpu", {"v": [1, 2]})
    a = {"id": 0, "max_size": 0, "tag": "regress-ghost-short-length", "full_len": True, "hold": False, "ops": [
        {"k": "raw", "p": e0.hex()},
        {"k": "meta", "db": b"mydb".hex(), "p": outer.hex()},
        {"k": "rows", "rows": [{"_database": "mydb", "_measurement": "mem", "u": 7.0}]}]}
    head = bytes([0x82]) + W.mp_str("m") + W.mp_str("cpu") + W.mp_str("columns") + bytes([0x81]) + W.mp_str("s") + bytes([0x91])
    body = b"k" * 11 + evil_frame
    pb = head + W.mp_str(body)
    assert len(head) + 2 == 21 and (len(head) + 2 + 11) % 16 == 0
    b = {"id": 1, "max_size": 0, "tag": "regress-ghost-oversize-stride", "full_len": True, "hold": True, "ops": [
        {"k": "raw", "p": pb.hex()},
        {"k": "raw", "p": e0.hex()}]}
    c = {"id": 2, "max_size": 0, "tag": "regress-envelope-length-wrap", "light": True, "hold": False, "ops": [
        {"k": "raw", "p": e0.hex()},
        {"k": "raw", "p": "01fffd00"},
        {"k": "raw", "p": e0.hex()}]}
    d = {"id": 3, "max_size": 0, "tag": "edge-dbname-256", "light": True, "hold": False, "ops": [
        {"k": "meta", "db": (b"d" * 255).hex(), "p": e0.hex()},
        {"k": "meta", "db": (b"d" * 256).hex(), "p": e0.hex()},
        {"k": "raw", "p": e0.hex()}]}
    e = {"id": 4, "max_size": 0, "tag": "length-alias", "full_len": True, "hold": True, "ops": [
        {"k": "raw", "p": "82a16da163a7636f6c756d6e73805e89b259"},
        {"k": "raw", "p": e0.hex()}]}
    return [with_ops_scribble(x) for x in (a, b, c, d, e)]


def with_ops_scribble(lg):
    return dict(lg, ops=[with_scribble(o) for o in lg["ops"]])


def literal_files(rng, params):
    """Malformed stream: files no writer produced."""
    hdr = bytes(params["WALMagic"]) + struct.pack(">H", params["WALVersion"]) + bytes([params["WALChecksumCRC32"]])
    mx = params["MaxWALPayloadSize"]
    good = W.frame(5, W.mp_columnar("m", {"v": [1]}))
    good2 = W.frame(6, W.mp_val([{"_database": "d", "x": 1}]))
    out = [
        b"", hdr[:3], hdr, hdr + b"\x00", hdr + good[:15], hdr + good[:16], hdr + good[:-1],
        b"XRCW" + hdr[4:] + good,                                   # bad magic
        hdr[:4] + b"\x00\x02" + hdr[6:] + good,                     # version mismatch: only a warning
        hdr[:6] + b"\x09" + good,                                   # unknown checksum type: ignored
        hdr + W.frame(1, b"") + good,                               # zero-length payload
        hdr + struct.pack(">IQI", 0, 1, 7) + good,                  # zero length, wrong checksum
        hdr + struct.pack(">IQI", mx, 1, 0) + good,                 # length == cap, payload short
        hdr + struct.pack(">IQI", mx + 1, 1, 0) + good,             # length == cap+1: oversize, continue at offset
        hdr + struct.pack(">IQI", 0xffffffff, 1, 0) + good2,
        hdr + good + hdr + good2,                                   # a second file header in the middle
        hdr + good + b"\x00" * 16 + good2,                          # 16 zero bytes parse as an empty, CRC-valid frame
        hdr + good + b"\x00" * 15 + good2,
        hdr + W.frame(1, b"\x01\xff\xfd\x00"),                      # envelope length wrap
        hdr + W.frame(1, b"\x01\xff\xfc\x00"),
        hdr + W.frame(1, b"\x01\x00\x02ab" + W.mp_columnar("m", {"v": [1]})) + good2,
    ]
    for _ in range(6):
        n = rng.randint(1, 60)
        out.append(hdr + good + bytes(rng.randrange(256) for _ in range(n)) + good2)
    for _ in range(4):
        out.append(hdr + bytes(rng.choice([0, 0, 0, 1, 255, rng.randrange(256)]) for _ in range(rng.randint(16, 70))))
    return out


# ---------------------------------------------------------------------------------------------
# mutation enumeration (exhaustive per file)
# ---------------------------------------------------------------------------------------------

ALPHA = [0x00, 0x01, 0x80, 0xff]


def enumerate_muts(data, fidx, frames, full_len=False, light=False, nosweep=False, mini=False):
    """Every truncation offset, and for every position every byte of the small alphabet
    {00,01,80,FF, orig^01, orig^80, orig+1}; all 255 other values on the low length byte of every
    genuine frame (all four length bytes for the witness logs)."""
    muts = [{"f": fidx, "k": "n", "p": 0, "b": 0}]
    if nosweep:         # files whose length field makes the real reader allocate 100 MB per read: a handful of runs
        for k in (0, 6, 7, 22, 23, 24, len(data) - 1):
            if 0 <= k < len(data):
                muts.append({"f": fidx, "k": "t", "p": k, "b": 0})
        for i in range(7, min(len(data), 11)):
            for v in (0x00, 0x01, 0xff):
                if v != data[i]:
                    muts.append({"f": fidx, "k": "s", "p": i, "b": v})
        return muts
    for k in range(len(data)):
        muts.append({"f": fidx, "k": "t", "p": k, "b": 0})
    lenpos = set()
    for (o, ln) in frames:
        lenpos.add(o + 3)
        if full_len:
            lenpos.add(o + 2)       # (the two high bytes get the small alphabet: every value there makes the
                                    #  real reader allocate 64 KB - 100 MB before it notices the file is short)
    for i in range(len(data)):
        if (light or mini) and i not in lenpos and i % 5:
            continue
        if i in lenpos and not mini:
            vals = range(256)
        else:
            vals = ALPHA + [data[i] ^ 0x01, data[i] ^ 0x80, (data[i] + 1) & 0xff]
        seen = set()
        for v in vals:
            if v != data[i] and v not in seen:
                seen.add(v)
                muts.append({"f": fidx, "k": "s", "p": i, "b": v})
    return muts


def position_class(pos, frames):
    if pos < HDR:
        return "file-header"
    for (o, ln) in frames:
        if o <= pos < o + 16 + ln:
            d = pos - o
            return "length" if d < 4 else "timestamp" if d < 12 else "checksum" if d < 16 else "payload"
    return "tail"


# ---------------------------------------------------------------------------------------------
# Coq case files
# ---------------------------------------------------------------------------------------------

KIND = {"n": 0, "t": 1, "s": 2}
ST = {"ok": 0, "err": 1, "panic": 2}


def bs(h):
    return '"%s"%%bs' % h


def pack_muts(muts, obs_idx):
    """-> Coq list of bstr pieces (coqc overflows its stack on very long string literals)"""
    out = []
    for m, oi in zip(muts, obs_idx):
        assert m["f"] < 16 and m["p"] < 4096 and oi < 4096
        out.append("%01x%01x%03x%02x%03x" % (m["f"], KIND[m["k"]], m["p"], m["b"], oi))
    return "[" + "; ".join(bs("".join(out[i:i + 600])) for i in range(0, len(out), 600)) + "]"


def log_to_coq(name, lg):
    """lg: dict with maxsize, maxp, literal, ops [(kind, ts, dbhex, phex)], outcomes, hook [hex], files [hex], classes,
    entries, obs (distinct), muts, mut_obs, recs, rec_obs"""
    ops = "; ".join("(%d, %d, %s, %s)" % (k, ts, bs(db), bs(p)) for (k, ts, db, p) in lg["ops"])
    classes = "; ".join("(%s, %d, %d)" % (bs(c["p"]), c["kind"], c["fp"]) for c in lg["classes"])
    entries = "; ".join("(%d, %d, %s, %d)" % (e["ts"], e["kind"], bs(e["db"]), e["fp"]) for e in lg["entries"])
    obs = "; ".join("(%d, [%s], %d)" % (st, "; ".join(str(i) for i in es), c) for (st, es, c) in lg["obs"])
    src = "Definition %s : wlog := mkLog %d %d %s\n  [%s]\n  [%s]\n  [%s]\n  [%s]\n  [%s]\n  [%s]\n  [%s]\n  %s\n  %s.\n" % (
        name, lg["maxsize"], lg["maxp"], "true" if lg["literal"] else "false", ops,
        "; ".join(str(x) for x in lg["outcomes"]),
        "; ".join(bs(h) for h in lg["hook"]), "; ".join(bs(h) for h in lg["files"]),
        classes, entries, obs, pack_muts(lg["muts"], lg["mut_obs"]), pack_muts(lg["recs"], lg["rec_obs"]))
    src += "Eval vm_compute in (%s, check_log %s).\n" % (name.split("_")[1], name)
    return src


HEADER = "From Coq Require Import List NArith.\nFrom Arc Require Import Wal.Model.\nImport ListNotations.\nOpen Scope N_scope.\n"
FIELDS = ["v_disagree", "v_oracle", "v_rdisagree", "v_roracle"]


def parse_verdicts(out):
    res = {}
    for m in re.finditer(r"=\s*\((\d+),\s*\{\|(.*?)\|\}\)", out, re.S):
        name, body = "log_" + m.group(1), m.group(2)
        mw = re.search(r"v_writer\s*:=\s*(true|false)", body)
        if not mw:
            continue
        v = {"writer": mw.group(1) == "true"}
        for f in FIELDS:
            mm = re.search(f + r"\s*:=\s*(\[[^\]]*\]|nil)", body)
            if not mm:
                v = None
                break
            v[f] = [int(x) for x in re.findall(r"\d+", mm.group(1))]
        if v is not None:
            res[name] = v
    return res


def eval_logs(logs, tag, workers=8):
    """logs: {name: log dict}.  Evaluates check_log for each inside coqc (parallel chunks)."""
    nproc = max(1, min(workers, vlib.NCPU // 2, len(logs)))
    weight = lambda lg: 200 + len(lg["muts"]) + 4 * len(lg["recs"])
    chunks, load = [[] for _ in range(nproc)], [0] * nproc          # few coqc processes (each pays ~5 s to load), balanced
    for name, lg in sorted(logs.items(), key=lambda kv: -weight(kv[1])):
        i = load.index(min(load))
        chunks[i].append((name, lg))
        load[i] += weight(lg)
    chunks = [c for c in chunks if c]

    def run(ix):
        src = HEADER + "".join(log_to_coq(name, lg) for name, lg in chunks[ix])
        rc, out = vlib.coq_eval(PID, "Cases_%s_%d" % (tag, ix), src, timeout=900)
        v = parse_verdicts(out)
        if rc != 0 or any(name not in v for name, _ in chunks[ix]):
            raise vlib.InfraError("case evaluation failed: " + out[-2500:])
        return v
    res = {}
    with ThreadPoolExecutor(max_workers=len(chunks)) as ex:
        for v in ex.map(run, range(len(chunks))):
            res.update(v)
    return res


# ---------------------------------------------------------------------------------------------
# running the implementation
# ---------------------------------------------------------------------------------------------

def outcome_code(err):
    return 0 if not err else 2 if err.startswith("panic") else 1


def write_logs(logs, tag, rewrites=None):
    """Real Writer.  Returns per log: files (bytes), all ops as the model sees them (kind, ts, db, payload; ts 0 for a
    refused call), the observed outcome of every call, the payloads the replication hook saw."""
    req = {"mode": "write", "logs": [{"id": l["id"], "max_size": l["max_size"], "hold": bool(l.get("hold")), "ops": l["ops"]} for l in logs]}
    out = W.run_harness(PID, req, tag + "_w", rewrites=rewrites)
    if len(out["logs"]) != len(logs):
        raise vlib.TieBroken("harness returned %d logs for %d" % (len(out["logs"]), len(logs)))
    res = []
    for l, o in zip(logs, out["logs"]):
        if o["dropped"] or len(o["errs"]) != len(l["ops"]):
            raise vlib.TieBroken("writer dropped an append of log %s (async buffer full?): dropped=%s" % (l["id"], o["dropped"]))
        hooks = list(o["hook"])
        ops, hook = [], []
        for op, err in zip(l["ops"], o["errs"]):
            h = hooks.pop(0) if (not err and hooks) else {"ts": 0, "p": ""}
            if op["k"] == "meta":
                ops.append((1, h["ts"], op["db"], op["p"]))
                mine = W.envelope(bytes.fromhex(op["db"]), bytes.fromhex(op["p"])).hex()
            elif op["k"] == "raw":
                ops.append((0, h["ts"], "", op["p"]))
                mine = op["p"]
            else:                              # Append(records): the payload is msgpack.Marshal(records), as the hook saw it
                ops.append((0, h["ts"], "", h["p"]))
                mine = h["p"]
            if not err:
                # hold mode has no hook: the payload the model must find on disk is the one handed to the call
                hook.append(mine if l.get("hold") else h["p"])
        res.append({"files": [bytes.fromhex(f) for f in o["files"]], "ops": ops, "hook": hook,
                    "outcomes": [outcome_code(e) for e in o["errs"]], "errs": o["errs"], "names": o["names"]})
    return res, out.get("params", {})


def read_items(items, tag, rewrites=None):
    """items: [{id, files:[bytes], muts, recover}] -> harness output (items in order).  Runs in batches: one
    test process reads at most ~60 000 mutated files (it runs with the collector off, see lib_wal.run_harness)."""
    batches, cur, n = [], [], 0
    for it in items:
        cur.append(it)
        n += len(it["muts"]) + len(it["recs"])
        if n >= 60000:
            batches.append(cur)
            cur, n = [], 0
    if cur or not batches:
        batches.append(cur)
    total = {"items": [], "crc_checks": 0, "crc_misses": []}
    for bi, batch in enumerate(batches):
        req = {"mode": "read", "items": [{"id": it["id"], "files": [f.hex() for f in it["files"]], "muts": it["muts"], "recover": it["recs"],
                                          "frames": [[[o + 16, ln] for (o, ln) in W.genuine_frames(f)] for f in it["files"]]}
                                         for it in batch]}
        out = W.run_harness(PID, req, "%s_r%d" % (tag, bi), timeout=1500, rewrites=rewrites)
        if len(out["items"]) != len(batch):
            raise vlib.TieBroken("harness returned %d items for %d" % (len(out["items"]), len(batch)))
        for it, o in zip(batch, out["items"]):
            if len(o["obs"]) != len(it["muts"]) or len(o["recover"]) != len(it["recs"]):
                raise vlib.TieBroken("harness returned a wrong number of observations for item %s" % it["id"])
        total["items"] += out["items"]
        total["crc_checks"] += out["crc_checks"]
        total["crc_misses"] += out["crc_misses"]
    return total


def intern_obs(obs_list, table):
    idx = []
    for o in obs_list:
        key = (ST[o["st"]], tuple(o["e"]), o["c"])
        if key not in table:
            table[key] = len(table)
        idx.append(table[key])
    return idx


def build_log(it, o):
    table = {}
    mut_obs = intern_obs(o["obs"], table)
    rec_obs = intern_obs(o["recover"], table)
    obs = [None] * len(table)
    for k, i in table.items():
        obs[i] = (k[0], list(k[1]), k[2])
    return {"maxsize": it["maxsize"], "maxp": it["maxp"], "literal": it["literal"], "ops": it["ops"], "outcomes": it["outcomes"],
            "hook": it["hook"], "files": [f.hex() for f in it["files"]], "classes": o["classes"], "entries": o["entries"], "obs": obs,
            "muts": it["muts"], "mut_obs": mut_obs, "recs": it["recs"], "rec_obs": rec_obs}


def make_item(iid, files, ops, hook, maxsize, literal, rng, maxp, outcomes=None, full_len=False, light=False, nrec=10, tag="", nosweep=False,
              mini=False):
    muts = []
    for fi, data in enumerate(files):
        muts += enumerate_muts(data, fi, W.genuine_frames(data), full_len=full_len, light=light, nosweep=nosweep, mini=mini)
    subst = [m for m in muts if m["k"] != "n"]
    recs = [{"f": 0, "k": "n", "p": 0, "b": 0}]
    if len(files) > 1:          # every file of a rotated log: unreadable (magic), torn in the middle
        for fi, data in enumerate(files):
            recs.append({"f": fi, "k": "s", "p": 0, "b": 0})
            if len(data) > HDR:
                recs.append({"f": fi, "k": "t", "p": (len(data) + HDR) // 2, "b": 0})
    recs += rng.sample(subst, min(nrec, len(subst))) if subst else []
    return {"id": iid, "files": files, "ops": ops, "hook": hook, "maxsize": maxsize or 104857600, "maxp": maxp, "literal": literal,
            "outcomes": outcomes if outcomes is not None else [0] * len(ops), "muts": muts, "recs": recs, "tag": tag}


def setup():
    W.translate_params()


def warm():
    W.run_harness(PID, {"mode": "read", "items": []}, "warm")


def corpus_items(rng, start_id):
    d = os.path.join(vlib.ROOT, "corpus", PID)
    items = []
    if os.path.isdir(d):
        for fn in sorted(os.listdir(d)):
            if fn.endswith(".json"):
                c = json.load(open(os.path.join(d, fn))).get("case")
                if c:
                    items.append(item_from_case(c, start_id + len(items), "corpus:" + fn))
    return items


def item_from_case(c, iid, tag):
    files = [bytes.fromhex(h) for h in c["files"]]
    ops = [tuple(o) for o in c.get("ops", [])]
    literal = c.get("literal", not ops)
    m = c["mut"]
    return {"id": iid, "files": files, "ops": ops, "hook": c.get("hook", []), "maxsize": c.get("maxsize", 104857600),
            "maxp": c.get("maxp", 104857600), "outcomes": c.get("outcomes", [0] * len(ops)),
            "literal": literal, "muts": [m] if not c.get("recovery") else [], "recs": [m] if c.get("recovery") else [], "tag": tag}


def case_of(it, m, recovery=False):
    return {"files": [f.hex() for f in it["files"]], "ops": [list(o) for o in it["ops"]], "hook": it["hook"], "outcomes": it["outcomes"],
            "maxsize": it["maxsize"], "maxp": it["maxp"], "literal": it["literal"], "mut": m, "recovery": recovery, "tag": it.get("tag", "")}


def cap_rewrites(maxp):
    return None if maxp == REAL_CAP[0] else {W.WAL_GO: [(CAP_ANCHOR[0], CAP_ANCHOR[1] % maxp, CAP_ANCHOR[2])]}


REAL_CAP = [104857600]


def evaluate(items, tag):
    """items of ONE build (same maxp)"""
    out = read_items(items, tag, rewrites=cap_rewrites(items[0]["maxp"]) if items else None)
    logs = {"log_%d" % it["id"]: build_log(it, o) for it, o in zip(items, out["items"])}
    verdicts = eval_logs(logs, tag)
    return out, logs, verdicts


def shrink_case(it, m, recovery, still_bad, budget=6):
    """Drop whole genuine frames that do not contain the mutated byte (literal files, one file)."""
    f = it["files"][m["f"]]
    cur_file, cur_m = f, dict(m, f=0)
    changed = True
    while changed and budget > 0:
        changed = False
        frames = W.genuine_frames(cur_file)
        for (o, ln) in frames:
            if cur_m["k"] != "n" and o <= cur_m["p"] < o + 16 + ln:
                continue
            if cur_m["k"] == "t" and cur_m["p"] < o + 16 + ln:
                continue
            cand = cur_file[:o] + cur_file[o + 16 + ln:]
            cm = dict(cur_m)
            if cm["k"] != "n" and cm["p"] >= o + 16 + ln:
                cm["p"] -= 16 + ln
            budget -= 1
            cit = {"id": 0, "files": [cand], "ops": [], "hook": [], "outcomes": [], "maxsize": 104857600, "maxp": it["maxp"], "literal": True,
                   "muts": [] if recovery else [cm], "recs": [cm] if recovery else [], "tag": "shrink"}
            if still_bad(cit):
                cur_file, cur_m = cand, cm
                changed = True
                break
            if budget <= 0:
                break
    return {"id": 0, "files": [cur_file], "ops": [], "hook": [], "outcomes": [], "maxsize": 104857600, "maxp": it["maxp"], "literal": True,
            "muts": [], "recs": [], "tag": "shrunk from " + str(it.get("tag", ""))}, cur_m


def size_probe(params):
    """Thorough tier: the writer's size test at the REAL cap (100 MB payloads).  Nothing this large is evaluated
    in Coq; outcome, file size and the number of entries read back are compared with the arithmetic of
    Model.append_outcome / frame (3 + len(db) + len(p) <= cap; 16 + payload bytes per frame)."""
    cap = params["MaxWALPayloadSize"]
    ops, expect = [], []
    for kind, db, n in (("raw", b"", cap), ("raw", b"", cap + 1), ("meta", b"ab", cap - 5), ("meta", b"ab", cap - 4),
                        ("meta", b"", cap - 3), ("meta", b"", cap - 2), ("meta", b"ab", cap)):
        ops.append({"k": kind, "db": db.hex(), "n": n, "p": ""})
        disk = n + (3 + len(db) if kind == "meta" else 0)
        expect.append((disk <= cap, disk))
    ops.append({"k": "raw", "p": W.mp_columnar("t", {"v": [1]}).hex()})
    expect.append((True, len(bytes.fromhex(ops[-1]["p"]))))
    out = W.run_harness(PID, {"mode": "write", "logs": [{"id": 900, "max_size": 0, "nofiles": True, "ops": ops}]}, "sizeprobe", timeout=1500)
    if not out.get("logs"):
        raise vlib.TieBroken("size probe: the harness returned no log")
    lo = out["logs"][0]
    lo = {"errs": lo.get("errs") or [], "sizes": lo.get("sizes") or [], "counts": lo.get("counts") or []}
    want_codes = [0 if ok else 1 for ok, _ in expect]
    # file layout by the rule of Model.rotate_split with the default MaxSizeBytes (100 MB): a file is closed as soon
    # as its size reaches the limit, so every 100 MB entry gets a file of its own
    maxsize = 100 * 1024 * 1024
    want_sizes, want_counts, size, cnt = [], [], HDR, 0
    for okk, d in expect:
        if okk:
            size += 16 + d
            cnt += 1
            if size >= maxsize:
                want_sizes.append(size)
                want_counts.append(cnt)
                size, cnt = HDR, 0
    want_sizes.append(size)
    want_counts.append(cnt)
    got_codes = [outcome_code(e) for e in lo["errs"]]
    ok = got_codes == want_codes and lo["sizes"] == want_sizes and lo["counts"] == want_counts
    return ok, {"ops": [(o["k"], o.get("db", ""), o.get("n") or len(o.get("p", "")) // 2) for o in ops], "expected_outcomes": want_codes,
                "observed_outcomes": got_codes, "expected_file_sizes": want_sizes, "observed_file_sizes": lo["sizes"],
                "expected_entries_per_file": want_counts, "observed_entries_per_file": lo["counts"], "errs": [e[:80] for e in lo["errs"]]}


def run(res, tier, seed):
    """No Python exception escapes: anything unexpected in the machinery is an InfraError (check.py exits 2 and says
    so), a tie that cannot be established is a TieBroken (VIOLATION ... no-failing-input-found)."""
    try:
        _run(res, tier, seed)
    except (vlib.TieBroken, vlib.InfraError):
        raise
    except Exception as e:          # noqa: BLE001
        import traceback
        raise vlib.InfraError("unexpected %s in tools/props/C06.py: %s\n%s" % (type(e).__name__, e, traceback.format_exc()[-1500:]))


def _run(res, tier, seed):
    rng = random.Random(seed * 7919 + 6)
    t0 = time.time()
    try:
        params = W.translate_params()
    finally:
        res.stage("translate_params", t0)
    res.cov["params"] = params
    REAL_CAP[0] = cap = params["MaxWALPayloadSize"]

    failed = vlib.std_proof_stage(res, PID, AREA, MODULES, THEOREMS, extra_targets=["theories/Wal/Obligations.vo"])
    res.cov["trusted_base"] += [
        "CRC-32 is a parameter of the theorems with two premises: crc p < 2^32 and `one changed byte changes the checksum` (true of CRC-32: any error burst of <= 32 bits is detected); the run checks the second premise against hash/crc32 on every payload substitution it performs and evaluates the model with an executable Gallina CRC-32 whose agreement with hash/crc32 is checked through the writer tie (checksum field of every frame)",
        "msgpack decoding at the end of readEntry (msgpack.Unmarshal into []map / map + parseColumnarEntry) is a parameter `classify` of the theorems (nothing assumed about it); the run instantiates it with the verdicts and content fingerprints the real library gives for every CRC-valid candidate payload of every mutated file (harness: verifClassify, a copy of the last 15 lines of readEntry)",
        "file system: a file is the byte string ReadAll sees; process-crash model (a truncated file is a prefix of the written bytes); Writer's age-based rotation, fsync modes and the async channel (entries dropped when full) are not modelled; the order in which the writer goroutine dequeues is the order of the calls (one caller)",
        "timestamps are outside the CRC and outside the property: a damaged timestamp is returned as is (model and theorem say so; Recovery never uses it)",
        "the boundary build: internal/wal/wal.go with the text `%s` replaced by a cap of %d bytes (overlay generated from the current source; a missing anchor breaks the tie)" % (CAP_ANCHOR[0], LOW_CAP),
    ]

    # ---- cases ----
    nlogs = int(os.environ.get("VERIF_C06_LOGS") or (6 if tier == "quick" else 100))
    t1 = time.time()
    wl = witness_logs()
    gl = [gen_log(rng, 10 + i) for i in range(nlogs)]
    written, hparams = write_logs(wl + gl, tier)
    for k, name in (("entry_header_size", "WALEntryHeaderSize"), ("file_header_size", "WALFileHeaderSize"),
                    ("max_payload", "MaxWALPayloadSize"), ("envelope_marker", "WALEnvelopeMarker")):
        if hparams.get(k) != params[name]:
            raise vlib.TieBroken("constant %s: translator says %s, package says %s" % (name, params[name], hparams.get(k)))
    items = []
    for l, w in zip(wl + gl, written):
        items.append(make_item(l["id"], w["files"], w["ops"], w["hook"], l["max_size"], False, rng, cap, outcomes=w["outcomes"],
                               full_len=l.get("full_len", False), light=l.get("light", False), tag=l["tag"]))
    lits = literal_files(rng, params)
    for i, f in enumerate(lits):
        huge = len(f) >= 11 and cap // 2 <= struct.unpack(">I", f[7:11])[0] <= cap
        items.append(make_item(1000 + i, [f], [], [], 0, True, rng, cap, light=(tier == "quick" and i % 4 != 0), nrec=3, tag="literal",
                               nosweep=huge))
    items = corpus_items(rng, 5000) + items
    # the boundary build (cap lowered by overlay): writer and reader at cap-1, cap, cap+1
    bl = boundary_logs(LOW_CAP)
    bwritten, bparams = write_logs(bl, tier + "_b", rewrites=cap_rewrites(LOW_CAP))
    if bparams.get("max_payload") != LOW_CAP:
        raise vlib.TieBroken("boundary build: MaxWALPayloadSize is %s, expected %d" % (bparams.get("max_payload"), LOW_CAP))
    bitems = [make_item(l["id"], w["files"], w["ops"], w["hook"], l["max_size"], False, rng, LOW_CAP, outcomes=w["outcomes"],
                        mini=True, nrec=4, tag=l["tag"]) for l, w in zip(bl, bwritten)]
    res.stage("generate_and_write", t1)

    t2 = time.time()
    out = read_items(items, tier)
    bout = read_items(bitems, tier + "_b", rewrites=cap_rewrites(LOW_CAP))
    res.stage("impl_harness", t2)
    t3 = time.time()
    allitems = items + bitems
    allout = out["items"] + bout["items"]
    logs = {"log_%d" % it["id"]: build_log(it, o) for it, o in zip(allitems, allout)}
    verdicts = eval_logs(logs, tier)
    res.stage("coq_eval", t3)

    # ---- numbers ----
    nreads = sum(len(it["muts"]) for it in allitems)
    nrecs = sum(len(it["recs"]) for it in allitems)
    distinct = set()
    hist = {"mutation": {"none": 0, "truncate": 0, "substitute": 0}, "position": {}, "status": {"ok": 0, "err": 0, "panic": 0},
            "logs": {}, "entries_returned": {}, "files_per_log": {}, "append_outcomes": {"ok": 0, "error": 0, "panic": 0}}
    for it, o in zip(allitems, allout):
        key = re.sub(r"[-+]?\d+$", "", it["tag"].split(":")[0])
        hist["logs"][key] = hist["logs"].get(key, 0) + 1
        hist["files_per_log"][str(len(it["files"]))] = hist["files_per_log"].get(str(len(it["files"])), 0) + 1
        for c in it["outcomes"]:
            hist["append_outcomes"][("ok", "error", "panic")[c]] += 1
        fh = [hashlib.sha1(f).hexdigest()[:12] for f in it["files"]]
        frames = [W.genuine_frames(f) for f in it["files"]]
        nontriv_log = len(it["ops"]) >= 2
        for m, ob in zip(it["muts"], o["obs"]):
            hist["mutation"][{"n": "none", "t": "truncate", "s": "substitute"}[m["k"]]] += 1
            hist["status"][ob["st"]] += 1
            ne = str(len(ob["e"]))
            hist["entries_returned"][ne] = hist["entries_returned"].get(ne, 0) + 1
            if m["k"] == "s":
                pc = position_class(m["p"], frames[m["f"]])
                hist["position"][pc] = hist["position"].get(pc, 0) + 1
            if nontriv_log and m["k"] != "n" and m["p"] >= HDR:
                distinct.add((fh[m["f"]], m["k"], m["p"], m["b"]))
    res.cov["evaluations"] = nreads + nrecs
    res.cov["distinct_nontrivial"] = len(distinct)
    res.cov["exhaustive"] = True
    res.cov["rule"] = ("per written log (2-4 appends: raw columnar, enveloped, row format, replication-style pre-enveloped, edge payloads; "
                       "some rotating at 60-200 bytes; every payload/database buffer overwritten right after the call, every second log with "
                       "the writer goroutine held off the queue meanwhile) and per malformed literal file: EVERY truncation offset and, for EVERY "
                       "byte position, every substitution from {00,01,80,FF,orig^01,orig^80,orig+1} (all 255 values on the low length byte of every "
                       "frame; on the two low length bytes of the regression logs) - exhaustive per log; each mutated file read with the real "
                       "Reader.ReadAll and compared with read_all in Coq; plus Recovery runs over the whole directory; plus the boundary build "
                       "(cap lowered to %d bytes: appends of cap-1, cap, cap+1 bytes on disk, raw and enveloped, lighter sweep).  Non-trivial = "
                       "the log has >= 2 entries and the mutation is inside the file body (offset >= 7); distinct by (file bytes, mutation)" % LOW_CAP)
    res.cov["reader_runs"] = nreads
    res.cov["recovery_runs"] = nrecs
    res.cov["logs"] = len(allitems)
    res.cov["crc32_single_byte_checks"] = out["crc_checks"] + bout["crc_checks"]
    crc_misses = out["crc_misses"] + bout["crc_misses"]
    res.cov["crc32_single_byte_misses"] = len(crc_misses)
    res.cov["histogram"] = hist
    mid = len(allitems) // 2
    res.cov["samples"] = [{"log": it["id"], "tag": it["tag"], "files": [f.hex() for f in it["files"]], "mutation": it["muts"][len(it["muts"]) // 2],
                           "observed": o["obs"][len(it["muts"]) // 2]}
                          for it, o in list(zip(allitems, allout))[:2] + [(allitems[mid], allout[mid])] if it["muts"]]

    # ---- verdicts ----
    dis = sum(len(v["v_disagree"]) + len(v["v_rdisagree"]) for v in verdicts.values())
    orf = sum(len(v["v_oracle"]) + len(v["v_roracle"]) for v in verdicts.values())
    res.cov["model_vs_impl_disagreements"] = dis
    res.cov["oracle_failures"] = orf
    res.cov["writer_tie_failures"] = sum(1 for v in verdicts.values() if not v["writer"])

    if crc_misses:
        res.violation("hash/crc32 did not detect a single changed byte: the premise crc_detects_1byte of C06_corruption is false",
                      {"kind": "crc-hypothesis", "detail": crc_misses[:5]}, no_input=True, suffix="crc")

    by_name = {"log_%d" % it["id"]: (it, o) for it, o in zip(allitems, allout)}

    def one_eval(cit):
        _, _, v = evaluate([cit], "shrink")
        return v["log_0"]

    # the implementation violates the property on a concrete input
    nviol = 0
    for name, v in verdicts.items():
        it, o = by_name[name]
        for field, recovery in (("v_oracle", False), ("v_roracle", True)):
            for j in v[field][:1]:
                if nviol >= 3:
                    break
                m = (it["recs"] if recovery else it["muts"])[j]
                ob = (o["recover"] if recovery else o["obs"])[j]
                res.violation("the real %s violates C06 on %s of log %s [%s] (observed %s, %d entries)" % (
                    "Recovery" if recovery else "Reader.ReadAll", {"n": "the intact file", "t": "a truncation", "s": "a substituted byte"}[m["k"]],
                    it["id"], it["tag"], ob["st"], len(ob["e"])),
                    {"kind": "property-violated", "case": case_of(it, m, recovery), "observed": ob,
                     "observed_entries": [o["entries"][i] for i in ob["e"]],
                     "how_to_replay": "python3 tools/check.py C06 --replay <this file>"})
                nviol += 1
    # the writer does something else than the model (accepts/refuses another set of calls, other bytes on disk)
    for name, v in verdicts.items():
        it, o = by_name[name]
        if not v["writer"]:
            res.violation("real wal.Writer differs from the model on log %s [%s]: outcome of the append calls, bytes on disk or rotation layout" % (it["id"], it["tag"]),
                          {"kind": "correspondence", "correspondence": TIE_NAME + " [writer]", "case": case_of(it, it["muts"][0] if it["muts"] else {"f": 0, "k": "n", "p": 0, "b": 0}),
                           "observed_outcomes": it["outcomes"], "oracle_fails_on_impl": bool(v["v_oracle"] or v["v_roracle"])},
                          no_input=not (v["v_oracle"] or v["v_roracle"]), suffix="writer")
            break
    # model/implementation disagreements of the reader
    if dis and nviol == 0:
        for name, v in verdicts.items():
            it, o = by_name[name]
            pick = [(j, False) for j in v["v_disagree"][:1]] + [(j, True) for j in v["v_rdisagree"][:1]]
            if not pick:
                continue
            j, recovery = pick[0]
            m = (it["recs"] if recovery else it["muts"])[j]

            def still_bad(cit):
                vv = one_eval(cit)
                return bool(vv["v_rdisagree"] if recovery else vv["v_disagree"])
            try:
                small, sm = shrink_case(it, m, recovery, still_bad)
                case = case_of(small, sm, recovery)
            except (vlib.TieBroken, vlib.InfraError):
                case = case_of(it, m, recovery)
            ob = (o["recover"] if recovery else o["obs"])[j]
            res.violation("model and implementation disagree on a %s (log %s, %d disagreeing runs in total)" % (
                "Recovery run" if recovery else "ReadAll run", it["id"], dis),
                {"kind": "correspondence", "correspondence": TIE_NAME, "case": case, "original_case": case_of(it, m, recovery),
                 "observed": ob, "observed_entries": [o["entries"][i] for i in ob["e"]], "disagreeing_runs": dis,
                 "oracle_fails_on_impl": False,
                 "how_to_replay": "python3 tools/check.py C06 --replay <this file>"}, no_input=True, suffix="corr")
            break
    if tier == "thorough":
        t5 = time.time()
        ok, detail = size_probe(params)
        res.stage("size_probe_real_cap", t5)
        res.cov["size_probe_real_cap"] = dict(detail, ok=ok)
        if not ok:
            res.violation("the writer's size test at the real cap differs from the model's arithmetic (or the oversized entry is not read back)",
                          dict(detail, kind="property-violated", note="size-only probe, see size_probe() in tools/props/C06.py"))
        t4 = time.time()
        rc, o = vlib.sh(["timeout", "1500", "coqchk", "-silent", "-o", "-Q", os.path.join(vlib.COQ, "theories"), "Arc",
                         "-Q", os.path.join(vlib.COQ, "gen"), "ArcGen", "Arc.Wal.Props", "Arc.Wal.Obligations"], cwd=vlib.COQ, timeout=1600)
        res.stage("coqchk", t4)
        res.cov["coqchk"] = "ok" if rc == 0 else "rc=%d: %s" % (rc, o[-400:])
        if rc != 0 and rc != 127:
            failed.append(("coqchk", "coqchk rejects the compiled development: " + o[-300:]))
    if failed and not res.violations:
        res.violation("proof obligation(s) no longer check: " + "; ".join(r for _, r in failed),
                      {"kind": "obligation-failed", "theorems": [t for t, _ in failed], "detail": [r for _, r in failed]},
                      no_input=True, suffix="obligation")


def replay(res, path):
    obj = json.load(open(path))
    c = obj.get("case")
    if not c:
        print("replay file names no concrete case:", obj.get("summary"))
        return 1
    REAL_CAP[0] = W.translate_params()["MaxWALPayloadSize"]
    it = item_from_case(c, 0, "replay")
    out, logs, verdicts = evaluate([it], "replay")
    v = verdicts["log_0"]
    o = out["items"][0]
    ob = (o["recover"] if c.get("recovery") else o["obs"])[0]
    print("mutation:", c["mut"], "| observed:", ob["st"], [o["entries"][i] for i in ob["e"]], "corrupted=%d" % ob["c"])
    bad_dis = bool(v["v_disagree"] or v["v_rdisagree"])
    bad_or = bool(v["v_oracle"] or v["v_roracle"])
    print("model disagrees:", bad_dis, "| property violated by the implementation:", bad_or, "| writer tie ok:", v["writer"])
    return 1 if (bad_dis or bad_or or not v["writer"]) else 0
