"""C04 - No request payload can crash the server  (area NoCrash, level: proof, PARTIAL).

Proof: coq/theories/NoCrash.  Core.v is the ingest buffer + flush path with Go's panics as
explicit outcomes, Model.v the MessagePack / line-protocol request fronts (decoders imported
from the MsgPack and LP areas) and the whole-server run; both follow /repo AFTER the fix commits
6c35f6a, 5cfca39, 763beab.  Theorems over ALL request sequences: the process never dies, no guard
(C04_no_panic; for ANY decoder C04_core_no_panic, with C04_recover_is_what_saves_the_process
showing the hypothesis is not idle); when every decoded batch is a rectangular Go map with an
int64 time column no flush fails and rows are conserved (C04_core_no_flush_failure_guarded,
C04_core_rows_conserved_guarded, C04_rows_conserved_guarded); a refused request stores nothing
(C04_*front_rejected_stores_nothing); the former crash witnesses are refused or stored
(C04_old_crash_witnesses_fixed), and so are the sequences that lost an accepted row before ac0d5a8
(C04_lost_row_witnesses_fixed).  Still refuted: C04_rejected_stores_nothing_refuted.

Tie: the REAL fiber app of api.NewServer with the REAL handlers, a REAL ArrowBuffer and a
temporary LocalBackend run request SEQUENCES (+ background FlushAll) in CHILD processes; status
classes, process death, stored rows and the buffer's own buffered/written counters are compared
with the model inside Coq.  A second, implementation-only stream sends mutated MessagePack /
line-protocol / CSV / Parquet / TLE bodies (compressed or not) as sequences: any process death
or outsized allocation is a violation with the sequence as replay (supporting exploration).
"""
import base64
import glob
import hashlib
import json
import os
import random
import re
import threading
import time
import zlib

import vlib
import lib_msgpack as mp
from lib_msgpack import S, I, A, M, F64, NIL

PID = "C04"
AREA = "NoCrash"
MODULES = ["Arc.NoCrash.Props"]
THEOREMS = [("Arc.NoCrash.Props", t) for t in (
    "C04_no_panic", "C04_core_no_panic", "C04_recover_is_what_saves_the_process",
    "C04_core_no_flush_failure_guarded", "C04_core_rows_conserved_guarded", "C04_rows_conserved_guarded",
    "C04_core_front_rejected_stores_nothing", "C04_front_rejected_stores_nothing", "C04_old_crash_witnesses_fixed",
    "C04_rejected_stores_nothing_refuted", "C04_lost_row_witnesses_fixed", "C04_decoder_panic_recovered")]
TIE_NAME = ("C04 correspondence (api.NewServer app + MsgPackHandler/LineProtocolHandler + ingest.ArrowBuffer in child "
            "processes vs Arc.NoCrash.Model.run_server)")

HARNESS = {"internal/api/zz_nocrash_verif_test.go": "harness/nocrash/nocrash_verif_test.go",
           "internal/ingest/zz_nocrash_hooks.go": "harness/nocrash/zz_nocrash_hooks.go"}
REWRITES = {"internal/ingest/arrow_writer.go": [
    ("\tcase b.flushQueue <- task:\n\t\tb.queueDepth.Add(1)\n",
     "\tcase b.flushQueue <- task:\n\t\tb.queueDepth.Add(1)\n\t\tVerifNoCrashEnq.Add(1)\n", 1),
    ("\t\t\tb.flushRecordsAsync(task.ctx, task.bufferKey, task.database, task.measurement, task.records, task.recordCount)\n",
     "\t\t\tb.flushRecordsAsync(task.ctx, task.bufferKey, task.database, task.measurement, task.records, task.recordCount)\n"
     "\t\t\tVerifNoCrashDone.Add(1)\n", 1),
    # fault injection point: a panic inside the merge of a flush (exercises the recover of commit 763beab)
    ("func (b *ArrowBuffer) mergeBatches(batches []interface{}) (*TypedColumnBatch, error) {\n",
     "func (b *ArrowBuffer) mergeBatches(batches []interface{}) (*TypedColumnBatch, error) {\n"
     "\tif VerifNoCrashPanic.Load() {\n\t\tpanic(\"verif: injected panic in mergeBatches\")\n\t}\n", 1)]}

T0 = 1700000000000000            # microseconds; 2023-11-14T22:13:20Z
HOUR = 3600000000
BIG = 1000000

HEADER = ("From Coq Require Import List ZArith NArith Bool Uint63.\nFrom Arc Require Import LP.Pack.\n"
          "From Arc Require Import MsgPack.Model.\nFrom Arc Require Import NoCrash.Core NoCrash.Model.\n"
          "Import ListNotations.\nOpen Scope Z_scope.\n")


def chx(b):
    """bytes -> Coq term (Arc.LP.Pack.hx: 7 bytes per primitive-int literal; cheap to elaborate)"""
    if not b:
        return "[]"
    return "(hx [" + ";".join("0x1" + bytes(b[i:i + 7]).hex() for i in range(0, len(b), 7)) + "]%uint63)"


def b64(b):
    return base64.b64encode(b).decode()


# ---------------------------------------------------------------------------------------
# events (python side):  {"k": "mp", "db": None|str, "ast": ast, "enc": ""}
#                        {"k": "lp", "db": None|str, "prec": "us", "body": bytes, "enc": ""}
#                        {"k": "flush"}
#                        {"k": "raw", ...}   implementation-only stream (no model)

FLUSH = {"k": "flush"}


def ev_mp(ast, db=None, enc=""):
    return {"k": "mp", "db": db, "ast": ast, "enc": enc}


def ev_lp(body, db=None, prec="us", enc=""):
    if isinstance(body, str):
        body = body.encode()
    return {"k": "lp", "db": db, "prec": prec, "body": body, "enc": enc}


def ev_to_step(e, rng=None):
    if e["k"] == "flush":
        return {"op": "flush"}
    if e["k"] == "inject":
        return {"op": "inject", "on": bool(e["on"])}
    if e["k"] in ("gate", "release"):
        return {"op": e["k"]}
    if e["k"] == "badz":
        path = "/api/v1/write/msgpack" if e["endpoint"] == "mp" else "/api/v1/write/line-protocol?precision=us"
        return {"op": "req", "path": path, "db": None, "ctype": "application/octet-stream", "body": b64(e["body"]), "enc": ""}
    if e["k"] == "mp":
        return {"op": "req", "path": "/api/v1/write/msgpack", "db": e["db"], "ctype": "application/msgpack",
                "body": b64(mp.encode(e["ast"], rng)), "enc": e.get("enc", "")}
    if e["k"] == "lp":
        return {"op": "req", "path": "/api/v1/write/line-protocol?precision=" + e["prec"], "db": e["db"],
                "ctype": "text/plain", "body": b64(e["body"]), "enc": e.get("enc", "")}
    if e["k"] == "raw":
        return {"op": "req", "method": e.get("method", "POST"), "path": e["path"], "db": e.get("db"),
                "ctype": e.get("ctype", ""), "body": b64(e["body"]), "enc": e.get("enc", ""), "measure": bool(e.get("measure")),
                "async": bool(e.get("async"))}
    raise ValueError(e)


def ev_to_json(e):
    j = dict(e)
    if e["k"] == "mp":
        j["ast"] = mp.to_json(e["ast"])
    if "body" in j:
        j["body"] = e["body"].hex()
    if "text" in j:
        j["text"] = e["text"].hex()
    return j


def ev_from_json(j):
    e = dict(j)
    if e["k"] == "mp":
        e["ast"] = mp.from_json(j["ast"])
    if "body" in e:
        e["body"] = bytes.fromhex(j["body"])
    if "text" in e:
        e["text"] = bytes.fromhex(j["text"])
    return e


def case_to_json(c):
    j = {k: v for k, v in c.items() if k not in ("events", "obs")}
    j["events"] = [ev_to_json(e) for e in c["events"]]
    return j


def case_from_json(j):
    c = dict(j)
    c["events"] = [ev_from_json(e) for e in j["events"]]
    return c


def copt_bytes(s):
    if s is None:
        return "None"
    return "(Some %s)" % mp.cbytes(s.encode() if isinstance(s, str) else s)


def ev_to_coq(e):
    if e["k"] == "flush":
        return "SFlush"
    if e["k"] == "mp":
        return "SReq (RqMsgpack %s %s)" % (copt_bytes(e["db"]), mp.to_coq(e["ast"]))
    if e["k"] == "lp":
        return "SReq (RqLP %s %s %s)" % (copt_bytes(e["db"]), mp.cbytes(e["prec"].encode()), chx(e["body"]))
    if e["k"] == "badz":
        return "SReq RqUndecompressable"
    raise ValueError(e)


def status_class(s):
    if s in (0, 1):
        return s
    if 200 <= s < 300:
        return 2
    if 400 <= s < 500:
        return 4
    if 500 <= s < 600:
        return 5
    return 9


def classify_panic(text):
    """fatal panic text (+ innermost frames) -> reason code of Model.reason_code, 9 = anything else"""
    if not text:
        return 9
    if "index out of range [0] with length 0" in text and ("getSchema" in text or "inferSchema" in text):
        return 1
    if "interface conversion" in text and "mergeBatches" in text:
        return 2
    if "index out of range" in text and "applyPermutation" in text:
        return 3
    if "mismatch number of rows" in text:
        return 4
    return 9


def obs_codes(case, o):
    """codes of the answered steps; flush steps report 0/1"""
    out = []
    for e, s in zip(case["events"], o["statuses"]):
        out.append(s if e["k"] == "flush" else status_class(s))
    return out


def case_to_coq(case, o):
    rows = sorted(((k.encode("utf-8", "surrogateescape"), v) for k, v in o["rows"].items()), key=lambda kv: kv[0])
    return ("{| cc_max := %d%%N; cc_typed := %s; cc_evs := [%s]; cc_codes := [%s]%%N; cc_died := %s; cc_died_at := %d; "
            "cc_reason := %d%%N; cc_rows := [%s]; cc_buffered := %d%%N; cc_written := %d%%N |}" % (
                case["max_rows"], "true" if case["typed"] else "false",
                "; ".join(ev_to_coq(e) for e in case["events"]),
                "; ".join(str(c) for c in obs_codes(case, o)),
                "true" if o["died"] else "false", max(o["died_at"], 0),
                classify_panic(o.get("panic", "")) if o["died"] else 0,
                "; ".join("(%s, %d%%N)" % (mp.cbytes(k), v) for k, v in rows),
                max(o.get("buffered", 0), 0), max(o.get("written", 0), 0)))


def run_impl(cases, tag, rng=None, timeout=2400):
    hc = [{"id": i, "max_rows": c["max_rows"], "typed": c.get("typed"), "fresh": bool(c.get("fresh")), "gated": bool(c.get("gated")),
           "steps": [ev_to_step(e, rng) for e in c["events"]]} for i, c in enumerate(cases)]
    obs = vlib.run_go_harness(PID, "./internal/api/", "^TestVerifNoCrash$", HARNESS, hc, rewrites=REWRITES,
                              tags="verif duckdb_arrow", timeout=timeout, tag=tag)
    if len(obs) != len(cases):
        raise vlib.TieBroken("C04 harness returned %d results for %d cases" % (len(obs), len(cases)))
    return obs


def eval_in_coq(cases, obs, name):
    """-> (disagree idx, oracle-fail idx, verdicts [(ending, reason, class)])"""
    from concurrent.futures import ThreadPoolExecutor
    terms = [case_to_coq(c, o) for c, o in zip(cases, obs)]
    workers = max(2, min(8, vlib.NCPU // 2))
    chunk = min(400, max(40, -(-len(terms) // workers)))
    jobs = [(off, terms[off:off + chunk]) for off in range(0, len(terms), chunk)]

    def one(job):
        off, part = job
        src = HEADER + "Definition verif_cases : list ccase := [\n" + ";\n".join(part) + "].\n"
        src += ("Definition verif_flags := Eval vm_compute in map (fun c => (case_agrees c, case_oracle c, case_verdict c)) verif_cases.\n"
                "Print verif_flags.\n")
        rc, out = vlib.coq_eval(PID, "%s_%d" % (name, off), src)
        m = re.search(r"verif_flags\s*=\s*(.*?)\n\s*:\s*list", out, re.S)
        if rc != 0 or not m:
            raise vlib.InfraError("case evaluation failed (%s_%d): %s" % (name, off, out[-2500:]))
        items = re.findall(r"\(\s*(true|false)\s*,\s*(true|false)\s*,\s*\(?\s*(\d+)%?N?\s*,\s*(\d+)%?N?\s*,\s*(\d+)%?N?\s*\)?\s*\)", m.group(1))
        if len(items) != len(part):
            raise vlib.InfraError("case evaluation returned %d results for %d cases: %s" % (len(items), len(part), out[-1500:]))
        return off, items

    dis, orf, verdicts = [], [], [None] * len(terms)
    with ThreadPoolExecutor(max_workers=workers) as ex:
        for off, items in ex.map(one, jobs):
            for j, (ag, orc, en, rs, cl) in enumerate(items):
                if ag != "true":
                    dis.append(off + j)
                if orc != "true":
                    orf.append(off + j)
                verdicts[off + j] = (int(en), int(rs), int(cl))
    return sorted(dis), sorted(orf), verdicts


# ---------------------------------------------------------------------------------------
# generators

NORMAL_NAMES = ["v", "host", "usage", "a", "b", "temp", "region", "q", "Z", "cnt"]
ODD_NAMES = ["", "_x", "_", "_database", "_measurement", "a,b", "q:str,a", "Z:f64,a:i64,q", "a:i64", "x y", "m", "measurement",
             "database", "time_value", "hé", "a=b", "\\", "tags"]
TYPES = ["int", "float", "str", "bool"]


def tvals(rng, n, base=None, style=None):
    base = T0 if base is None else base
    style = style or rng.choice(["asc", "asc", "same", "desc", "multi", "rand", "epoch", "epoch"])
    if style == "epoch":
        # SECOND-resolution values around 1970-01-01: the first row in hour bucket 0 (or -1), later rows in other
        # hours, so that the flush takes the multi-hour path (groupByHour) with the epoch hour first
        first = rng.choice([0, 0, 5, 3599, 1800, -1, -3600, 3600])
        ts = [first] + [rng.choice([7200, 7300, 3599, 0, 36000, -7200, 10]) for _ in range(n - 1)]
    elif style == "asc":
        ts = [base + i * 1000 for i in range(n)]
    elif style == "same":
        ts = [base] * n
    elif style == "desc":
        ts = [base + (n - i) * 1000 for i in range(n)]
    elif style == "multi":
        ts = [base + rng.randrange(0, 3) * HOUR + rng.randrange(1000) for _ in range(n)]
    else:
        ts = [base + rng.randrange(0, 1000000) for _ in range(n)]
    return ts


def col_values(rng, ty, n, nulls=False):
    out = []
    for i in range(n):
        if nulls and rng.random() < 0.3:
            out.append(NIL)
        elif ty == "int":
            out.append(I(rng.choice([0, 1, 7, -3, 300, 70000, 2 ** 40])))
        elif ty == "float":
            out.append(F64(rng.choice([0.5, 1.5, -2.25, 1e3])))
        elif ty == "str":
            out.append(S(rng.choice(["a", "b", "srv", "", "x,y"])))
        elif ty == "bool":
            out.append(("bool", rng.random() < 0.5))
        elif ty == "nil":
            out.append(NIL)
        elif ty == "mixed":
            out.append(rng.choice([I(1), S("s"), F64(2.5), ("bool", True)]))
    return out


def columnar(meas, cols, times=None, with_time=True, time_first=None, rng=None):
    """cols: [(name, [ast values])]"""
    pairs = [(n if not isinstance(n, str) else n, A(*vals)) for n, vals in cols]
    if with_time and times is not None:
        tp = ("time", A(*[I(t, "i64") for t in times]))
        if time_first is None:
            time_first = True
        pairs = [tp] + pairs if time_first else pairs + [tp]
    return M(("m", S(meas) if isinstance(meas, (str, bytes)) else meas), ("columns", M(*pairs)))


def gen_schema(rng, pool, kmin=1, kmax=3):
    k = rng.randint(kmin, min(kmax, len(pool)))
    return rng.sample(pool, k)


def rand_db(rng, ok=True):
    if ok:
        return rng.choice([None, None, "", "default", "mydb", "db-1_x", "A" * 64])
    return rng.choice(["9bad", "a/b", "x" * 65, "-a", "a b", "_a", "dé"])


def rand_meas(rng, ok=True):
    if ok:
        return rng.choice(["cpu", "cpu", "mem", "net-1", "M_2", "a" * 128])
    return rng.choice(["9cpu", "c/pu", "a" * 129, "c pu", "_m", "-", "cpü", "c,pu", "c:pu"])


def rand_enc(rng):
    return rng.choice(["", "", "", "gzip", "zstd"])


def gz(data):
    co = zlib.compressobj(6, zlib.DEFLATED, 31)
    return co.compress(data) + co.flush()


BAD_GZIP = [b"\x1f\x8b\x00\x00not-deflate", b"\x1f\x8b", b"\x1f\x8b\x08\x00\x00\x00\x00\x00\x00\x03\xff\xff\xff garbage",
            gz(b"cpu v=1i 1700000000000000\n" * 20)[:-9], b"\x1f\x8b\x09\x08reserved-method"]
BAD_ZSTD = [b"\x28\xb5\x2f\xfd", b"\x28\xb5\x2f\xfd\xff\xff\xff\xff garbage after the magic", b"\x28\xb5\x2f\xfd\x24\x05\x29"]


def ev_badz(endpoint, body):
    """a body that starts with the gzip / zstd magic but does not decompress (model: RqUndecompressable -> 400)"""
    return {"k": "badz", "endpoint": endpoint, "body": body}


def maybe_badz(rng, evs, p=0.08):
    if rng.random() < p:
        evs.append(ev_badz(rng.choice(["mp", "lp"]), rng.choice(BAD_GZIP + BAD_ZSTD)))


def gen_family_schema_churn(rng, odd):
    """one measurement, several requests whose column sets / types are drawn from a small pool;
    odd = the pool contains unusual names (empty, '_'-prefixed, ',' ':' in the name, reserved)"""
    meas = rand_meas(rng)
    db = rand_db(rng)
    names = rng.sample(NORMAL_NAMES, 3) + (rng.sample(ODD_NAMES, rng.randint(1, 3)) if odd else [])
    evs = []
    nreq = rng.randint(2, 5)
    maxrows = rng.choice([BIG, BIG, BIG, 1, 2, 3, 4, 6])
    base = T0 + rng.randrange(0, 5) * HOUR
    for i in range(nreq):
        n = rng.randint(1, 4)
        sch = gen_schema(rng, names, 1, 3)
        cols = []
        for nm in sch:
            ty = rng.choice(TYPES) if rng.random() < 0.5 else TYPES[(hash(nm) + len(nm)) % 4]
            if rng.random() < 0.07:
                # (a record that carries "" AND fails its conversion is kept out of the stream: the MessagePack
                # model does not expose the column names of a record whose conversion fails)
                ty = "nil" if "" in sch else rng.choice(["nil", "mixed"])
            cols.append((nm, col_values(rng, ty, n, nulls=rng.random() < 0.25)))
        with_time = rng.random() < 0.9
        ast = columnar(meas, cols, tvals(rng, n, base), with_time=with_time, time_first=rng.random() < 0.6)
        maybe_badz(rng, evs)
        evs.append(ev_mp(ast, db, rand_enc(rng)))
        if rng.random() < 0.2:
            evs.append(FLUSH)
    evs.append(FLUSH)
    return {"family": "churn-odd" if odd else "churn", "max_rows": maxrows, "typed": rng.random() < 0.8, "events": evs}


def lp_escape(s):
    return s.replace("\\", "\\\\").replace(",", "\\,").replace(" ", "\\ ").replace("=", "\\=")


def lp_value(rng, ty):
    if ty == "int":
        return "%di" % rng.choice([0, 1, -5, 42, 2 ** 40])
    if ty == "float":
        return rng.choice(["1.5", "-2.25", "3", "0.125"])
    if ty == "str":
        return '"%s"' % rng.choice(["a", "b c", "x,y", ""])
    if ty == "uint":
        return "%du" % rng.choice([0, 7, 2 ** 63 + 5, 9])
    return rng.choice(["true", "false", "t", "F"])


def gen_lp_line(rng, meas, fields, tags, ts):
    s = lp_escape(meas)
    for k, v in tags:
        s += ",%s=%s" % (lp_escape(k), lp_escape(v))
    s += " " + ",".join("%s=%s" % (lp_escape(k), v) for k, v in fields)
    if ts is not None:
        s += " %d" % ts
    return s


LP_ODD = ["_x", "_", "a,b", "q:str,a", "time", "_database", "a=b", "x y", "time_value", "host"]


def gen_family_lp(rng, odd):
    meas = rand_meas(rng)
    db = rand_db(rng)
    names = rng.sample(["v", "usage", "a", "b", "temp"], 3) + (rng.sample(LP_ODD, rng.randint(1, 2)) if odd else [])
    evs = []
    base = T0 + rng.randrange(0, 3) * HOUR
    for i in range(rng.randint(2, 4)):
        lines = []
        nl = rng.randint(1, 3)
        sch = [(nm, rng.choice(["int", "float", "str", "bool", "uint"]) if rng.random() < 0.5 else "int") for nm in gen_schema(rng, names, 1, 3)]
        for j in range(nl):
            fields = [(nm, lp_value(rng, ty if rng.random() < 0.9 else rng.choice(["int", "str", "float"]))) for nm, ty in sch]
            tags = [("host", rng.choice(["a", "b"]))] if rng.random() < 0.5 else []
            if odd and rng.random() < 0.2:
                tags.append((rng.choice(["time", "_t", "v"]), "x"))
            ts = base + rng.randrange(0, 2000000) if rng.random() < 0.9 else None
            m2 = meas if rng.random() < 0.85 else rand_meas(rng)
            lines.append(gen_lp_line(rng, m2, fields, tags, ts))
        body = "\n".join(lines) + ("\n" if rng.random() < 0.7 else "")
        maybe_badz(rng, evs)
        evs.append(ev_lp(body, db, rng.choice(["us", "us", "us", "ns", "ms", "s"]), rand_enc(rng)))
        if rng.random() < 0.2:
            evs.append(FLUSH)
    evs.append(FLUSH)
    return {"family": "lp-odd" if odd else "lp", "max_rows": rng.choice([BIG, BIG, 1, 2, 4]), "typed": True, "events": evs}


def row_rec(meas, ts, fields, tags=None, host=None):
    items = [("m", S(meas)), ("t", I(ts, "i64")), ("fields", M(*fields))]
    if tags is not None:
        items.append(("tags", M(*tags)))
    if host is not None:
        items.append(("h", S(host)))
    return M(*items)


def gen_family_rows(rng, odd):
    meas = rand_meas(rng)
    db = rand_db(rng)
    names = rng.sample(["v", "usage", "a", "b"], 2) + (rng.sample(["", "_x", "time", "a,b", "host"], rng.randint(1, 2)) if odd else [])
    evs = []
    base = T0 + rng.randrange(0, 3) * HOUR
    for i in range(rng.randint(2, 4)):
        rows = []
        for j in range(rng.randint(1, 3)):
            fields = []
            for nm in gen_schema(rng, names, 1, 3):
                if nm == "time":
                    v = I(base + rng.choice([-5, -1, 1, 7, HOUR, -HOUR, 2 * HOUR + 3]), "i64") if rng.random() < 0.8 else S("x")
                else:
                    v = rng.choice([I(rng.randrange(100)), F64(1.5), S("s"), ("bool", True)]) if rng.random() < 0.3 else I(rng.randrange(100))
                fields.append((nm, v))
            tags = [(rng.choice(["region", "dc"]), S("eu"))] if rng.random() < 0.5 else None
            rows.append(row_rec(meas, base + rng.randrange(0, 1000) * 1000, fields, tags, rng.choice([None, "h1", ""])))
        ast = rows[0] if len(rows) == 1 and rng.random() < 0.5 else M(("batch", A(*rows)))
        evs.append(ev_mp(ast, db, rand_enc(rng)))
        if rng.random() < 0.25:
            evs.append(FLUSH)
    evs.append(FLUSH)
    # the record count credited for a row group whose columns differ in length depends on Go's map
    # iteration order, so the size trigger is only exercised at 1 (always reached) in this family
    return {"family": "rows-odd" if odd else "rows", "max_rows": rng.choice([BIG, BIG, 1]), "typed": True, "events": evs}


def gen_family_front(rng):
    """requests the front must refuse (or whose decoder panics) mixed with accepted ones"""
    meas = rand_meas(rng)
    evs = []
    good = lambda: columnar(meas, [("v", col_values(rng, "int", 2))], tvals(rng, 2, T0, "asc"))
    for i in range(rng.randint(2, 5)):
        r = rng.random()
        if r < 0.25:
            evs.append(ev_mp(good(), rand_db(rng, ok=False)))
        elif r < 0.45:
            evs.append(ev_mp(columnar(rand_meas(rng, ok=False), [("v", col_values(rng, "int", 2))], tvals(rng, 2)), rand_db(rng)))
        elif r < 0.65:
            bad = rng.choice([
                I(5), S("x"), A(), A(I(1), S("x")), M(), M(("m", S(meas))), M(("columns", M(("v", A(I(1)))))),
                M(("m", S(meas)), ("columns", M(("v", A(I(1), I(2))), ("w", A(I(1)))))),          # length mismatch
                M(("m", S(meas)), ("columns", M())), M(("m", NIL), ("columns", M(("v", A(I(1)))))),
                M((NIL, I(1))), M(("m", S(meas)), ("x", M((NIL, I(2)))), ("columns", M(("v", A(I(1)))))),   # nil map key: library panic
                M(("m", S(meas)), ("columns", M(("time", A(S("x"))), ("v", A(I(1)))))),
                M(("m", S(meas)), ("columns", M(("time", A(NIL)), ("v", A(I(1)))))),
                M(("m", S(meas)), ("x", ("ext", 5, b"ab")), ("columns", M(("v", A(I(1)))))),
                M(("m", I(7)), ("columns", M(("v", A(I(1)))))),
                M(("m", S(meas)), ("columns", M(("v", A(("bin", b"zz")))))),
                M(("m", S(meas)), ("t", S("x")), ("fields", M(("v", I(1))))),
                M(("m", S(meas)), ("t", I(T0, "i64"))),
            ])
            evs.append(ev_mp(bad, rand_db(rng)))
        elif r < 0.8:
            body = rng.choice(["", "\n", "# comment\n", "cpu\n", "cpu v=\n", " v=1i\n", "%s v=1i %d\n" % (rand_meas(rng, ok=False).replace(" ", "\\ ").replace(",", "\\,"), T0),
                               "cpu =1i\n", "cpu v=1i,w=zz %d\n" % T0])
            evs.append(ev_lp(body, rand_db(rng, ok=rng.random() < 0.8), rng.choice(["us", "ns", "xx", "h"])))
        else:
            evs.append(ev_mp(good(), rand_db(rng)))
        if rng.random() < 0.15:
            evs.append(FLUSH)
    evs.append(FLUSH)
    return {"family": "front", "max_rows": rng.choice([BIG, 2]), "typed": rng.random() < 0.7, "events": evs}


def gen_family_batches(rng):
    """multi-record requests, some with a record that fails in the write loop"""
    db = rand_db(rng)
    evs = []
    for i in range(rng.randint(2, 3)):
        items = []
        for j in range(rng.randint(2, 4)):
            meas = rng.choice(["aa", "bb", "cc"])
            r = rng.random()
            if r < 0.2:
                items.append(columnar(meas, [("v", col_values(rng, "mixed", 3))], tvals(rng, 3)))
            elif r < 0.3:
                items.append(M(("batch", A(columnar(meas, [("v", col_values(rng, "int", 1))], tvals(rng, 1))))))   # nested: IBad
            elif r < 0.45:
                items.append(row_rec("rowm", T0 + j * 1000, [("v", rng.choice([I(1), S("s")]))]))
            else:
                items.append(columnar(meas, [(rng.choice(["v", "w"]), col_values(rng, rng.choice(TYPES), 2))], tvals(rng, 2)))
        ast = M(("batch", A(*items))) if rng.random() < 0.6 else A(*items)
        evs.append(ev_mp(ast, db, rand_enc(rng)))
        if rng.random() < 0.3:
            evs.append(FLUSH)
    evs.append(FLUSH)
    return {"family": "batches", "max_rows": rng.choice([BIG, BIG, 2]), "typed": rng.random() < 0.7, "events": evs}


def gen_family_mixed(rng):
    """MessagePack and line protocol writing the same database/measurement"""
    meas = "cpu"
    db = rand_db(rng)
    evs = []
    base = T0
    names = ["v", "w"] + ([rng.choice(["_x", "a,b"])] if rng.random() < 0.3 else [])
    for i in range(rng.randint(2, 5)):
        nm = rng.choice(names)
        ty = rng.choice(["int", "float", "str"])
        if rng.random() < 0.5:
            evs.append(ev_mp(columnar(meas, [(nm, col_values(rng, ty, 2))], tvals(rng, 2, base)), db, rand_enc(rng)))
        else:
            evs.append(ev_lp(gen_lp_line(rng, meas, [(nm, lp_value(rng, ty))], [], base + i) + "\n", db, "us", rand_enc(rng)))
        if rng.random() < 0.15:
            evs.append(FLUSH)
    evs.append(FLUSH)
    return {"family": "mixed", "max_rows": rng.choice([BIG, 2, 3]), "typed": True, "events": evs}


def witness_cases():
    t = [T0, T0 + 1]
    tt = lambda: ("time", A(*[I(x, "i64") for x in t]))
    cp = lambda m, pairs: M(("m", S(m)), ("columns", M(*pairs)))
    W = []

    def add(name, evs, max_rows=BIG, typed=True):
        W.append({"family": "witness:" + name, "max_rows": max_rows, "typed": typed, "events": evs})
    # the four sequences that killed the process before 6c35f6a / 5cfca39 / 763beab (Props.v
    # C04_old_crash_witnesses_fixed, byte for byte): now refused (400) or stored completely
    add("empty-column-name", [ev_mp(cp("cpu", [tt(), ("", A(I(1), I(2)))])), FLUSH])
    add("underscore-type-change", [ev_mp(cp("cpu", [tt(), ("_x", A(I(1), I(2)))])), ev_mp(cp("cpu", [tt(), ("_x", A(S("a"), S("b")))])), FLUSH])
    add("signature-collision", [
        ev_mp(cp("cpu", [tt(), ("Z", A(F64(1.0), F64(2.0))), ("a", A(I(1), I(2))), ("q:str,a", A(S("x"), S("y")))])),
        ev_mp(cp("cpu", [tt(), ("Z:f64,a:i64,q", A(S("x"), S("y"))), ("a", A(S("x"), S("y")))])), FLUSH])
    add("row-time-field", [ev_mp(row_rec("cpu", T0, [("time", I(T0 - 1, "i64")), ("v", I(1))])), FLUSH])
    # the same through other routes
    add("empty-name-typed-off", [ev_mp(cp("cpu", [tt(), ("", A(I(1), I(2)))])), FLUSH], typed=False)
    add("empty-name-row-format", [ev_mp(row_rec("cpu", T0, [("", I(1))])), FLUSH])
    add("underscore-lp", [ev_lp("cpu _x=1i %d\n" % T0), ev_lp('cpu _x="s" %d\n' % (T0 + 1)), FLUSH])
    add("underscore-worker", [ev_mp(cp("cpu", [tt(), ("_x", A(I(1), I(2)))])), ev_mp(cp("cpu", [tt(), ("_x", A(S("a"), S("b")))])), FLUSH], max_rows=4)
    add("empty-name-worker", [ev_mp(cp("cpu", [tt(), ("", A(I(1), I(2)))])), FLUSH], max_rows=2)
    add("row-time-worker", [ev_mp(row_rec("cpu", T0, [("time", I(T0 - 1, "i64")), ("v", I(1))])), FLUSH], max_rows=1)
    add("empty-name-type-change", [ev_mp(cp("cpu", [tt(), ("", A(I(1), I(2)))])), ev_mp(cp("cpu", [tt(), ("", A(S("a"), S("b")))])), FLUSH])
    add("lp-comma-collision", [
        ev_lp("cpu Z=1.5,a=1i,q:str\\,a=\"x\" %d\n" % T0), ev_lp("cpu Z:f64\\,a:i64\\,q=\"x\",a=\"y\" %d\n" % (T0 + 1)), FLUSH])
    # (was: handler-side flush panic) the first request is refused now
    add("empty-name-then-schema-change", [ev_mp(cp("cpu", [tt(), ("", A(I(1), I(2)))])), ev_mp(cp("cpu", [tt(), ("w", A(I(1), I(2)))])), FLUSH])
    # lost its row before ac0d5a8: rowsToColumnar's "_value" rename collided with a tag of that name -> a column with
    # 2 entries per row, the flush failed (array.NewRecord panic - recovered - or the Parquet writer).  Now stored.
    # (No request reaches a flush panic any more; the recover of 763beab is exercised by injection_cases().)
    def suffix_row(m, ts):
        return row_rec(m, ts, [("a", S("x"))], [("a", S("t")), ("a_value", S("u"))], host="")
    add("suffix-collision", [ev_mp(suffix_row("cpu", T0)), FLUSH])
    for i in range(10):
        m = "sfx%d" % i
        add("suffix-collision-%d" % i, [ev_mp(suffix_row(m, T0 + i)), FLUSH, ev_mp(suffix_row(m, T0 + 10 + i)), FLUSH,
                                         ev_mp(suffix_row(m, T0 + 20 + i)), FLUSH], max_rows=BIG if i % 2 else 1)
    add("suffix-chain", [ev_mp(row_rec("cpu", T0, [("a", S("x")), ("a_value", I(7))], [("a", S("t")), ("a_value", S("u"))], host="")), FLUSH])
    add("suffix-collision-unsorted", [ev_mp(M(("batch", A(suffix_row("cpu", T0 + 5), suffix_row("cpu", T0))))), FLUSH])
    # multi-hour flushes whose FIRST row lies in the epoch hour (hour bucket 0) or just before it
    ep = lambda m, ts, vs: M(("m", S(m)), ("columns", M(("time", A(*[I(x) for x in ts])), ("v", A(*[I(x) for x in vs])))))
    add("epoch-hour-first-multi-hour", [ev_mp(ep("cpu", [0, 7200], [1, 2])), FLUSH])
    add("epoch-hour-first-merged", [ev_mp(ep("cpu", [10], [1])), ev_mp(ep("cpu", [7300], [2])), ev_mp(ep("cpu", [36000, 5], [3, 4])), FLUSH])
    add("epoch-hour-first-worker", [ev_mp(ep("cpu", [3599, 3600, 7200], [1, 2, 3])), FLUSH], max_rows=2)
    add("epoch-hour-first-typed-off", [ev_mp(ep("cpu", [0, 7200], [1, 2])), FLUSH], typed=False)
    add("pre-epoch-first-multi-hour", [ev_mp(ep("cpu", [-1, 7200, -7200], [1, 2, 3])), FLUSH])
    add("epoch-hour-first-lp", [ev_lp("cpu v=1i 10\ncpu v=2i 7300\n", None, "s"), FLUSH])
    add("epoch-hour-schema-change-flush", [ev_mp(ep("cpu", [0, 7200], [1, 2])),
                                           ev_mp(M(("m", S("cpu")), ("columns", M(("time", A(I(5), I(9000))), ("w", A(I(1), I(2))))))), FLUSH])
    # compression front: [undecompressable body, VALID compressed write] on a FRESH server process (empty reader /
    # decoder pools, GOMAXPROCS(1)): the valid request must be answered 2xx and stored, whatever came before
    good_mp = lambda v: cp("cpu", [tt(), (v, A(I(1), I(2)))])
    good_lp = "cpu v=1i %d\ncpu v=2i %d\n" % (T0, T0 + 1)
    k = 0
    for codec, bads in (("gzip", [BAD_GZIP[0], BAD_GZIP[1], BAD_GZIP[3]]), ("zstd", BAD_ZSTD[:2])):
        for bad in bads:
            for ep_bad, ep_good in (("mp", "mp"), ("lp", "lp"), ("lp", "mp"), ("mp", "lp")):
                if k % 3 != 0 and (ep_bad, ep_good) in (("lp", "mp"), ("mp", "lp")):
                    k += 1
                    continue
                k += 1
                valid = ev_mp(good_mp("v"), None, codec) if ep_good == "mp" else ev_lp(good_lp, None, "us", codec)
                valid2 = ev_mp(good_mp("v"), None, codec) if ep_good == "mp" else ev_lp(good_lp, None, "us", codec)
                W.append({"family": "witness:undecompressable-then-valid-%s-%s-%s-%d" % (codec, ep_bad, ep_good, k), "max_rows": BIG,
                          "typed": True, "fresh": True, "events": [ev_badz(ep_bad, bad), valid, ev_badz(ep_good, bad), valid2, FLUSH]})
    # line-protocol BOUNDARY stream (runs first every time): degenerate / truncated field values at end-of-body, before a
    # newline, before a timestamp, as first and as later field, and as a tag value
    lp_tokens = ['"', '""', '"\\', '"\\"', '"a', 'a"', '"a"b', '"a\\', '', '=', '=1i', ',', 'i', 'u', 't', 'f', 'T', 'F', '1', '-', '.', '1i',
                 '1u', '-i', '\\', '"\\\\', '""a', '"="', '","', 'tr', 'Fa', '0x', '1.', 'ii', '"\n']
    for n, v in enumerate(lp_tokens):
        bodies = ["cpu msg=%s" % v, "cpu msg=%s\n" % v, "cpu msg=%s %d\n" % (v, T0 + n), "cpu ok=1i,msg=%s" % v, "cpu ok=1i,msg=%s\n" % v,
                  "cpu msg=%s,ok=1i\n" % v, "cpu ok=1i,msg=%s %d\ncpu ok=2i %d\n" % (v, T0 + n, T0 + n + 1), "cpu,tg=%s ok=1i %d\n" % (v, T0 + n)]
        add("lp-boundary-%d" % n, [ev_lp(b, None, "us") for b in bodies] + [FLUSH])
    # rejected request that stores rows
    add("partial-batch", [ev_mp(M(("batch", A(cp("aa", [tt(), ("v", A(I(1), I(2)))]), cp("bb", [tt(), ("v", A(I(1), S("s")))]))))), FLUSH])
    # decoder panic is recovered
    add("nil-map-key", [ev_mp(M((NIL, I(1)))), ev_mp(cp("cpu", [tt(), ("v", A(I(1), I(2)))])), FLUSH])
    add("nil-map-key-discarded-value", [ev_mp(M(("m", S("cpu")), ("x", M((NIL, I(2)))), ("columns", M(tt(), ("v", A(I(1), I(2))))))), FLUSH])
    # benign unusual names
    add("underscore-alone", [ev_mp(cp("cpu", [tt(), ("_x", A(I(1), I(2)))])), FLUSH])
    add("reserved-names", [ev_mp(cp("cpu", [tt(), ("_database", A(S("o"), S("o"))), ("measurement", A(S("o"), S("o"))), ("m", A(I(1), I(2)))])), FLUSH])
    add("row-time-field-multi-hour", [ev_mp(row_rec("cpu", T0, [("time", I(5)), ("v", I(1))])), FLUSH])
    add("row-time-tag", [ev_mp(row_rec("cpu", T0, [("v", I(1))], tags=[("time", S("x"))])), FLUSH])
    add("lp-time-field", [ev_lp("cpu time=5i,v=1i %d\n" % T0), FLUSH])
    add("empty-measurement", [ev_mp(cp("", [tt(), ("v", A(I(1), I(2)))])), FLUSH])
    add("zero-rows", [ev_mp(cp("cpu", [("time", A()), ("v", A())])), FLUSH])
    add("type-change-normal-name", [ev_mp(cp("cpu", [tt(), ("v", A(I(1), I(2)))])), ev_mp(cp("cpu", [tt(), ("v", A(S("a"), S("b")))])), FLUSH])
    return W


FAMILIES = [(gen_family_schema_churn, (False,), 22), (gen_family_schema_churn, (True,), 22), (gen_family_lp, (False,), 8),
            (gen_family_lp, (True,), 10), (gen_family_rows, (False,), 6), (gen_family_rows, (True,), 8),
            (gen_family_front, (), 9), (gen_family_batches, (), 8), (gen_family_mixed, (), 7)]


def gen_cases(rng, n):
    total = sum(w for _, _, w in FAMILIES)
    out = []
    for f, args, w in FAMILIES:
        for _ in range(max(1, n * w // total)):
            out.append(f(rng, *args))
    rng.shuffle(out)
    return out


# ---------------------------------------------------------------------------------------
# implementation-only mutation stream

TLE_SEED = (b"ISS (ZARYA)\n1 25544U 98067A   08264.51782528 -.00002182  00000-0 -11606-4 0  2927\n"
            b"2 25544  51.6416 247.4627 0006703 130.5360 325.0288 15.72125391563537\n")
CSV_SEED = b"time,host,v,_x,flag\n2023-11-14T22:13:20Z,a,1,1.5,true\n2023-11-14T22:13:21Z,b,2,x,false\n"
LP_SEED = b"cpu,host=a v=1i,w=2.5,s=\"x\",_x=1i 1700000000000000\ncpu,host=b v=2i 1700000001000000\n"


def parquet_seed():
    p = os.path.join(vlib.ROOT, "corpus", "C04", "seed.parquet")
    return open(p, "rb").read() if os.path.exists(p) else b"PAR1\x00\x00\x00\x00PAR1"


def multipart(body, rng=None):
    bnd = "verifboundary7d3"
    data = (("--%s\r\nContent-Disposition: form-data; name=\"file\"; filename=\"f.dat\"\r\n"
             "Content-Type: application/octet-stream\r\n\r\n" % bnd).encode() + body + ("\r\n--%s--\r\n" % bnd).encode())
    return data, "multipart/form-data; boundary=" + bnd


def mutate_bytes(rng, data):
    data = bytearray(data)
    k = rng.choice(["flip", "trunc", "splice", "insert", "dup", "zero", "rand", "hdr"])
    if not data:
        return bytes(rng.randrange(256) for _ in range(rng.randint(0, 20)))
    if k == "flip":
        for _ in range(rng.randint(1, 4)):
            i = rng.randrange(len(data))
            data[i] ^= 1 << rng.randrange(8)
    elif k == "trunc":
        del data[rng.randrange(len(data)):]
    elif k == "splice":
        i = rng.randrange(len(data))
        j = min(len(data), i + rng.randint(1, 16))
        del data[i:j]
    elif k == "insert":
        i = rng.randrange(len(data) + 1)
        data[i:i] = bytes(rng.randrange(256) for _ in range(rng.randint(1, 8)))
    elif k == "dup":
        i = rng.randrange(len(data))
        j = min(len(data), i + rng.randint(1, 32))
        data[i:i] = data[i:j]
    elif k == "zero":
        i = rng.randrange(len(data))
        for x in range(i, min(len(data), i + rng.randint(1, 8))):
            data[x] = rng.choice([0, 0xff, 0x7f, 0x80])
    elif k == "rand":
        return bytes(rng.randrange(256) for _ in range(rng.randint(0, 64)))
    elif k == "hdr":
        # oversized length headers of msgpack containers / strings
        i = rng.randrange(len(data))
        # (bin32 is kept at 64 MB: the library allocates a bin value's declared length up front - finding
        # msgpack-bin-length-unbounded-allocation - and a 4 GB header in a random stream would endanger the run itself)
        data[i:i + 1] = rng.choice([b"\xdd\xff\xff\xff\xff", b"\xdf\x7f\xff\xff\xff", b"\xdb\xff\xff\xff\xf0", b"\xc6\x04\x00\x00\x00", b"\xdc\xff\xff"])
    return bytes(data)


def compress_raw(rng, data):
    """python-side gzip (so the compressed bytes themselves can be mutated); zstd is done by the harness"""
    co = zlib.compressobj(6, zlib.DEFLATED, 31)
    return co.compress(data) + co.flush()


# A request body of a few dozen bytes must not make the server allocate this much.  The msgpack library's own
# alloc limit (1e6 elements) lets a forged array32/map32 header cost up to ~16 MB / ~80 MB per decode attempt;
# that bounded cost is not reported, an allocation beyond it is.
ALLOC_LIMIT_MB = 200


def alloc_witness():
    """{m:'cpu', columns:{time:[T0], v:[1]}, x: bin32(declared 256 MB, 2 bytes present)} - 44 bytes"""
    good = mp.encode(M(("m", S("cpu")), ("columns", M(("time", A(I(T0, "i64"))), ("v", A(I(1)))))))
    body = bytes([0x83]) + good[1:] + mp.encode(S("x")) + b"\xc6\x10\x00\x00\x00" + b"ab"
    evs = [{"k": "raw", "path": "/api/v1/write/msgpack", "db": None, "ctype": "application/msgpack", "body": body, "enc": "",
            "kind": "mp", "measure": True},
           {"k": "raw", "path": "/api/v1/write/msgpack", "db": None, "ctype": "application/msgpack", "body": good, "enc": "",
            "kind": "mp", "measure": True}, FLUSH]
    return {"family": "witness:bin-length-allocation", "max_rows": BIG, "typed": None, "events": evs}


def injection_cases():
    """implementation-only: a panic injected into mergeBatches while a flush runs (background FlushAll, flush worker,
    handler-side schema-change flush).  On the code as it is the flush fails, the process lives, later writes are
    stored - what Core.v's [recover_flush := true] says.  Expected observation per case: (statuses, rows)."""
    good = lambda m, v, t: mp.encode(M(("m", S(m)), ("columns", M(("time", A(I(t, "i64"), I(t + 1, "i64"))), (v, A(I(1), I(2)))))))
    req = lambda body: {"k": "raw", "path": "/api/v1/write/msgpack", "db": None, "ctype": "application/msgpack", "body": body, "enc": "", "kind": "mp"}
    on, off = {"k": "inject", "on": True}, {"k": "inject", "on": False}
    out = []
    # background flush
    out.append(({"family": "inject:background-flush", "max_rows": BIG, "typed": None,
                 "events": [req(good("cpu", "v", T0)), on, FLUSH, off, req(good("cpu", "v", T0 + 10)), FLUSH]},
                [204, 0, 1, 0, 204, 0], {"default/cpu": 2}))
    # flush worker (size trigger)
    out.append(({"family": "inject:flush-worker", "max_rows": 2, "typed": None,
                 "events": [on, req(good("cpu", "v", T0)), off, req(good("cpu", "v", T0 + 10)), FLUSH]},
                [0, 204, 0, 204, 0], {"default/cpu": 2}))
    # handler-side schema-change flush: recovered, the write goes on
    out.append(({"family": "inject:schema-change-flush", "max_rows": BIG, "typed": None,
                 "events": [req(good("cpu", "v", T0)), on, req(good("cpu", "w", T0 + 10)), off, FLUSH]},
                [204, 0, 204, 0, 0], {"default/cpu": 2}))
    return out


def interleaving_cases():
    """implementation-only, gated storage: request 2 (a type change) is parked INSIDE the storage write of its
    schema-change flush (shard lock released); request 3 opens a fresh buffer for the same measurement meanwhile;
    request 2 resumes and must re-check the buffer's schema before it appends.  Every acknowledged row must be
    stored: (case, statuses, rows)."""
    mk = lambda v, t: mp.encode(M(("m", S("cpu")), ("columns", M(("time", A(I(t, "i64"), I(t + 1, "i64"))), ("x", A(*v))))))
    ints, strs, flts = [I(1), I(2)], [S("a"), S("b")], [F64(1.5), F64(2.5)]
    req = lambda body, **kw: dict({"k": "raw", "path": "/api/v1/write/msgpack", "db": None, "ctype": "application/msgpack", "body": body,
                                   "enc": "", "kind": "mp"}, **kw)
    lp = lambda text: {"k": "raw", "path": "/api/v1/write/line-protocol?precision=us", "db": None, "ctype": "text/plain",
                       "body": text.encode(), "enc": "", "kind": "lp"}
    out = []
    for name, a, b, c3 in (("int-str-int", ints, strs, req(mk(ints, T0 + 20))), ("int-str-str", ints, strs, req(mk(strs, T0 + 20))),
                           ("int-float-int", ints, flts, req(mk(ints, T0 + 20))), ("str-int-float", strs, ints, req(mk(flts, T0 + 20))),
                           ("int-str-lpint", ints, strs, lp("cpu x=5i %d\ncpu x=6i %d\n" % (T0 + 20, T0 + 21)))):
        evs = [req(mk(a, T0)), {"k": "gate"}, req(mk(b, T0 + 10), **{"async": True}), c3, {"k": "release"}, FLUSH]
        out.append(({"family": "interleave:" + name, "max_rows": BIG, "typed": None, "gated": True, "events": evs},
                    [204, 0, 0, 204, 204, 0], {"default/cpu": 6}))
    return out


TLE_SHORT = b"1 x\n2 y\n"


def tle_cases():
    """implementation-only: garbled TLE text must be refused with a 4xx, never answered 5xx (a 5xx here is a handler
    panic recovered by the middleware); and [undecompressable gzip, valid gzip] on a fresh process."""
    wr = lambda body, enc="": {"k": "raw", "path": "/api/v1/write/tle", "db": None, "ctype": "text/plain", "body": body, "enc": enc,
                               "kind": "tle", "text": body}
    def imp(body):
        b, ct = multipart(body)
        return {"k": "raw", "path": "/api/v1/import/tle?db=mutdb", "db": None, "ctype": ct, "body": b, "enc": "", "kind": "imptle", "text": body}
    out = []
    for i, bad in enumerate([TLE_SHORT, b"1 25544\n2 25544\n", b"1 \n2 \n", b"X\n1 x\n2 y\n", TLE_SEED[:40] + b"\n" + TLE_SEED[40:]]):
        out.append({"family": "tle:garbled-%d" % i, "max_rows": BIG, "typed": None, "events": [wr(bad), imp(bad), wr(TLE_SEED), FLUSH]})
    out.append({"family": "tle:undecompressable-then-valid", "max_rows": BIG, "typed": None, "fresh": True,
                "events": [wr(BAD_GZIP[0]), wr(TLE_SEED, "gzip"), wr(BAD_ZSTD[1]), wr(TLE_SEED, "zstd"), FLUSH]})
    return out


def parquet_cases():
    """implementation-only: corpus/C04/parquet-negative-chunk-size.parquet (seed.parquet with one footer byte changed: a
    column chunk's total_compressed_size becomes -44) uploaded to the Parquet import, then an ordinary write"""
    p = os.path.join(vlib.ROOT, "corpus", "C04", "parquet-negative-chunk-size.parquet")
    if not os.path.exists(p):
        return []
    body, ct = multipart(open(p, "rb").read())
    good = mp.encode(M(("m", S("cpu")), ("columns", M(("time", A(I(T0, "i64"))), ("v", A(I(1)))))))
    evs = [{"k": "raw", "path": "/api/v1/import/parquet?measurement=imp&db=mutdb", "db": None, "ctype": ct, "body": body, "enc": "", "kind": "parquet"},
           {"k": "raw", "path": "/api/v1/write/msgpack", "db": None, "ctype": "application/msgpack", "body": good, "enc": "", "kind": "mp"}, FLUSH]
    return [{"family": "parquet:negative-chunk-size", "max_rows": BIG, "typed": None, "events": evs}]


def mutation_death_signature(case, o):
    """the listed finding a process death in the implementation-only stream belongs to (None: none)"""
    k = o.get("died_at", -1)
    ev = case["events"][k] if 0 <= k < len(case["events"]) else {}
    if ev.get("kind") == "parquet" and "makeslice" in o.get("panic", "") and "ReaderProperties).GetStream" in o.get("panic", ""):
        return "parquet-import-chunk-size-from-footer"
    return None


def tle_short_line(text):
    """signature of finding tle-short-line-handler-panic: a line starting with '1 ' shorter than 7 bytes that has a
    successor line (ParseTLEFile slices line1[2:7])"""
    if not text:
        return False
    lines = [l.strip(b" \t\r") for l in text.replace(b"\r\n", b"\n").split(b"\n")]
    lines = [l for l in lines if l]
    return any(l.startswith(b"1 ") and len(l) < 7 for l in lines[:-1]) or any(l == b"1" for l in lines[:-1])


def mutate_tle(rng, text):
    """structure-aware TLE mutations: short / garbled / missing lines"""
    lines = text.split(b"\n")
    k = rng.choice(["cut", "drop", "short1", "swap", "junk", "dup"])
    i = rng.randrange(len(lines))
    if k == "cut":
        lines[i] = lines[i][:rng.randrange(0, max(1, len(lines[i])))]
    elif k == "drop":
        del lines[i]
    elif k == "short1":
        lines[i] = rng.choice([b"1 x", b"1 ", b"1", b"2 y", b"1 2554", b"1 25544U"])
    elif k == "swap" and len(lines) > 1:
        j = rng.randrange(len(lines))
        lines[i], lines[j] = lines[j], lines[i]
    elif k == "junk":
        lines[i] = bytes(rng.randrange(32, 127) for _ in range(rng.randint(0, 80)))
    else:
        lines.insert(i, lines[i])
    return b"\n".join(lines)


def declares_big_bin(body):
    """signature of the allocation finding: a bin32 header (0xc6) declaring >= 32 MB somewhere in the body"""
    i = body.find(b"\xc6")
    while i >= 0:
        if i + 5 <= len(body) and int.from_bytes(body[i + 1:i + 5], "big") >= (32 << 20):
            return True
        i = body.find(b"\xc6", i + 1)
    return False


def gen_mutation_sequences(rng, n, seeds):
    """seeds: list of valid msgpack bodies (bytes) from the modelled stream"""
    pq = parquet_seed()
    out = []
    for _ in range(n):
        evs = []
        db = rng.choice([None, "default", "mutdb"])
        for i in range(rng.randint(2, 6)):
            kind = rng.choice(["mp", "mp", "mp", "lp", "lp", "tle", "csv", "parquet", "implp", "imptle", "lpflush"])
            enc = ""
            if kind == "mp":
                body = rng.choice(seeds)
                path, ctype = "/api/v1/write/msgpack", "application/msgpack"
            elif kind == "lp":
                body = LP_SEED
                path, ctype = rng.choice(["/api/v1/write/line-protocol?precision=us", "/write?db=mutdb&precision=us",
                                          "/api/v2/write?bucket=mutdb&precision=us"]), "text/plain"
            elif kind == "tle":
                body = TLE_SEED
                path, ctype = "/api/v1/write/tle", "text/plain"
            elif kind == "lpflush":
                body = b""
                path, ctype = "/api/v1/write/line-protocol/flush", ""
            else:
                body = {"csv": CSV_SEED, "parquet": pq, "implp": LP_SEED, "imptle": TLE_SEED}[kind]
                path = {"csv": "/api/v1/import/csv?measurement=imp&db=mutdb", "parquet": "/api/v1/import/parquet?measurement=imp&db=mutdb",
                        "implp": "/api/v1/import/lp?db=mutdb", "imptle": "/api/v1/import/tle?db=mutdb"}[kind]
                ctype = None
            r = rng.random()
            text = None
            if kind != "lpflush":
                if kind in ("tle", "imptle") and r < 0.6:
                    body = mutate_tle(rng, body)
                    if rng.random() < 0.4:
                        body = mutate_tle(rng, body)
                elif r < 0.7:
                    body = mutate_bytes(rng, body)
                    if rng.random() < 0.3:
                        body = mutate_bytes(rng, body)
                if kind in ("tle", "imptle"):
                    text = body
                # compression: valid, or compressed-then-mutated, or bare magic + garbage
                c = rng.random()
                if c < 0.2:
                    enc = rng.choice(["gzip", "zstd"])
                elif c < 0.3:
                    body = mutate_bytes(rng, compress_raw(rng, body))
                    text = None
                elif c < 0.36:
                    text = None
                    body = rng.choice([b"\x1f\x8b", b"\x28\xb5\x2f\xfd"]) + bytes(rng.randrange(256) for _ in range(rng.randint(0, 40)))
            if ctype is None:
                body, ctype = multipart(body)
                if rng.random() < 0.1:
                    body = mutate_bytes(rng, body)
                    text = None
            ev = {"k": "raw", "path": path, "db": db, "ctype": ctype, "body": body, "enc": enc, "kind": kind,
                  "measure": kind == "mp" and not enc}
            if text is not None and not (enc and kind == "imptle"):     # a compressed multipart body is not a valid import
                ev["text"] = text
            evs.append(ev)
            if rng.random() < 0.25:
                evs.append(FLUSH)
        evs.append(FLUSH)
        out.append({"family": "mutation", "max_rows": rng.choice([BIG, BIG, 1, 3]), "typed": None if rng.random() < 0.8 else False, "events": evs})
    return out


# ---------------------------------------------------------------------------------------
# bookkeeping

def touches_one_measurement_twice(case):
    """non-trivial: >= 2 write requests (MessagePack / line protocol) address one measurement"""
    cnt = {}
    for e in case["events"]:
        ms = set()
        if e["k"] == "mp":
            def walk(a):
                if a[0] == "map":
                    for k, v in a[1]:
                        if k == ("str", b"m") and v[0] == "str":
                            ms.add(v[1])
                        if k == ("str", b"batch") and v[0] == "arr":
                            for it in v[1]:
                                walk(it)
                elif a[0] == "arr":
                    for it in a[1]:
                        walk(it)
            walk(e["ast"])
        elif e["k"] == "lp":
            for line in e["body"].split(b"\n"):
                line = line.strip()
                if line and not line.startswith(b"#"):
                    m = re.match(rb"((?:\\.|[^, \\])+)", line)
                    if m:
                        ms.add(m.group(1))
        for m in ms:
            cnt[m] = cnt.get(m, 0) + 1
    return any(v >= 2 for v in cnt.values())


def case_hash(case):
    return hashlib.sha1(json.dumps(case_to_json(case), sort_keys=True).encode()).hexdigest()


def oracle_failure_signature(case, o, verdict, agrees):
    """the open finding an oracle failure of the implementation belongs to (None: not a listed one).
    A listed finding needs the model to predict exactly this wrong output (agrees)."""
    if o["died"] or not agrees:
        return None
    if o.get("written", 0) != o.get("buffered", 0):
        return None            # accepted rows that were never written: no listed finding any more
    return "partial-write-of-rejected-multi-record-request"


def shrink_case(case, fails):
    """greedy removal of events (the final flush is kept) while fails(case) holds; few rounds (each costs a harness run)"""
    cur = case
    budget = 10
    changed = True
    while changed and budget > 0 and len(cur["events"]) > 1:
        changed = False
        for i in range(len(cur["events"]) - 1):
            cand = dict(cur)
            cand["events"] = cur["events"][:i] + cur["events"][i + 1:]
            budget -= 1
            if fails(cand):
                cur = cand
                changed = True
                break
            if budget <= 0:
                break
    return cur


def setup():
    pass


def warm():
    run_impl([], "warm")


def load_corpus():
    out = []
    for fn in sorted(glob.glob(os.path.join(vlib.ROOT, "corpus", PID, "*.json"))):
        obj = json.load(open(fn))
        c = case_from_json(obj["case"] if "case" in obj else obj)
        c["family"] = "corpus:" + os.path.basename(fn)
        out.append(c)
    return out


def run(res, tier, seed):
    rng = random.Random(seed * 7919 + 4)
    nmodel, nmut = (300, 120) if tier == "quick" else (6000, 3000)
    t1 = time.time()
    cases = witness_cases() + load_corpus()
    nfixed = len(cases)
    cases += gen_cases(rng, nmodel)
    modelled = [c for c in cases if all(e["k"] != "raw" for e in c["events"])]
    raw_corpus = [c for c in cases if c not in modelled]
    cases = modelled
    seeds = [mp.encode(e["ast"], rng) for c in cases for e in c["events"] if e["k"] == "mp"]
    inj = injection_cases() + interleaving_cases()
    muts = [c for c, _, _ in inj] + tle_cases() + parquet_cases() + [alloc_witness()] + raw_corpus + gen_mutation_sequences(rng, nmut, seeds)

    box = {}

    def _harness():
        try:
            box["out"] = run_impl(cases + muts, tier, rng)
        except BaseException as e:
            box["err"] = e
        box["wall"] = time.time() - t1

    th = threading.Thread(target=_harness)
    th.start()
    failed = vlib.std_proof_stage(res, PID, AREA, MODULES, THEOREMS)
    res.cov["trusted_base"] += [
        "MessagePack decode = Arc.MsgPack.Model (area MsgPack, tied to the code by C02's correspondence), line-protocol parse = Arc.LP.Model (area LP, C01); both imported read-only",
        "PARTIAL: gzip/zstd decompression, CSV, Parquet and TLE decoding are library code with no Gallina model; the core theorems (C04_core_*) hold for ANY decoder output, and those bodies are exercised only by the implementation-only mutation stream (supporting exploration, not proof)",
        "memory exhaustion, time-outs, storage faults and concurrent requests are not modelled (one request at a time; the harness waits for the flush worker after every request)",
        "handler panics are recovered by fiber's recover middleware as wired by api.NewServer (exercised: the harness uses the app NewServer builds); a panic on any other goroutine kills the process (observed as child exit)",
        "cell values other than int64 columns are abstracted to column lengths; validity bitmaps are not represented (same length as their column in every decoder)",
        "ArrowBuffer.FlushAll on a bare goroutine stands for the periodic age-based flush (same flushBufferLocked path); the line-protocol front uses ParseFloat only on the generator's plain decimals",
    ]
    if tier == "thorough":
        ok, _ = vlib.coqchk_stage(res, MODULES)
        if not ok:
            failed.append(("coqchk", "coqchk did not accept the compiled development"))
    th.join()
    res.stages["impl_harness"] = round(box.get("wall", 0.0), 2)
    if "err" in box:
        if failed:
            res.violation("proof obligation(s) no longer check: " + "; ".join(r for _, r in failed),
                          {"kind": "obligation-failed", "theorems": [t for t, _ in failed]}, no_input=True, suffix="obligation")
        raise box["err"]
    out = box["out"]
    mobs, xobs = out[:len(cases)], out[len(cases):]

    t2 = time.time()
    dis, orf, verdicts = eval_in_coq(cases, mobs, "Cases_%s" % tier)
    res.stage("coq_eval", t2)

    # ---- coverage numbers (measured)
    res.cov["evaluations"] = len(cases) + len(muts)
    keys = {case_hash(c) for c in cases if touches_one_measurement_twice(c)}
    res.cov["distinct_nontrivial"] = len(keys)
    res.cov["rule"] = ("modelled stream: request sequences (MessagePack columnar/row/batch, line protocol, both; optional gzip/zstd; background "
                       "flushes; size-triggered worker flushes) compared with the model; non-trivial = at least 2 write requests of the sequence "
                       "address one measurement; distinct by the hash of the whole sequence.  The implementation-only mutation stream is "
                       "counted in evaluations but not in distinct_nontrivial")
    fam = {}
    for c in cases:
        f = c["family"].split(":")[0]
        fam[f] = fam.get(f, 0) + 1
    end_hist = {"completed": 0, "died": 0, "unpredicted": 0}
    for v in verdicts:
        end_hist[("completed", "died", "unpredicted")[v[0]]] += 1
    codes = {}
    for c, o in zip(cases, mobs):
        for e, s in zip(c["events"], o["statuses"]):
            k = ("flush:%d" % s) if e["k"] == "flush" else str(s)
            codes[k] = codes.get(k, 0) + 1
    mut_kinds, mut_status = {}, {}
    for c, o in zip(muts, xobs):
        for e, s in zip(c["events"], o["statuses"]):
            if e["k"] == "raw":
                mut_kinds[e.get("kind", "?")] = mut_kinds.get(e.get("kind", "?"), 0) + 1
                mut_status[str(s)] = mut_status.get(str(s), 0) + 1
    res.cov["histogram"] = {"families": fam, "model_endings": end_hist, "impl_died": sum(1 for o in mobs if o["died"]),
                            "status_codes": codes, "events_per_case": {str(k): sum(1 for c in cases if len(c["events"]) == k) for k in range(1, 12)},
                            "size_triggered_cases": sum(1 for c in cases if c["max_rows"] < BIG),
                            "compressed_requests": sum(1 for c in cases for e in c["events"] if e.get("enc")),
                            "guard_class_bits": {str(b): sum(1 for v in verdicts if v[2] & b) for b in (1, 2, 4, 8, 16)},
                            "mutation_sequences": len(muts), "mutation_requests_by_kind": mut_kinds, "mutation_status_codes": mut_status,
                            "mutation_died": sum(1 for o in xobs if o["died"])}
    res.cov["model_vs_impl_disagreements"] = len(dis)
    res.cov["oracle_failures"] = len(orf)
    res.cov["samples"] = [{"case": case_to_json(cases[i]), "observed": mobs[i], "model_verdict": verdicts[i]} for i in (0, nfixed, len(cases) - 1)
                          if i < len(cases)][:3]

    known = {e["signature"]: e for e in vlib.known_for(PID)}
    reported = set()

    # ---- disagreement between model and implementation
    if dis:
        c = cases[dis[0]]

        def still(cand):
            o = run_impl([cand], "shrink", rng)
            d, _, _ = eval_in_coq([cand], o, "Shrink")
            return bool(d)
        small = shrink_case(c, still) if len(dis) < 40 else c
        so = run_impl([small], "shrink", rng)
        d2, o2, v2 = eval_in_coq([small], so, "Shrink")
        res.violation("model and implementation disagree on a request sequence (%d cases)" % len(dis),
                      {"kind": "correspondence", "correspondence": TIE_NAME, "case": case_to_json(small), "observed": so[0],
                       "model_verdict": v2[0], "disagreeing_cases": len(dis), "families": sorted({cases[i]["family"] for i in dis})[:10],
                       "oracle_fails_on_impl": bool(o2), "valid_requests_answered_5xx": v2[0][1],
                       "how_to_replay": "python3 tools/check.py C04 --replay <this file>"},
                      no_input=not (o2 or v2[0][1] > 0), suffix="corr")

    # ---- oracle failures on the implementation's own output
    dis_set = set(dis)
    for i in orf:
        c, o, v = cases[i], mobs[i], verdicts[i]
        sig = oracle_failure_signature(c, o, v, i not in dis_set)
        if sig and sig in known:
            if sig not in reported:
                reported.add(sig)
                res.known_finding("%s: %s" % (sig, known[sig]["what"]))
            continue
        if i in dis_set and dis and not o["died"]:
            continue            # reported through the (shrunk) disagreement above
        what = ("process died: " + o["panic"]) if o["died"] else (
            "accepted rows were never written (buffered %s, written %s)" % (o.get("buffered"), o.get("written"))
            if o.get("written") != o.get("buffered") else "a refused request stored rows")
        res.violation("the real server violated C04 on a request sequence: " + what,
                      {"kind": "oracle", "case": case_to_json(c), "observed": o, "model_verdict": v, "signature": sig,
                       "how_to_replay": "python3 tools/check.py C04 --replay <this file>"}, suffix="oracle")
        break

    # ---- fault injection: a panic inside a flush must fail that flush only
    for (c, want_st, want_rows), o in zip(inj, xobs[:len(inj)]):
        if o["died"]:
            continue            # reported by the loop below, with the sequence
        lost = c["family"].startswith("interleave") and o.get("written") != o.get("buffered")
        if o["statuses"] != want_st or o["rows"] != want_rows or lost:
            res.violation("forced schedule / fault injection (%s): statuses %s rows %s buffered %s written %s, expected %s %s and every accepted row written"
                          % (c["family"], o["statuses"], o["rows"], o.get("buffered"), o.get("written"), want_st, want_rows),
                          {"kind": "fault-injection", "case": case_to_json(c), "observed": o,
                           "how_to_replay": "python3 tools/check.py C04 --replay <this file>"}, suffix="inject")
            break
    res.cov["histogram"]["fault_injection_and_forced_interleaving_cases"] = len(inj)

    # ---- TLE: garbled text must be refused with a 4xx; a valid TLE write after an undecompressable body must succeed
    tle_5xx = 0
    for c, o in zip(muts, xobs):
        for e, st in zip(c["events"], o["statuses"]):
            if e["k"] != "raw" or e.get("kind") not in ("tle", "imptle"):
                continue
            bad = None
            if st >= 500 or st == -1:
                bad = "a TLE request was answered %d" % st
            elif e.get("text") == TLE_SEED and st >= 300:
                bad = "the valid TLE body was refused (%d)" % st
            if not bad:
                continue
            sig = "tle-short-line-handler-panic" if (st == 500 and tle_short_line(e.get("text"))) else None
            if sig and sig in known:
                tle_5xx += 1
                if sig not in reported:
                    reported.add(sig)
                    res.known_finding("%s: %s" % (sig, known[sig]["what"]))
                continue
            if not any(v[2].startswith("TLE:") for v in res.violations):
                res.violation("TLE: " + bad + " (malformed input must be a 4xx, a handler panic recovered as 500 is not)",
                              {"kind": "tle-5xx", "case": case_to_json(c), "observed": o,
                               "how_to_replay": "python3 tools/check.py C04 --replay <this file>"}, suffix="tle")
    res.cov["histogram"]["tle_requests_answered_500_matching_listed_finding"] = tle_5xx

    # ---- implementation-only mutation stream: any death
    mut_known_deaths = 0
    for c, o in zip(muts, xobs):
        if not o["died"]:
            continue
        sig = mutation_death_signature(c, o)
        if sig and sig in known:
            mut_known_deaths += 1
            if sig not in reported:
                reported.add(sig)
                res.known_finding("%s: %s" % (sig, known[sig]["what"]))
            continue
        res.violation("mutation stream: the real server process died: " + o["panic"],
                      {"kind": "mutation-death", "case": case_to_json(c), "observed": o,
                       "how_to_replay": "python3 tools/check.py C04 --replay <this file>"}, suffix="mutation")
        break
    res.cov["histogram"]["mutation_deaths_matching_listed_finding"] = mut_known_deaths
    # memory: a small request must not make the process allocate hundreds of MB
    alloc_hits, alloc_max = 0, 0
    for c, o in zip(muts, xobs):
        am = o.get("alloc_mb") or []
        for e, mb in zip(c["events"], am):
            if e["k"] != "raw" or not e.get("measure") or mb is None or mb < 0:
                continue
            alloc_max = max(alloc_max, mb)
            if mb >= ALLOC_LIMIT_MB and len(e["body"]) < (1 << 16):
                sig = "msgpack-bin-length-unbounded-allocation" if declares_big_bin(e["body"]) else None
                if sig and sig in known:
                    alloc_hits += 1
                    if sig not in reported:
                        reported.add(sig)
                        res.known_finding("%s: %s" % (sig, known[sig]["what"]))
                    continue
                if not any(v[2].startswith("mutation stream: a %d-byte" % len(e["body"])) for v in res.violations):
                    res.violation("mutation stream: a %d-byte request made the server allocate %d MB" % (len(e["body"]), mb),
                                  {"kind": "mutation-allocation", "case": case_to_json(c), "observed": o,
                                   "how_to_replay": "python3 tools/check.py C04 --replay <this file>"}, suffix="alloc")
    res.cov["histogram"]["mutation_requests_allocating_over_%dMB" % ALLOC_LIMIT_MB] = alloc_hits
    res.cov["histogram"]["mutation_max_alloc_mb_per_measured_request"] = alloc_max
    bad_transport = sum(1 for o in xobs + mobs if any(s == -1 for s in o["statuses"]))
    res.cov["histogram"]["transport_errors"] = bad_transport

    if failed and not res.violations:
        res.violation("proof obligation(s) no longer check: " + "; ".join(r for _, r in failed),
                      {"kind": "obligation-failed", "theorems": [t for t, _ in failed], "detail": [r for _, r in failed]},
                      no_input=True, suffix="obligation")


def replay(res, path):
    obj = json.load(open(path))
    cj = obj.get("case")
    if not cj:
        print("replay file names no concrete case:", obj.get("summary"))
        return 1
    c = case_from_json(cj)
    o = run_impl([c], "replay")
    print("observed:", json.dumps(o[0]))
    if any(e["k"] == "raw" for e in c["events"]):
        big = [mb for e, mb in zip(c["events"], o[0].get("alloc_mb") or []) if e["k"] == "raw" and e.get("measure") and mb >= ALLOC_LIMIT_MB]
        print("implementation-only sequence; died:", o[0]["died"], "| requests allocating >= %d MB:" % ALLOC_LIMIT_MB, big)
        tle5 = [st for e, st in zip(c["events"], o[0]["statuses"]) if e["k"] == "raw" and e.get("kind") in ("tle", "imptle") and st >= 500]
        lost = o[0].get("written") != o[0].get("buffered")
        print("TLE requests answered 5xx:", tle5, "| accepted rows never written:", lost)
        return 1 if (o[0]["died"] or big or tle5 or lost) else 0
    d, orc, v = eval_in_coq([c], o, "Replay")
    print("model verdict (ending, reason, guard class):", v[0], "| model disagrees:", bool(d), "| oracle fails:", bool(orc))
    return 1 if (d or orc) else 0
