"""C09 - Compaction never loses or duplicates rows, even across crashes.

Proof: coq/theories/Compaction (C09_crash_recover: for every partition, configuration and history of
process lifetimes with any crash OR subprocess-kill point in any job - including a kill after the upload
followed by the adaptive retry logic - one later cycle restores the rows modulo dedup;
C09_recover_any_pending (the invariant over several interrupted jobs at once); C09_no_early_delete;
C09_recover_any_prefix; C09_split_partition; C09_filter_excludes_tracked).  The former refutation
(retry after a kill past the upload duplicated rows) was fixed in /repo by 5306c6c; its witness stays in
corpus/C09 and in C09_kill_after_upload_recovers.
Tie 1 (translator): the order of the durable mutations on the success path of Job.Run, the branches
the manifest deletions sit in, the order inside recoverManifest and the batch constants are re-extracted
with go/ast (tools/lib_crash/ctxcalls + vlib.goast/go_eval_consts) into coq/gen/Params_Compaction.v;
Obligations.v re-proves manifest-before-upload / inputs-deleted-after-upload / manifest-deleted-last.
Tie 2 (correspondence): the REAL Manager/Job/ManifestManager/HourlyTier run with real DuckDB on small
Parquet files behind a fail-stop storage wrapper; the files (rows, flags), manifests and visible rows
after every cycle are compared with the model inside Coq.
"""
import hashlib
import json
import os
import random
import re
import time

import vlib
from vlib import cn, cbool, clist

AREA = "Compaction"
P = "Arc.Compaction.Props"
O = "Arc.Compaction.Obligations"
THEOREMS = [(P, "C09_crash_recover"), (P, "C09_recover_any_pending"), (P, "C09_recover_any_prefix"), (P, "C09_no_early_delete"),
            (P, "C09_recover_no_early_delete"), (P, "C09_split_partition"), (P, "C09_filter_excludes_tracked"),
            (P, "C09_kill_after_upload_recovers"), (P, "C09_partial_tags_refuted"), (P, "C09_relb_sound"), (P, "C09_oracle_hypothesis_satisfiable"),
            (O, "C09_job_order_obligations"), (O, "C09_deployed_crash_recover"), (O, "C09_order_necessary")]
MODULES = [P, O]
TIE_NAME = ("C09 correspondence (compaction.Manager.RunCompactionCycle / Job.Run / ManifestManager recovery vs "
            "Arc.Compaction.Model.cycle) / Params_Compaction")
SIGNATURE = "job-killed-after-upload-then-adaptive-retry"
SIGNATURE_PARTIAL = "recompaction-with-partial-tag-metadata"

PKG = "./internal/compaction/"
HARNESS = {"internal/compaction/zz_compaction_verif_test.go": "harness/compaction/compaction_verif_test.go"}
REWRITES = {
    "internal/compaction/manager.go": [("RunJobInSubprocess(ctx, config, m.logger, extraEnv...)",
                                        "verifRunJob(ctx, config, m.logger, extraEnv...)", 1)],
    "internal/compaction/subprocess.go": [("backend, err := createStorageBackendFromConfig(config, logger)",
                                           "backend, err := verifSubprocessBackend(config, logger)", 1),
                                          ('db, err := sql.Open("duckdb", "")', "db, err := verifOpenDB(sql.Open)", 1),
                                          ("defer db.Close()", "defer verifCloseDB(db)", 1)],
    "internal/compaction/job.go": [("time.Now()", "verifNow()", 1)],
    "internal/compaction/hourly.go": [("time.Now()", "verifNow()", 1)],
}
TAGS = "verif duckdb_arrow"


# ---------------------------------------------------------------------------------------
# parameters regenerated from the source
# ---------------------------------------------------------------------------------------

def ctxcalls(relfile, func, regex):
    exe = os.path.join(vlib.BIN, "ctxcalls")
    srcdir = os.path.join(vlib.ROOT, "tools", "lib_crash", "ctxcalls")
    os.makedirs(vlib.BIN, exist_ok=True)
    with vlib.Lock("ctxcalls"):
        newest = max(os.path.getmtime(os.path.join(srcdir, f)) for f in os.listdir(srcdir))
        if not os.path.exists(exe) or os.path.getmtime(exe) < newest:
            env = dict(os.environ)
            env.pop("GOFLAGS", None)
            env.pop("GOSUMDB", None)
            env["GOTOOLCHAIN"] = "auto"
            env["GOPROXY"] = "off"
            rc, o = vlib.sh(["go", "build", "-o", exe, "."], cwd=srcdir, env=env, timeout=600)
            if rc != 0:
                raise vlib.InfraError("cannot build ctxcalls: " + o)
    rc, out = vlib.sh([exe, vlib.REPO, relfile, func, regex], timeout=60)
    if rc != 0:
        raise vlib.TieBroken("ctxcalls %s %s: %s" % (relfile, func, out.strip()))
    return json.loads(out)


def in_failure_branch(ev, mutators):
    """The call sits in the `then` branch of `if err := <mutation>(...); err != nil`."""
    for c in ev["path"]:
        if c["kind"] == "if" and c.get("init") in mutators and "err != nil" in c.get("cond", "") and c["branch"] == "then":
            return c["init"]
    return None


PHASE = {"WriteManifest": "PhManifest", "uploadFile": "PhUpload", "deleteOldFiles": "PhDeleteInputs", "DeleteManifest": "PhDeleteManifest"}


def translate_params():
    run = ctxcalls("internal/compaction/job.go", "Run", "^(WriteManifest|uploadFile|deleteOldFiles|DeleteManifest)$")
    evs = run["events"]
    for need in PHASE:
        if not any(e["callee"] == need for e in evs):
            raise vlib.TieBroken("Job.Run no longer calls %s" % need)
    mut = set(PHASE)
    mainline = [e for e in evs if not in_failure_branch(e, mut) and not any(c["kind"] in ("funclit", "defer") for c in e["path"])]
    order = [PHASE[e["callee"]] for e in mainline]
    # DeleteManifest on the success path must sit in the else-branch of deleteOldFiles' error check
    dm_main = [e for e in mainline if e["callee"] == "DeleteManifest"]
    guarded = bool(dm_main) and all(any(c["kind"] == "if" and c.get("init") == "deleteOldFiles" and "err != nil" in c.get("cond", "")
                                        and c["branch"] == "else" for c in e["path"]) for e in dm_main)
    upfail = any(e["callee"] == "DeleteManifest" and in_failure_branch(e, mut) == "uploadFile" for e in evs)

    rec = ctxcalls("internal/compaction/manifest.go", "recoverManifest", "^(Exists|Delete|DeleteManifest|ReadManifest|ListObjects)$")
    revs = rec["events"]
    loop_del = [e for e in revs if e["callee"] == "Delete" and any(c["kind"] == "range" and "InputFiles" in c.get("cond", "") for c in e["path"])]
    final_dm = [e for e in revs if e["callee"] == "DeleteManifest" and not e["path"]]
    out_exists = [e for e in revs if e["callee"] == "Exists" and e["args"] and "OutputPath" in e["args"][-1] and not e["path"]]
    if not loop_del or not final_dm or not out_exists:
        raise vlib.TieBroken("recoverManifest: cannot find the output check / input-delete loop / final DeleteManifest")
    rec_inputs_first = max(e["line"] for e in loop_del) < min(e["line"] for e in final_dm)
    rec_check_first = min(e["line"] for e in out_exists) < min(e["line"] for e in loop_del)

    ad = ctxcalls("internal/compaction/manager.go", "compactFilesAdaptively",
                  "^(CompactPartition|ClassifySubprocessError|compactFilesAdaptively|RecoverOrphanedManifests|GetFilesInManifests|filterCandidateFiles|invalidateCache)$")
    consts = ad["consts"]
    if "maxDepth" not in consts or "minBatchSize" not in consts:
        raise vlib.TieBroken("compactFilesAdaptively: local constants maxDepth/minBatchSize not found")
    aev = ad["events"]
    first = lambda name: min([e["line"] for e in aev if e["callee"] == name] or [0])
    attempt, lookup, inval = first("CompactPartition"), first("GetFilesInManifests"), first("invalidateCache")
    retries = [e["line"] for e in aev if e["callee"] == "compactFilesAdaptively"]
    retry_consults = lookup > 0
    msrc = open(os.path.join(vlib.REPO, "internal/compaction/manager.go")).read().split("\n")
    between = "\n".join(msrc[lookup:min(retries) - 1]) if (lookup and retries) else ""
    # ... and a tracked file of the batch makes it return before the split
    returns = bool(re.search(r"for _, \w+ := range files \{\s*if _, (\w+) := \w+\[\w+\]; \1 \{.*?return err", between, re.S))
    retry_precedes = bool(retry_consults and retries and attempt < lookup < min(retries) and returns)
    retry_inval = bool(retry_consults and attempt < inval < lookup)
    vals = vlib.go_eval_consts([
        ("max_depth", "internal/compaction/manager.go", consts["maxDepth"]),
        ("min_batch", "internal/compaction/manager.go", consts["minBatchSize"]),
        ("min_files_per_batch", "internal/compaction/tier.go", "MinFilesPerBatch"),
        ("default_batch", "internal/compaction/tier.go", "DefaultMaxFilesPerBatch"),
        ("max_allowed", "internal/compaction/tier.go", "MaxAllowedFilesPerBatch"),
    ])
    if vals["min_batch"] != vals["min_files_per_batch"]:
        raise vlib.TieBroken("minBatchSize (%d) != MinFilesPerBatch (%d): the model uses one floor" % (vals["min_batch"], vals["min_files_per_batch"]))
    body = "(* GENERATED by tools/props/C09.py from the current /repo sources - do not edit *)\n"
    body += "From Coq Require Import List.\nFrom Arc Require Import Compaction.Model.\nImport ListNotations.\n"
    body += "(* success-path order of the durable mutations in Job.Run (job.go lines %s) *)\n" % [e["line"] for e in mainline]
    body += "Definition job_run_order : list phase := [%s].\n" % "; ".join(order)
    body += "Definition manifest_delete_requires_all_inputs_deleted : bool := %s.\n" % cbool(guarded)
    body += "Definition upload_failure_deletes_manifest : bool := %s.\n" % cbool(upfail)
    body += "Definition recover_checks_output_before_deleting : bool := %s.\n" % cbool(rec_check_first)
    body += "Definition recover_deletes_inputs_before_manifest : bool := %s.\n" % cbool(rec_inputs_first)
    body += "(* MinFilesPerBatch, DefaultMaxFilesPerBatch, MaxAllowedFilesPerBatch (tier.go); maxDepth (compactFilesAdaptively) *)\n"
    body += "Definition code_params : params := mkParams %d %d %d %d.\n" % (vals["min_batch"], vals["default_batch"], vals["max_allowed"], vals["max_depth"])
    body += "(* compactFilesAdaptively: manifest lookup between the failed attempt and the retry on halves *)\n"
    body += "Definition adaptive_retry_consults_manifests : bool := %s.\n" % cbool(retry_consults)
    body += "Definition adaptive_retry_check_precedes_retry : bool := %s.\n" % cbool(retry_precedes)
    body += "Definition adaptive_retry_invalidates_cache_first : bool := %s.\n" % cbool(retry_inval)
    vlib.write_params("Params_Compaction", body)
    return {"job_run_order": order, "manifest_delete_guarded": guarded, "upload_failure_deletes_manifest": upfail,
            "recover_inputs_before_manifest": rec_inputs_first, "recover_check_first": rec_check_first,
            "params": vals, "adaptive_retry_consults_manifests": retry_consults, "adaptive_retry_check_precedes_retry": retry_precedes,
            "adaptive_retry_invalidates_cache_first": retry_inval}


# ---------------------------------------------------------------------------------------
# cases
# ---------------------------------------------------------------------------------------

HOSTS = ["a", "b", None]


REGIONS = ["eu", "us", None]


def gen_files(rng, n, vctr, style=None):
    """style "evolving": schema evolution of the tag set - the older files carry arc:tags=host,region and rows
    that agree on (host, time) but differ in region, the NEWEST metadata-bearing file carries arc:tags=host only
    (no region column).  The dedup key is (union of the inputs' tag columns, time)."""
    style = style or rng.choice(["none", "none", "tags", "tags", "mixed", "dedup_time", "evolving", "evolving"])
    files = []
    for i in range(n):
        evolving_old = style == "evolving" and i < n - 1 and rng.random() < 0.8
        rows = []
        for _ in range(rng.randint(2, 3) if evolving_old else rng.randint(1, 3)):
            if rows and rng.random() < 0.15:
                rows.append(dict(rows[-1]))            # an exact duplicate row
                continue
            vctr[0] += 1
            rows.append({"host": rng.choice(HOSTS), "region": None, "t": 1000 + rng.randint(0, 2), "v": vctr[0] if rng.random() < 0.8 else 7, "x": None})
        hx = rng.random() < 0.3
        if hx:
            for r in rows:
                r["x"] = rng.choice([None, 1, 2])
        if evolving_old:
            # rows equal on the remaining tag and the timestamp, different in the tag the newest file lacks
            for j, r in enumerate(rows):
                r["host"], r["t"], r["region"] = rows[0]["host"], rows[0]["t"], REGIONS[j % 3]
            files.append({"rows": rows, "meta": "tags2", "has_x": hx, "has_region": True})
            continue
        meta = {"none": "none", "tags": "tags", "dedup_time": "dedup_time", "evolving": "tags"}.get(style) or rng.choice(["none", "tags"])
        files.append({"rows": rows, "meta": meta, "has_x": hx, "has_region": False})
    return files


def total_steps(nfiles):
    return nfiles + 4          # manifest, torn upload, upload, n deletes, manifest delete


def gen_cases(rng, npart, tier):
    """Per partition: the full sweep of crash points of its first job, the kill sweep (parent
    survives), and a few random multi-cycle histories."""
    cases = []
    vctr = [0]
    for pi in range(npart):
        mode = pi % 3
        if mode == 0:        # whole-process crash sweep
            n = rng.choice([3, 3, 4, 5, 6, 7])
            max_batch = rng.choice([10, 10, 4, 3, 0, 600])
        elif mode == 1:      # subprocess kill sweep: one batch that can be halved
            n = rng.choice([4, 4, 5, 6, 7, 8, 9])
            max_batch = rng.choice([10, 0, 600, n, n + 1, 4 if n >= 8 else 10])
        else:                # several batches: first job done, crash / kill in a later job
            n = rng.choice([5, 6, 7, 8, 9])
            max_batch = rng.choice([2, 3, 4, 4])
        files = gen_files(rng, n, vctr)
        min_files = rng.choice([2, 2, 3])
        base = {"min_files": min_files, "max_batch": max_batch, "files": files}
        eff = max_batch if 2 <= max_batch <= 500 else (30 if max_batch < 2 else 500)
        first = n if n <= eff else eff              # size of the first batch (approximation, only for sweeps)
        pts = list(range(0, total_steps(first) + 2))
        if tier == "quick" and len(pts) > 9:
            pts = sorted(set(rng.sample(pts, 6) + [2, 3, 4]))
        mode = pi % 3
        for k in pts:
            if mode == 0:        # whole-process crash in the first job
                cyc = [[("crash", k)]]
            elif mode == 1:      # subprocess killed, parent retries (adaptive path)
                cyc = [[("kill", k)]]
            else:                # first job done, crash / kill in a later job invocation
                cyc = [[("done",), (rng.choice(["crash", "kill"]), k)]]
            cases.append(dict(base, cycles=cyc + [[]], soon=[False] * (len(cyc) + 1)))
        # random histories
        for _ in range(2 if tier == "quick" else 6):
            cyc = []
            for _ in range(rng.randint(1, 3)):
                ocs = []
                for _ in range(rng.randint(1, 4)):
                    kind = rng.choice(["done", "done", "kill", "crash", "failperm", "kill0"])
                    if kind == "kill0":
                        ocs.append(("kill", rng.choice([0, 0, 1])))
                    elif kind in ("kill", "crash"):
                        ocs.append((kind, rng.randint(0, total_steps(first))))
                    else:
                        ocs.append((kind,))
                    if kind == "crash":
                        break
                cyc.append(ocs)
            soon = [rng.random() < 0.25 for _ in cyc] + [False]
            cases.append(dict(base, cycles=cyc + [[]], soon=soon))
    # schema evolution of the tag set: whole partitions compacted in one job (and a kill after the upload)
    for _ in range(6 if tier == "quick" else 60):
        n = rng.choice([3, 4, 5])
        files = gen_files(rng, n, vctr, style="evolving")
        for cyc in ([[]], [[("kill", 3)]], [[("crash", 4)]]):
            cases.append({"min_files": 2, "max_batch": 10, "files": files, "cycles": cyc + [[]], "soon": [False] * (len(cyc) + 1)})
    # the OLDEST file of the batch is not a Parquet file: the job skips it, its manifest does not list it
    for _ in range(4 if tier == "quick" else 40):
        n = rng.choice([4, 5, 6])
        files = [{"rows": [], "meta": "none", "has_x": False, "has_region": False, "corrupt": True}] + gen_files(rng, n, vctr, style=rng.choice(["none", "tags"]))
        for k in (3, 4, n + 2):
            for kind in ("kill", "crash"):
                cases.append({"min_files": 2, "max_batch": 10, "files": files, "cycles": [[(kind, k)], []], "soon": [False, False]})
    for i, c in enumerate(cases):
        c["id"] = i
    return cases


def witness_cases():
    """The refutation witness of C09_adaptive_retry_refuted and its in-guard twin."""
    files = [{"rows": [{"host": "a", "region": None, "t": 1000 + i, "v": i, "x": None}], "meta": "none", "has_x": False} for i in range(4)]
    return [
        {"id": 900000, "min_files": 2, "max_batch": 10, "files": files, "cycles": [[("kill", 3)], []], "soon": [False, False], "witness": "C09_adaptive_retry_refuted"},
        {"id": 900001, "min_files": 2, "max_batch": 10, "files": files, "cycles": [[("crash", 3)], []], "soon": [False, False], "witness": "in-guard twin (whole-process crash)"},
    ]


def outcome_to_harness(oc):
    if oc[0] in ("done", "failperm"):
        return {"kind": oc[0], "m": 0, "torn": False}
    k = oc[1]
    if k <= 1:
        return {"kind": oc[0], "m": k, "torn": False}
    if k == 2:
        return {"kind": oc[0], "m": 1, "torn": True}
    return {"kind": oc[0], "m": k - 1, "torn": False}


def to_harness(c):
    cycles = []
    for i, ocs in enumerate(c["cycles"]):
        prev_crashed = i > 0 and any(o[0] == "crash" for o in c["cycles"][i - 1])
        cycles.append({"outcomes": [outcome_to_harness(o) for o in ocs], "new_proc": i == 0 or prev_crashed or i == len(c["cycles"]) - 1,
                       "advance_h": 0 if c["soon"][i] else 2})
    return {"id": c["id"], "min_files": c["min_files"], "max_batch": c["max_batch"], "files": c["files"], "cycles": cycles}


def in_guard(c):
    return all(o[0] != "kill" or o[1] <= 1 for ocs in c["cycles"] for o in ocs)


def excluded_class(c):
    """kill after the upload became visible (k >= 3) with the parent alive"""
    return any(o[0] == "kill" and o[1] >= 3 for ocs in c["cycles"] for o in ocs)


def nontrivial(c):
    """>= 3 input files and a crash/kill strictly between the first and the last mutation of a job"""
    if len(c["files"]) < 3:
        return False
    return any(o[0] in ("kill", "crash") and 1 <= o[1] < total_steps(len(c["files"])) for ocs in c["cycles"] for o in ocs)


class Interner:
    """key = the dedup key over the UNION of all tag columns of the measurement: (host, region, time);
    ckey = the key of a job whose only tag metadata names just `host`: (host, time);
    in an arc:dedup_time-only partition (no tag columns) both are the timestamp alone"""

    def __init__(self, time_only=False):
        self.k, self.c, self.v = {}, {}, {}
        self.time_only = time_only

    def row(self, r):
        # observed rows are [host, region, time, v, x]
        key = json.dumps([r[2]] if self.time_only else [r[0], r[1], r[2]])
        ckey = json.dumps([r[2]] if self.time_only else [r[0], r[2]])
        val = json.dumps(r)
        for tab, x in ((self.k, key), (self.c, ckey), (self.v, val)):
            if x not in tab:
                tab[x] = len(tab) + 1
        return "(mkRow %s %s %s)" % (cn(self.k[key]), cn(self.c[ckey]), cn(self.v[val]))


def tag_classes(c):
    """per input file: (carries the FULL tag set, carries only PART of it).  The full tag set of the
    partition is the union of the files' arc:tags; arc:dedup_time counts as full metadata."""
    tags = [{"tags": {"host"}, "tags2": {"host", "region"}}.get(f.get("meta"), set()) for f in c["files"]]
    full = set().union(*tags) if tags else set()
    out = []
    for f, t in zip(c["files"], tags):
        if f.get("meta") == "dedup_time":
            out.append((True, False))
        else:
            out.append((bool(t) and t == full, bool(t) and t != full))
    return out


def has_partial(c):
    return any(p for _, p in tag_classes(c))


def cfile(it, f, cls=(None, False)):
    full = f["meta"] if cls[0] is None else cls[0]
    return "(mkCFile %s %s %s %s %s)" % (clist([it.row(r) for r in f["rows"]]), cbool(full), cbool(cls[1]), cbool(f["comp"]), cbool(f["readable"]))


def coutcome(o):
    return {"done": "ODone", "failperm": "OFailPerm"}.get(o[0]) or "(%s %d)" % ("OKill" if o[0] == "kill" else "OCrash", o[1])


def case_to_coq(c, obs):
    metas = {f["meta"] for f in c["files"]}
    it = Interner(time_only=("dedup_time" in metas and "tags" not in metas and "tags2" not in metas))
    cls = tag_classes(c)
    start = obs["start"]
    files = clist([cfile(it, f, cls[i] if (i < len(cls) and f["meta"]) else (False, False)) for i, f in enumerate(start)])
    cys = []
    for ocs, co in zip(c["cycles"], obs["cycles"]):
        # raw inputs keep their class (matched by name), compacted outputs never carry tag metadata
        byname = {f["name"]: cls[i] for i, f in enumerate(start) if i < len(cls)}
        cys.append("(mkCCycle %s %s %s %d)" % (cbool(not co["recent"]), clist([coutcome(o) for o in ocs]),
                                               clist([cfile(it, f, byname.get(f["name"], (False, False)) if f["meta"] else (False, False)) for f in co["files"]]),
                                               co["manifests"]))
    return "(mkCCase code_params (mkConfig %d %d) %s %s)" % (c["min_files"], c["max_batch"], files, clist(cys))


HEADER = ("From Coq Require Import List NArith Bool Arith.\nFrom Arc Require Import Compaction.Model.\n"
          "From ArcGen Require Import Params_Compaction.\nImport ListNotations.\n")


def run_harness_cached(pid, pkg, test, harness_files, cases, rewrites=None, tags="verif", tag="run", timeout=1800):
    """Like vlib.run_go_harness, but the (slow to link, DuckDB/cgo) test binary is built once per
    state of the sources: it is keyed by a hash of EVERY file of the repository working tree plus
    the overlay files, so any change of the code under test or of the harness rebuilds it."""
    overlay = {}
    for rel, subs in (rewrites or {}).items():
        overlay[rel] = vlib.rewrite_source(rel, subs, pid)
    for virt, real in harness_files.items():
        overlay[virt] = real if os.path.isabs(real) else os.path.join(vlib.ROOT, real)
    h = hashlib.sha1()
    h.update(("%s|%s|%s" % (pkg, tags, vlib.REPO)).encode())
    for dp, dns, fns in os.walk(vlib.REPO):
        dns[:] = sorted(d for d in dns if d != ".git")
        for fn in sorted(fns):
            fp = os.path.join(dp, fn)
            try:
                data = open(fp, "rb").read()
            except OSError:
                continue
            h.update(os.path.relpath(fp, vlib.REPO).encode() + b"\0" + hashlib.sha1(data).digest())
    for virt in sorted(overlay):
        h.update(virt.encode() + b"\0" + hashlib.sha1(open(overlay[virt], "rb").read()).digest())
    key = h.hexdigest()[:20]
    os.makedirs(vlib.BIN, exist_ok=True)
    exe = os.path.join(vlib.BIN, "%s_%s.test" % (pid, key))
    with vlib.Lock("gobin_" + pid):
        if not os.path.exists(exe):
            for old in os.listdir(vlib.BIN):
                if old.startswith(pid + "_") and old.endswith(".test"):
                    os.remove(os.path.join(vlib.BIN, old))
            ov = vlib.overlay_file(overlay, pid + "_bin")
            t0 = time.time()
            rc, out = vlib.sh(["go", "test", "-c", "-tags", tags, "-vet=off", "-overlay", ov, "-o", exe, pkg], cwd=vlib.REPO, env=vlib.go_env(), timeout=timeout)
            vlib.log("go test -c %s: rc=%d in %.1fs" % (pkg, rc, time.time() - t0))
            if rc != 0 or not os.path.exists(exe):
                raise vlib.TieBroken("%s harness no longer builds against the current source (rc=%d):\n%s" % (pid, rc, out[-4000:]))
    d = os.path.join(vlib.WORK, "cases", pid)
    os.makedirs(d, exist_ok=True)
    cin, cout = os.path.join(d, tag + "_in.json"), os.path.join(d, tag + "_out.json")
    json.dump(cases, open(cin, "w"))
    if os.path.exists(cout):
        os.remove(cout)
    env = vlib.go_env({"VERIF_CASES": cin, "VERIF_OUT": cout})
    t0 = time.time()
    rc, out = vlib.sh([exe, "-test.run", test, "-test.count=1"], cwd=os.path.join(vlib.REPO, pkg.lstrip("./")), env=env, timeout=timeout)
    vlib.log("%s %s: rc=%d in %.1fs" % (os.path.basename(exe), test, rc, time.time() - t0))
    if rc != 0 or not os.path.exists(cout):
        raise vlib.TieBroken("%s harness failed against the current source (rc=%d):\n%s" % (pid, rc, out[-4000:]))
    return json.load(open(cout))


def run_impl(cases, tag, units=None):
    units = units or {}
    inp = {"cases": [to_harness(c) for c in cases], "split": units.get("split", []),
           "classify": units.get("classify", []), "filter": units.get("filter", [])}
    out = run_harness_cached("C09", PKG, "^TestVerifCompaction$", HARNESS, inp, rewrites=REWRITES, tags=TAGS, tag=tag, timeout=1800)
    if len(out["cases"]) != len(cases):
        raise vlib.TieBroken("C09 harness returned %d results for %d cases" % (len(out["cases"]), len(cases)))
    for c, o in zip(cases, out["cases"]):
        if o.get("err") or len(o.get("cycles") or []) != len(c["cycles"]):
            raise vlib.TieBroken("C09 harness could not run case %s: %s" % (c["id"], o.get("err")))
        o["start"] = o.get("start") or []
        for co in o["cycles"]:
            co["files"] = co.get("files") or []
            co["visible"] = co.get("visible") or []
    return out


def par_check(pid, header, ctype, terms, preds, name, workers=4):
    """coq_check_cases on `workers` slices in parallel coqc processes; indices are re-based."""
    from concurrent.futures import ThreadPoolExecutor
    if len(terms) < 40:
        return vlib.coq_check_cases(pid, header, ctype, terms, preds, chunk=1000, name=name)
    size = (len(terms) + workers - 1) // workers
    slices = [(off, terms[off:off + size]) for off in range(0, len(terms), size)]

    def one(item):
        off, part = item
        r = vlib.coq_check_cases(pid, header, ctype, part, preds, chunk=size + 1, name="%s_p%d" % (name, off))
        return {k: [off + i for i in v] for k, v in r.items()}
    res = {k: [] for k in preds}
    with ThreadPoolExecutor(max_workers=workers) as ex:
        for r in ex.map(one, slices):
            for k, v in r.items():
                res[k] += v
    return res


def eval_cases(cases, obs, name):
    try:
        terms = [case_to_coq(c, o) for c, o in zip(cases, obs)]
        return _eval_terms(terms, name)
    except (vlib.InfraError, KeyError, ValueError, TypeError) as e:
        raise vlib.TieBroken("the implementation's observations could not be evaluated against the model (unexpected shape): %s" % str(e)[-1500:])


def _eval_terms(terms, name):
    return par_check("C09", HEADER, "ccase", terms, {"agree": "case_agrees", "oracle": "case_oracle", "moracle": "case_model_oracle"}, name)


UNIT_SPLIT = [[n, mx] for mx in (0, 1, 2, 3, 4, 5, 7, 30, 499, 500, 501, 1000) for n in (0, 1, 2, 3, 4, 5, 6, 7, 8, 9, 10, 11, 29, 30, 31, 32, 59, 60, 61, 91)] + \
             [[501, 500], [1001, 500], [1001, 1000], [501, 0]]
UNIT_SPLIT_THOROUGH = [[n, mx] for mx in (2, 3, 30, 499, 500, 501, 1000) for n in (501, 999, 1000, 1001, 1499)]
UNIT_CLASSIFY = [
    ({"err": "subprocess failed: signal: killed (stderr: )", "stderr": ""}, True),
    ({"err": "subprocess failed: signal: segmentation fault (stderr: )", "stderr": ""}, True),
    ({"err": "subprocess failed: exit status 1 (stderr: open data: permission denied)", "stderr": "open data: permission denied"}, False),
    ({"err": "Binder Error: column time", "stderr": ""}, False),
    ({"err": "Out of Memory Error: could not allocate", "stderr": ""}, True),
]


def gen_filter_units(rng, n):
    out = []
    for _ in range(n):
        fs = [str(i) for i in rng.sample(range(1, 12), rng.randint(0, 7))]
        ms = []
        for _ in range(rng.randint(0, 3)):
            ms.append([str(rng.randint(1, 14))] + [str(rng.randint(1, 12)) for _ in range(rng.randint(0, 4))])
        out.append({"files": fs, "manifests": ms})
    return out


def eval_units(out, units):
    bad = []
    terms = ["(%d, %d, %s)" % (n, mx, clist([clist([cn(x) for x in b]) + "%N" if b else "(@nil N)" for b in obs]))
             for (n, mx), obs in zip(units["split"], out["split"])]
    r = vlib.coq_check_cases("C09", HEADER, "nat * nat * list (list N)", terms, {"split": "split_case_agrees code_params"}, name="Split")
    bad += [("split", units["split"][i], out["split"][i]) for i in r["split"]]
    terms = []
    for u, obs in zip(units["filter"], out["filter"]):
        ln = lambda l: (clist([cn(int(x)) for x in l]) if l else "(@nil N)")
        terms.append("(%s, %s, %s)" % (ln(u["files"]), clist([ln(m) for m in u["manifests"]]) if u["manifests"] else "(@nil (list N))", ln(obs)))
    r = vlib.coq_check_cases("C09", HEADER, "list N * list (list N) * list N", terms, {"filter": "filter_case_agrees"}, name="Filter")
    bad += [("filter", units["filter"][i], out["filter"][i]) for i in r["filter"]]
    for (u, exp), got in zip(UNIT_CLASSIFY, out["classify"]):
        if exp != got:
            bad.append(("classify", u, got))
    return bad


def canon_hash(c):
    return hashlib.sha1(json.dumps({k: c[k] for k in ("min_files", "max_batch", "files", "cycles", "soon")}, sort_keys=True, default=str).encode()).hexdigest()


def shrink_case(c, fails):
    """Greedy: drop whole files, rows, outcomes, cycles while `fails(list of candidates)` reports one failing."""
    cur = c
    for _ in range(12):
        cands = []
        for i in range(len(cur["files"])):
            if len(cur["files"]) > 1:
                cands.append(dict(cur, files=cur["files"][:i] + cur["files"][i + 1:]))
        for i, f in enumerate(cur["files"]):
            for j in range(len(f["rows"])):
                if len(f["rows"]) > 1:
                    nf = dict(f, rows=f["rows"][:j] + f["rows"][j + 1:])
                    cands.append(dict(cur, files=cur["files"][:i] + [nf] + cur["files"][i + 1:]))
        for i, ocs in enumerate(cur["cycles"]):
            for j in range(len(ocs)):
                cands.append(dict(cur, cycles=cur["cycles"][:i] + [ocs[:j] + ocs[j + 1:]] + cur["cycles"][i + 1:]))
            if len(cur["cycles"]) > 1 and i < len(cur["cycles"]) - 1:      # the final undisturbed cycle stays
                cands.append(dict(cur, cycles=cur["cycles"][:i] + cur["cycles"][i + 1:], soon=cur["soon"][:i] + cur["soon"][i + 1:]))
        if not cands:
            break
        for n, x in enumerate(cands):
            x["id"] = n
        idx = fails(cands)
        if idx is None:
            break
        cur = cands[idx]
    return cur


def setup():
    translate_params()


def warm():
    run_impl([], "warm")


def run(res, tier, seed):
    rng = random.Random(seed * 7919 + 9)
    t0 = time.time()
    try:
        params = translate_params()
    finally:
        res.stage("translate_params", t0)
    res.cov["params"] = params

    # cases are generated first so that the Go harness can run while coqc checks the theorems
    npart = 26 if tier == "quick" else 400
    cases = witness_cases() + gen_cases(rng, npart, tier)
    corpus_dir = os.path.join(vlib.ROOT, "corpus", "C09")
    if os.path.isdir(corpus_dir):
        for fn in sorted(os.listdir(corpus_dir)):
            obj = json.load(open(os.path.join(corpus_dir, fn)))
            if obj.get("case"):
                cc = dict(obj["case"], id=800000 + len(cases), corpus=fn)
                cc["cycles"] = [[tuple(o) for o in ocs] for ocs in cc["cycles"]]
                cc.setdefault("soon", [False] * len(cc["cycles"]))
                cases.insert(0, cc)
    units = {"split": UNIT_SPLIT + (UNIT_SPLIT_THOROUGH if tier == "thorough" else []), "classify": [u for u, _ in UNIT_CLASSIFY],
             "filter": gen_filter_units(rng, 120 if tier == "quick" else 1500)}
    from concurrent.futures import ThreadPoolExecutor
    pool = ThreadPoolExecutor(max_workers=1)
    t1 = time.time()
    fut = pool.submit(run_impl, cases, tier, units)

    failed = vlib.std_proof_stage(res, "C09", AREA, MODULES, THEOREMS, extra_targets=["gen/Params_Compaction.vo", "theories/Compaction/Obligations.vo"])
    res.cov["trusted_base"] += [
        "DuckDB COPY of buildCompactionQuery as Section oracle `compact` with hypothesis rel b l (compact b l) (permutation without dedup metadata; "
        "sub-multiset covering every (tags,time) key with it) - validated against real DuckDB by the per-case oracle on every generated partition",
        "process-crash model: a completed storage mutation is durable and atomic, except the upload for which a torn (truncated) object is an extra crash point; "
        "a killed subprocess = a prefix of the job's durable micro-steps; corrupt-input skipping, edge-sync/cluster (Phase 4) hooks, daily tier and concurrent partitions are not modelled",
        "the subprocess boundary is replaced in the harness by an in-process run of the real RunSubprocessJob behind a fail-stop LocalBackend wrapper "
        "(overlay rewrite of RunJobInSubprocess / createStorageBackendFromConfig / time.Now in job.go+hourly.go); partition age eligibility is an environment input (cc_elig)",
        "tools/lib_crash/ctxcalls (go/ast control-context extraction of Job.Run / recoverManifest / compactFilesAdaptively)",
    ]

    if tier == "thorough" and hasattr(vlib, "coqchk_stage"):
        ok, _ = vlib.coqchk_stage(res, MODULES)
        if not ok:
            failed.append(("coqchk", "coqchk did not accept the compiled development"))

    out = fut.result()
    pool.shutdown()
    obs = out["cases"]
    res.stage("impl_harness", t1)
    t2 = time.time()
    with ThreadPoolExecutor(max_workers=2) as ex2:          # cases and unit cases in parallel coqc processes
        fu = ex2.submit(eval_units, out, units)
        r = eval_cases(cases, obs, "Cases_C09_%s" % tier)
        unit_bad = fu.result()
    res.stage("coq_eval", t2)

    dis, orf, morf = set(r["agree"]), set(r["oracle"]), set(r["moracle"])
    n_units = len(units["split"]) + len(units["classify"]) + len(units["filter"])
    res.cov["evaluations"] = len(cases) + n_units
    keys = {canon_hash(c) for c in cases if nontrivial(c)}
    res.cov["distinct_nontrivial"] = len(keys)
    res.cov["rule"] = ("partitions of 2-9 small Parquet files (duplicate keys, NULL tags, schema drift, with/without arc:tags / arc:dedup_time) x "
                       "every crash point of a job (manifest write, torn upload, upload, each input delete, manifest delete; whole process or subprocess only) "
                       "+ random multi-cycle histories; non-trivial = >= 3 input files and a kill/crash strictly between the first and last mutation of a job; "
                       "distinct by (config, files, outcomes); plus %d unit cases of SplitCandidateIntoBatches / filterCandidateFiles / ClassifySubprocessError" % n_units)
    res.cov["model_vs_impl_disagreements"] = len(dis) + len(unit_bad)
    res.cov["oracle_failures"] = len(orf)
    kinds = {}
    for c in cases:
        for ocs in c["cycles"]:
            for o in ocs:
                kinds[o[0]] = kinds.get(o[0], 0) + 1
    res.cov["histogram"] = {"files_per_partition": {str(k): sum(1 for c in cases if len(c["files"]) == k) for k in range(1, 10)},
                            "outcome_kinds": kinds, "kill_before_upload": sum(1 for c in cases if in_guard(c)),
                            "kill_after_upload_then_retry_logic": sum(1 for c in cases if excluded_class(c)),
                            "jobs_run": sum(co["jobs_run"] for o in obs for co in o["cycles"]),
                            "with_dedup_metadata": sum(1 for c in cases if any(f["meta"] != "none" for f in c["files"]))}
    res.cov["samples"] = [{"case": {k: cases[i][k] for k in ("min_files", "max_batch", "cycles")}, "files": len(cases[i]["files"]),
                           "final_files": [len(f["rows"]) for f in obs[i]["cycles"][-1]["files"]], "final_manifests": obs[i]["cycles"][-1]["manifests"]}
                          for i in (0, len(cases) // 2, len(cases) - 1)]

    known_partial = [k for k in vlib.known_for("C09") if k.get("signature") == SIGNATURE_PARTIAL]

    def is_known(i):
        """rows lost by a dedup on a partial tag set, exactly as the model predicts"""
        return bool(known_partial) and has_partial(cases[i]) and i in morf and i not in dis
    reproduced = 0
    reported = False
    n_bad = sum(1 for i in orf if not is_known(i))
    for i in sorted(orf):
        c = cases[i]
        replay_obj = {"kind": "oracle-failure", "case": dict(c, cycles=[[list(o) for o in ocs] for ocs in c["cycles"]]),
                      "observed_final": obs[i]["cycles"][-1], "before": obs[i]["before"],
                      "how_to_replay": "python3 tools/check.py C09 --replay <this file>"}
        if is_known(i):
            reproduced += 1
            continue
        if sum(1 for v in res.violations) < 3:      # at most three concrete inputs are written out
            res.violation("rows lost or duplicated after a compaction history (case %s; %d such cases in this run)" % (c["id"], n_bad), replay_obj)
        reported = True
    if reproduced:
        res.known_finding("a batch that mixes a compacted output (no tag metadata) with files whose arc:tags name only part of the tag columns is deduplicated on "
                          "the partial key: rows that differ only in the missing tag are dropped (%d generated histories)" % reproduced)
    res.cov["known_finding_cases"] = reproduced

    if failed and not reported:
        res.violation("proof obligation(s) no longer check: " + "; ".join(x for _, x in failed),
                      {"kind": "obligation-failed", "theorems": [t for t, _ in failed], "detail": [x for _, x in failed], "params": params},
                      no_input=True, suffix="obligation")
    # inside the known-finding class a passing oracle means the finding was repaired: no alarm
    real_dis = [i for i in sorted(dis) if not (has_partial(cases[i]) and i not in orf)]
    if real_dis:
        c = cases[real_dis[0]]

        def fails(cands):
            o = run_impl(cands, "shrink")
            rr = eval_cases(cands, o["cases"], "Shrink_C09")
            bad = sorted(set(rr["agree"]))
            return bad[0] if bad else None
        try:
            small = shrink_case(c, fails) if len(real_dis) < 40 else c
            small = dict(small, id=0)
            o = run_impl([small], "shrink")
            rr = eval_cases([small], o["cases"], "Shrink_C09")
        except Exception as e:                      # shrinking is best effort: report the unshrunk case
            res.notes.append("shrinking failed: %s" % str(e)[-300:])
            small, o, rr = dict(c, id=0), {"cases": [obs[real_dis[0]]]}, {"oracle": [0] if real_dis[0] in orf else []}
        res.violation("model and implementation disagree on a compaction history",
                      {"kind": "correspondence", "correspondence": TIE_NAME, "case": dict(small, cycles=[[list(x) for x in ocs] for ocs in small["cycles"]]),
                       "observed": o["cases"][0]["cycles"], "disagreeing_cases": len(real_dis), "oracle_fails_on_impl": bool(rr["oracle"])},
                      no_input=not rr["oracle"], suffix="corr")
    if unit_bad:
        res.violation("model and implementation disagree on %s" % unit_bad[0][0],
                      {"kind": "correspondence-unit", "correspondence": TIE_NAME, "unit": unit_bad[0][0], "input": unit_bad[0][1], "observed": unit_bad[0][2],
                       "disagreeing": len(unit_bad)}, no_input=True, suffix="unit")


def replay(res, path):
    obj = json.load(open(path))
    c = obj.get("case")
    if not c:
        print("replay file names no concrete case:", obj.get("summary"))
        return 1
    c = dict(c, id=0)
    c["cycles"] = [[tuple(o) for o in ocs] for ocs in c["cycles"]]
    c.setdefault("soon", [False] * len(c["cycles"]))
    translate_params()
    out = run_impl([c], "replay")
    r = eval_cases([c], out["cases"], "Replay_C09")
    last = out["cases"][0]["cycles"][-1]
    print("before:", out["cases"][0]["before"])
    print("visible after:", last["visible"], "| manifests:", last["manifests"], "| files:", [f["name"] for f in last["files"]])
    print("model disagrees:", bool(r["agree"]), "| oracle fails on implementation:", bool(r["oracle"]), "| model predicts failure:", bool(r["moracle"]))
    return 1 if (r["agree"] or r["oracle"]) else 0
