"""C24 - The replicated WAL stream is ordered, gap-free and authenticated.

Proof: coq/theories/Repl.  Receiver (receiveLoop) against EVERY wire adversary under the
idealised MAC: C24_applied_sound; unedited stream: C24_gap_free_when_ordered.  Writer side as
an interleaving system over any number of threads (wal hook -> Sender.Replicate assign ->
enqueue, distribution loop): C24_writer_seq_exactly_once for all schedules;
C24_writer_order_refuted + C24_healthy_connection_dropped for the code as it is (assignment
and channel send are two steps); C24_writer_order_guarded (exclusive schedules),
C24_writer_order_fixed and C24_complete for the corrected protocol.

Tie: the real wal.Writer hook + Sender + Receiver over net.Pipe.  Schedule points are inserted
into the CURRENT wal.go / sender.go by an overlay rewrite, the harness forces the real
goroutines through the schedule of each case, a frame-rewriting adversary edits the wire, the
real receiveLoop consumes it; frames, queue remainder, drop reports, applyEntry calls, final
lastSeq and drop reason are compared with the model inside Coq (case_agrees) and the spec
oracles are evaluated on the implementation's outputs (case_oracle_sound / case_oracle_order).
Whether the implementation serialises assign+enqueue is PROBED on every run with the
refutation witness: the racy model is used when the witness reproduces (KNOWN-FINDING), the
corrected model when the second writer blocks behind the first (fix applied).
"""
import hashlib
import json
import os
import random
import re
import time

import vlib
from vlib import cz, cn, cbool, clist, cbytes

PID = "C24"
AREA = "Repl"
P = "Arc.Repl.Props"
THEOREMS = [
    # primary: the protocol /repo implements since 0ff8801 (assign + enqueue in one critical section)
    (P, "C24_complete"), (P, "C24_writer_order_fixed"), (P, "C24_applied_sound"), (P, "C24_payload_integrity"),
    (P, "C24_applied_payloads_appended"), (P, "C24_gap_free_when_ordered"), (P, "C24_writer_seq_exactly_once"),
    (P, "C24_checkpoint_binds"), (P, "C24_unforgeable_covers_edits"),
    # tie lemmas
    (P, "C24_case_in_domain"), (P, "C24_oracle_meaning"), (P, "C24_agreeing_receiver_is_sound"),
    # statements about the previous variant (assignment and channel send as two steps)
    (P, "C24_writer_order_refuted"), (P, "C24_healthy_connection_dropped"), (P, "C24_writer_order_guarded")]
MODULES = [P]
TIE_NAME = ("C24 correspondence (wal.Writer hook + replication.Sender + Receiver.receiveLoop under forced schedules "
            "and a frame-rewriting adversary vs Arc.Repl.Model.run_sched/send_all/recv)")
SIGNATURE = "writers-overlap-between-sequence-assignment-and-enqueue"

SENDER = "internal/cluster/replication/sender.go"
WALGO = "internal/wal/wal.go"
AUTH = "internal/cluster/security/auth.go"
COORD = "internal/cluster/coordinator.go"
RECEIVER = "internal/cluster/replication/receiver.go"
PKG = "./internal/cluster/replication/"

DIST = -1


# ---------------------------------------------------------------------------------------
# overlay: schedule points and clock, generated from the CURRENT sources
# ---------------------------------------------------------------------------------------

def rewrite_re(rel, subs):
    """Regex rewrites [(pattern, replacement, min_count, what)] of REPO/rel -> .work/gen/C24/rel."""
    text = open(os.path.join(vlib.REPO, rel)).read()
    for pat, repl, mincount, what in subs:
        text, n = re.subn(pat, repl, text)
        if n < mincount:
            raise vlib.TieBroken("overlay anchor for %s not found in %s (found %d, need %d)" % (what, rel, n, mincount))
    return vlib.gen_file(os.path.join(PID, rel), text)


def build_overlay():
    ov = {}
    ov[SENDER] = rewrite_re(SENDER, [
        # between the sequence assignment and the channel send of Sender.Replicate
        (r"(\n[ \t]*\w+\.Sequence = s\.sequence\.Add\(1\)[^\n]*\n)", r'\1\tverifPoint("after-assign")\n', 1,
         "sequence assignment in Sender.Replicate"),
        # top of the distribution loop
        (r"(func \(s \*Sender\) distributionLoop\(\) \{\n(?:[^\n]*\n)*?\tfor \{\n)", r'\1\t\tverifPoint("dist-loop")\n', 1,
         "loop of Sender.distributionLoop"),
    ])
    ov[WALGO] = rewrite_re(WALGO, [
        # after the sequence assignment under w.mu, before the hook is called (AppendRaw, AppendRawWithMeta)
        (r"(\n[ \t]*w\.sequence\+\+\n(?:[^\n]*\n){0,4}?[ \t]*w\.mu\.Unlock\(\)\n)", r'\1\t\tverifPoint("wal-after-assign")\n', 2,
         "sequence assignment of the replication hook in wal.AppendRaw*"),
    ])
    ov[AUTH] = rewrite_re(AUTH, [(r"time\.Now\(\)", "verifNow()", 1, "time.Now() in security/auth.go")])
    ov["internal/wal/zz_c24_walpoint_verif.go"] = os.path.join(vlib.ROOT, "harness/repl/walpoint_verif.go")
    ov["internal/cluster/security/zz_c24_secclock_verif.go"] = os.path.join(vlib.ROOT, "harness/repl/secclock_verif.go")
    ov["internal/cluster/replication/zz_c24_repl_verif_test.go"] = os.path.join(vlib.ROOT, "harness/repl/repl_verif_test.go")
    return ov


def check_wiring():
    """The harness re-composes two things that live outside package replication; check
    that the source still composes them the same way."""
    coord = open(os.path.join(vlib.REPO, COORD)).read()
    pat = (r"SetReplicationHook\(func\(\w+ \*wal\.ReplicationEntry\) \{\s*c\.replicationSender\.Replicate\(&replication\.ReplicateEntry\{"
           r"\s*Sequence:\s*\w+\.Sequence,\s*TimestampUS:\s*\w+\.TimestampUS,\s*Payload:\s*\w+\.Payload,\s*\}\)\s*\}\)")
    if not re.search(pat, coord):
        raise vlib.TieBroken("coordinator.go no longer wires walWriter.SetReplicationHook -> replicationSender.Replicate the way the harness does")
    recv = open(os.path.join(vlib.REPO, RECEIVER)).read()
    m = re.search(r"security\.ValidateReplicationCheckpointHMAC\(([^)]*)\)", recv, re.S)
    if not m or "security.HMACTimestampTolerance" not in m.group(1):
        raise vlib.TieBroken("receiver.go no longer validates checkpoints with security.HMACTimestampTolerance")


def tolerance_seconds():
    v = vlib.go_eval_consts([("tol", AUTH, "HMACTimestampTolerance")])["tol"]
    return v // 10 ** 9


def run_harness(cases, tag):
    ov = build_overlay()
    d = os.path.join(vlib.WORK, "cases", PID)
    os.makedirs(d, exist_ok=True)
    cin, cout = os.path.join(d, tag + "_in.json"), os.path.join(d, tag + "_out.json")
    json.dump(cases, open(cin, "w"))
    if os.path.exists(cout):
        os.remove(cout)
    rc, out = vlib.go_test(PKG, "^TestVerifRepl$", overlay=ov, env={"VERIF_CASES": cin, "VERIF_OUT": cout},
                           name=PID + "_" + tag, timeout=1200)
    if rc != 0 or not os.path.exists(cout):
        raise vlib.TieBroken("C24 harness failed against the current source (rc=%d):\n%s" % (rc, out[-3000:]))
    res = json.load(open(cout))
    if len(res) != len(cases):
        raise vlib.TieBroken("C24 harness returned %d results for %d cases" % (len(res), len(cases)))
    for r in res:                                   # Go nil slices arrive as null
        for k in ("events", "frames", "chan", "dropped", "wire", "skipped_ops", "atts", "blocked_in", "assigned"):
            if r.get(k) is None:
                r[k] = []
        if r.get("other_tags") is None:
            r["other_tags"] = {}
    return res


# ---------------------------------------------------------------------------------------
# case generation (python only decides WHICH enabled step comes next; the model is Coq's)
# ---------------------------------------------------------------------------------------

def steps_of(kind, atomic):
    n = 1 if kind == "direct" else 2
    return n if atomic else n + 1


def gen_schedule(rng, writers, cap, atomic, shape):
    """Returns a schedule (list of thread indices / DIST) in which every writer finishes."""
    left = [steps_of(w["kind"], atomic) for w in writers]
    chan = 0
    sched = []

    def step(i):
        nonlocal chan
        if i == DIST:
            chan -= 1
        else:
            left[i] -= 1
            if left[i] == 0 and chan < cap:       # the last step of a writer is the channel send
                chan += 1
        sched.append(i)

    n = len(writers)
    if shape == "sequential":
        order = list(range(n))
        rng.shuffle(order)
        for i in order:
            while left[i]:
                step(i)
            if chan and rng.random() < 0.5:
                step(DIST)
    elif shape == "assign_first":
        # everybody assigns, then the enqueues happen in another order
        order = list(range(n))
        rng.shuffle(order)
        for i in order:
            while left[i] > 1:
                step(i)
        rng.shuffle(order)
        if rng.random() < 0.5:
            order.reverse()
        for i in order:
            step(i)
            if chan and rng.random() < 0.3:
                step(DIST)
    else:
        pd = {"random": 0.25, "starved": 0.05, "eager": 0.6}[shape]
        while any(left):
            if chan and rng.random() < pd:
                step(DIST)
                continue
            live = [i for i in range(n) if left[i]]
            step(rng.choice(live))
    r = rng.random()
    if r < 0.7:
        while chan:
            step(DIST)
    elif r < 0.85:
        for _ in range(rng.randint(0, chan)):
            step(DIST)
    return sched


def rand_payload(rng):
    r = rng.random()
    if r < 0.08:
        return b""
    if r < 0.75:
        n = rng.randint(1, 6)
    elif r < 0.95:
        n = rng.randint(7, 24)
    else:
        n = rng.randint(25, 96)
    return bytes(rng.randrange(256) for _ in range(n))


JUNK_TAGS = ["", "abcd", "00112233445566778", "zzzzzzzzzzzzzzzz", "0123456789abcdef", "00000000000000000000"]


def frame_layout(c):
    """Indices of entry frames and checkpoint frames the unedited stream will have (python mirror:
    number of distribution steps, one checkpoint after every `interval` entries)."""
    nsent = sum(1 for s in sanitize(c)["sched"] if s == DIST)
    ent, cps, pos = [], [], 0
    for k in range(1, nsent + 1):
        ent.append(pos)
        pos += 1
        if k % max(c["interval"], 1) == 0:
            cps.append(pos)
            pos += 1
    return ent, cps, pos


CP_KINDS = ("cp_set", "cp_from", "cp_replay")


def gen_edits(rng, c):
    ent, cps, nframes = frame_layout(c)
    ops = []
    k = rng.choice([1, 1, 1, 2, 2, 3])
    hi = max(nframes, 1)
    for _ in range(k):
        i, j = rng.randrange(hi), rng.randrange(hi + 1)
        kind = rng.choice(["drop", "dup", "swap", "move", "flip_payload", "set_seq", "tag", "tag_upper", "tag_from",
                           "tag_other_session", "raw_flip", "raw_truncate", "set_type", "insert_raw", "insert_broken",
                           "cp_set", "cp_set", "cp_from", "cp_replay", "truncate", "set_payload", "set_ts", "dup_adjacent"])
        if kind in CP_KINDS and cps and rng.random() < 0.9:
            i = rng.choice(cps)
            if kind == "cp_from" and rng.random() < 0.7:
                j = rng.choice(cps)
        elif kind in ("flip_payload", "set_seq", "tag", "tag_upper", "tag_from", "tag_other_session", "set_payload", "set_ts") and ent and rng.random() < 0.9:
            i = rng.choice(ent)
            if kind == "tag_from" and rng.random() < 0.7:
                j = rng.choice(ent)
        if kind == "dup_adjacent":
            ops.append({"op": "dup", "i": i, "j": i + 1})
        elif kind == "cp_replay":
            # replay a checkpoint later in the stream
            ops.append({"op": "dup", "i": i, "j": rng.randrange(i, hi + 1)})
        elif kind in ("drop", "tag_upper", "tag_other_session", "raw_truncate"):
            ops.append({"op": kind, "i": i})
        elif kind in ("dup", "swap", "move", "tag_from"):
            ops.append({"op": kind, "i": i, "j": j})
        elif kind == "truncate":
            ops.append({"op": kind, "i": i})
        elif kind == "flip_payload":
            ops.append({"op": kind, "i": i, "k": rng.randrange(64), "j": rng.randrange(8)})
        elif kind == "set_payload":
            ops.append({"op": kind, "i": i, "v": rand_payload(rng).hex()})
        elif kind == "set_seq":
            ops.append({"op": kind, "i": i, "n": rng.choice([0, 1, 2, 3, 5, 17, 2 ** 63, 2 ** 64 - 1, rng.randrange(1, 20)])})
        elif kind == "set_ts":
            ops.append({"op": kind, "i": i, "n": rng.randrange(2 ** 40)})
        elif kind == "tag":
            ops.append({"op": kind, "i": i, "v": rng.choice(JUNK_TAGS)})
        elif kind == "raw_flip":
            ops.append({"op": kind, "i": i, "k": rng.randrange(400), "j": rng.randrange(8)})
        elif kind == "set_type":
            ops.append({"op": kind, "i": i, "k": rng.choice([0x10, 0x11, 0x12, 0x13, 0x14, 0x1F, 0x00, 0x7E])})
        elif kind == "insert_raw":
            ty, body = rng.choice([(0x1F, '{"code":"BUFFER_FULL","message":"x"}'), (0x1F, '{"code":'), (0x11, '{"last_seq":1,"reader_id":"r"}'),
                                   (0x10, '{"seq":1,"ts":1,"payload":"AA=="}'), (0x10, '{"seq":-1}'), (0x10, '{"seq":"x"}'),
                                   (0x14, '{"last_seq":"x"}'), (0x14, '{}'), (0x42, ''), (0x10, '')])
            ops.append({"op": kind, "j": j, "k": ty, "v": body})
        elif kind == "insert_broken":
            ops.append({"op": kind, "j": j, "v": rng.choice(["zero", "huge"])})
        elif kind == "cp_set":
            f = rng.choice(["cluster", "sender", "nonce", "hash", "hash", "hmac", "last_seq", "timestamp", "hash_upper"])
            op = {"op": kind, "i": i, "field": f}
            if f == "cluster":
                op["v"] = rng.choice(["other-cluster", "verif-cluster", ""])
            elif f in ("sender", "nonce"):
                op["v"] = rng.choice(["x", "writer-2", ""])
            elif f == "hash":
                op["v"] = rng.choice(["", "ab" * 31, "ab" * 32, "zz" * 32, "0" * 65])
            elif f == "hmac":
                op["v"] = rng.choice(["", "00" * 32, "zz"])
            elif f == "last_seq":
                op["n"] = rng.randrange(0, 12)
            elif f == "timestamp":
                op["n"] = rng.choice([0, 1_700_000_000, int(time.time()) + rng.choice([-1000, 1000])])
            ops.append(op)
        elif kind == "cp_from":
            ops.append({"op": kind, "i": i, "j": j, "field": rng.choice(["hash", "hmac", "nonce", "last_seq", "timestamp"])})
    return ops


def gen_case(rng, cid, atomic):
    r = rng.random()
    n = 1 if r < 0.08 else (2 if r < 0.3 else (rng.randint(3, 6) if r < 0.85 else rng.randint(7, 16)))
    writers = []
    pool = [rand_payload(rng) for _ in range(max(2, n))]
    for i in range(n):
        kind = rng.choice(["direct", "direct", "wal", "wal", "walmeta"])
        p = rng.choice(pool) if rng.random() < 0.12 else rand_payload(rng)
        w = {"kind": kind, "db": "", "payload": p.hex()}
        if kind == "walmeta":
            w["db"] = rng.choice(["db", "metrics", "a", "", "x" * 40])
        writers.append(w)
    cap = rng.choice([1, 1, 2, 3, 4, 8, 64, 10000])
    interval = rng.choice([1, 2, 2, 3, 3, 5, 8, 1024])
    shape = rng.choice(["random", "random", "assign_first", "sequential", "sequential", "sequential", "starved", "eager"])
    sched = gen_schedule(rng, writers, cap, atomic, shape)
    honest = rng.random() < 0.35
    edits = [] if honest else gen_edits(rng, {"atomic": atomic, "cap": cap, "interval": interval, "writers": writers, "sched": sched})
    recv = {"last0": 0, "key": "same", "secret": "same", "cluster": "same", "skew": 0, "outcomes": [], "localwal": rng.random() < 0.3}
    r = rng.random()
    if r < 0.10:
        recv["last0"] = rng.choice([1, 2, 3, n, 2 ** 40])
    r = rng.random()
    if r < 0.04:
        recv["key"] = "other"
    elif r < 0.07:
        recv["secret"] = "other"
    elif r < 0.10:
        recv["cluster"] = "other"
    if recv["key"] == "other":
        # a tag computed under the RECEIVER's session key would be a forgery, outside the idealised-MAC hypothesis
        edits = [e for e in edits if e["op"] != "tag_other_session"]
    if rng.random() < 0.15:
        recv["skew"] = rng.choice([200, -200, 400, -400, 100000])
    if rng.random() < 0.2:
        recv["outcomes"] = [rng.choice([0, 0, 0, 1, 2, 3]) for _ in range(rng.randint(1, n + 1))]
    return {"id": cid, "atomic": atomic, "cap": cap, "interval": interval, "writers": writers, "sched": sched,
            "edits": edits, "recv": recv, "shape": shape, "procs1": rng.random() < 0.35}


def witness_case(cid, atomic, probe=False):
    """The refutation witness of C24_writer_order_refuted / C24_healthy_connection_dropped."""
    c = {"id": cid, "atomic": atomic, "cap": 10, "interval": 1024,
         "writers": [{"kind": "direct", "db": "", "payload": "01"}, {"kind": "direct", "db": "", "payload": "02"}],
         "sched": [0, 1, 1, 0, DIST, DIST], "edits": [],
         "recv": {"last0": 0, "key": "same", "secret": "same", "cluster": "same", "skew": 0, "outcomes": [], "localwal": False},
         "shape": "witness"}
    if probe:
        c["step_ms"] = 1000
    return c


def seq_sched(writers, atomic, drain=True):
    sched = []
    for i, w in enumerate(writers):
        sched += [i] * steps_of(w["kind"], atomic)
    return sched + ([DIST] * len(writers) if drain else [])


def branch_cases(atomic):
    """One deterministic case per branch of receiveLoop / sendToReader / Replicate: four writers
    in sequence (direct, wal, walmeta, direct), interval 2 -> frames e1 e2 cp e3 e4 cp, then one
    edit (or one receiver configuration) aimed at the branch."""
    writers = [{"kind": "direct", "db": "", "payload": "aa01"}, {"kind": "wal", "db": "", "payload": "bb02bb"},
               {"kind": "walmeta", "db": "db", "payload": "cc03"}, {"kind": "direct", "db": "", "payload": ""}]
    recv0 = {"last0": 0, "key": "same", "secret": "same", "cluster": "same", "skew": 0, "outcomes": [], "localwal": False}
    out = []

    def add(edits=(), **rv):
        out.append({"id": 0, "atomic": atomic, "cap": 10, "interval": 2, "writers": writers, "sched": seq_sched(writers, atomic),
                    "edits": list(edits), "recv": dict(recv0, **rv), "shape": "branch"})

    add()
    for v in ["", "abcd", "zzzzzzzzzzzzzzzz", "0123456789abcdef", "\u00e9\u00e9\u00e9\u00e9\u00e9\u00e9\u00e9\u00e9"]:
        add([{"op": "tag", "i": 1, "v": v}])
    add([{"op": "tag_upper", "i": 1}])
    add([{"op": "tag_from", "i": 1, "j": 0}])
    add([{"op": "tag_other_session", "i": 1}])
    for n in (0, 1, 2, 7, 2 ** 64 - 1):
        add([{"op": "set_seq", "i": 1, "n": n}])
    add([{"op": "flip_payload", "i": 1, "k": 0, "j": 0}])
    add([{"op": "flip_payload", "i": 4, "k": 0, "j": 0}])            # empty payload gains a byte
    add([{"op": "set_payload", "i": 0, "v": ""}])
    add([{"op": "set_ts", "i": 0, "n": 12345}])                        # timestamp is not authenticated and not used
    add([{"op": "dup", "i": 0, "j": 1}])
    add([{"op": "dup", "i": 1, "j": 4}])
    add([{"op": "swap", "i": 0, "j": 1}])
    add([{"op": "swap", "i": 3, "j": 4}])
    add([{"op": "move", "i": 3, "j": 0}])
    add([{"op": "drop", "i": 0}])                                      # e2 accepted, checkpoint hash differs
    add([{"op": "drop", "i": 1}])                                      # checkpoint sequence differs
    add([{"op": "drop", "i": 2}])                                      # a lost checkpoint is harmless
    add([{"op": "drop", "i": 3}])
    add([{"op": "truncate", "i": 3}])
    add([{"op": "truncate", "i": 0}])
    for f, v in [("cluster", "other-cluster"), ("cluster", ""), ("sender", "writer-2"), ("nonce", "x"), ("hash", ""), ("hash", "ab" * 31),
                 ("hash", "zz" * 32), ("hash", "ab" * 32), ("hash", "0" * 65), ("hmac", ""), ("hmac", "00" * 32), ("hmac", "zz"), ("hash_upper", "")]:
        add([{"op": "cp_set", "i": 2, "field": f, "v": v}])
    for f, n in [("last_seq", 1), ("last_seq", 3), ("last_seq", 0), ("timestamp", 1_700_000_000), ("timestamp", 0)]:
        add([{"op": "cp_set", "i": 2, "field": f, "n": n}])
    for f in ("hash", "hmac", "nonce", "last_seq", "timestamp"):
        add([{"op": "cp_from", "i": 2, "j": 5, "field": f}])
        add([{"op": "cp_from", "i": 5, "j": 2, "field": f}])
    add([{"op": "dup", "i": 2, "j": 3}])                               # checkpoint replayed at once: accepted
    add([{"op": "dup", "i": 2, "j": 6}])                               # replayed later: stale
    add([{"op": "dup", "i": 2, "j": 0}])
    add([{"op": "move", "i": 5, "j": 3}])
    add([{"op": "swap", "i": 2, "j": 5}])
    for ty, body in [(0x1F, '{"code":"BUFFER_FULL","message":"x"}'), (0x1F, '{"code":'), (0x11, '{"last_seq":1,"reader_id":"r"}'), (0x12, '{}'),
                     (0x13, '{}'), (0x42, ''), (0x00, '{}'), (0x10, '{"seq":3,"ts":1,"payload":"AA=="}'), (0x10, '{"seq":-1}'), (0x10, '{"seq":"x"}'),
                     (0x10, ''), (0x10, '{"seq":3,"payload":"AA==","tag":"0011223344556677"}'), (0x14, '{"last_seq":"x"}'), (0x14, '{}'), (0x14, '')]:
        add([{"op": "insert_raw", "j": 1, "k": ty, "v": body}])
    add([{"op": "insert_raw", "j": 6, "k": 0x14, "v": '{}'}])
    for v in ("zero", "huge"):
        add([{"op": "insert_broken", "j": 1, "v": v}])
        add([{"op": "insert_broken", "j": 0, "v": v}])
    add([{"op": "raw_truncate", "i": 1}])
    add([{"op": "raw_truncate", "i": 2}])
    for ty in (0x14, 0x1F, 0x11, 0x7E):
        add([{"op": "set_type", "i": 1, "k": ty}])
    add([{"op": "set_type", "i": 2, "k": 0x10}])
    for l0 in (1, 2, 4, 2 ** 40, 2 ** 64 - 1):
        add(last0=l0)
    add(key="other")
    add(secret="other")
    add(cluster="other")
    for sk in (200, -200, 400, -400, 100000):
        add(skew=sk)
    add(outcomes=[3])
    add(outcomes=[0, 3])                                               # failed apply right before a checkpoint
    add(outcomes=[3, 3, 3, 3])
    add(outcomes=[2], localwal=True)
    add(outcomes=[1, 1], localwal=True)
    add(outcomes=[0, 3, 0, 2], localwal=True)
    add([{"op": "dup", "i": 0, "j": 1}], outcomes=[3, 0])             # failed apply, the adversary replays the same frame
    add([{"op": "dup", "i": 1, "j": 2}], outcomes=[0, 3, 0])
    # buffer full: capacity 1, nothing distributed until the end
    w3 = [{"kind": "direct", "db": "", "payload": "01"}, {"kind": "wal", "db": "", "payload": "02"}, {"kind": "walmeta", "db": "", "payload": "03"}]
    for cap, interval in ((1, 1), (2, 1), (1, 1024)):
        out.append({"id": 0, "atomic": atomic, "cap": cap, "interval": interval, "writers": w3, "sched": seq_sched(w3, atomic, drain=False) + [DIST] * min(cap, 3),
                    "edits": [], "recv": dict(recv0), "shape": "branch"})
    out.append({"id": 0, "atomic": atomic, "cap": 1, "interval": 1, "writers": w3, "sched": seq_sched(w3, atomic, drain=False),
                "edits": [], "recv": dict(recv0), "shape": "branch"})
    return out


def aliasing_cases(atomic):
    """Value semantics of a queued entry: the link is slow (the distribution loop is held) while
    several appends of same-size, different payloads go through; only then the queue is drained.
    A queued entry that aliases a buffer the writer path reuses shows up as a wire/applied payload
    that was never appended under that sequence (case_oracle_payload).  Run on one P so that a
    recycled buffer (sync.Pool) is actually handed to the next append."""
    recv0 = {"last0": 0, "key": "same", "secret": "same", "cluster": "same", "skew": 0, "outcomes": [], "localwal": False}
    out = []
    for kinds, size, interval, db in [(["walmeta"] * 2, 4, 1024, "db"), (["walmeta"] * 3, 8, 2, "db"), (["walmeta"] * 5, 16, 1024, "metrics"),
                                      (["walmeta", "wal", "walmeta", "direct", "walmeta"], 6, 3, "db"), (["wal"] * 3, 5, 1024, ""),
                                      (["direct"] * 3, 5, 2, ""), (["walmeta"] * 4, 1, 1, ""), (["walmeta"] * 8, 32, 4, "a")]:
        ws = [{"kind": k, "db": db if k == "walmeta" else "", "payload": bytes([0x10 * (i + 1) + j for j in range(size)]).hex()}
              for i, k in enumerate(kinds)]
        for procs1 in (True, False):
            out.append({"id": 0, "atomic": atomic, "cap": 64, "interval": interval, "writers": ws, "sched": seq_sched(ws, atomic),
                        "edits": [], "recv": dict(recv0), "shape": "aliasing", "procs1": procs1})
    return out


def corpus_cases(atomic, start):
    out = []
    d = os.path.join(vlib.ROOT, "corpus", PID)
    if os.path.isdir(d):
        for fn in sorted(os.listdir(d)):
            if fn.endswith(".json"):
                c = json.load(open(os.path.join(d, fn)))
                c = c.get("case", c)
                if c.get("atomic", False) != atomic:
                    continue            # schedules are written for one step structure
                c = dict(c, id=start + len(out), corpus=fn)
                out.append(c)
    return out


# ---------------------------------------------------------------------------------------
# observation -> Coq term
# ---------------------------------------------------------------------------------------

def is_hex(s):
    return re.fullmatch(r"[0-9a-fA-F]*", s) is not None and len(s) % 2 == 0


def blen(s):
    """Go len(string): bytes of the UTF-8 encoding"""
    return len(s.encode("utf-8", "surrogatepass"))


class Mapper:
    """Interprets the byte-level observations in the vocabulary of the idealised model: a tag /
    digest / MAC string is mapped to the computation that produced it during phase 1.
    Byte strings are let-bound once per case (b0, b1, ...) and cumulative contents are printed
    as concatenations of them, so the Coq term stays linear in the size of the run."""

    def __init__(self, r):
        self.ids = {"cluster": {"verif-cluster": 1, "other-cluster": 2}, "sender": {"writer-1": 1}, "nonce": {}}
        self.tags, self.hashes, self.macs = {}, {}, {}
        self.names, self.defs = {}, []
        self.problems = []
        cum, pieces = b"", []
        for f in r["frames"]:
            if f["type"] == 0x10 and f["parse_ok"]:
                p = bytes.fromhex(f["payload"])
                cum += p
                pieces.append(p)
                t = f["tag"]
                if len(t) == 16 and is_hex(t):
                    old = self.tags.get(t.lower())
                    if old and old != (1, f["seq"], p):
                        self.problems.append("one tag for two entries: %s" % t)
                    self.tags[t.lower()] = (1, f["seq"], p)
            elif f["type"] == 0x14 and f["parse_ok"]:
                cp = f["cp"]
                h = cp["hash"]
                if len(h) == 64 and is_hex(h) and hashlib.sha256(cum).hexdigest() == h.lower():
                    self.hashes[h.lower()] = tuple(pieces)
                if is_hex(cp["hmac"]) and cp["hmac"]:
                    self.macs[cp["hmac"].lower()] = (1, self.intern("nonce", cp["nonce"]), self.intern("sender", cp["sender"]),
                                                     self.intern("cluster", cp["cluster"]), tuple(pieces), cp["last_seq"], cp["timestamp"])
        for t, e in (r.get("other_tags") or {}).items():
            self.tags.setdefault(t.lower(), (2, e["seq"], bytes.fromhex(e["payload"])))

    def b(self, bs):
        if not bs:
            return "(@nil N)"
        if bs not in self.names:
            self.names[bs] = "b%d" % len(self.names)
            self.defs.append((self.names[bs], cbytes(bs)))
        return self.names[bs]

    def cat(self, pieces):
        ns = [self.b(p) for p in pieces if p]
        if not ns:
            return "(@nil N)"
        return ns[0] if len(ns) == 1 else "(" + " ++ ".join(ns) + ")"

    def intern(self, kind, s):
        tab = self.ids[kind]
        if s not in tab:
            tab[s] = max(list(tab.values()) + [2]) + 1
        return tab[s]

    def tag(self, t):
        if t == "":
            return "TagMissing"
        if blen(t) != 16:
            return "TagBadLen"
        if not is_hex(t):
            return "TagBadHex"
        k = self.tags.get(t.lower())
        if not k:
            return "TagJunk"
        return "(TagMac %s %s %s)" % (cn(k[0]), cz(k[1]), self.b(k[2]))

    def hashv(self, h):
        if blen(h) != 64:
            return "HashBadLen"
        if not is_hex(h):
            return "HashBadHex"
        c = self.hashes.get(h.lower())
        return "(HashOf %s)" % self.cat(c) if c is not None else "HashJunk"

    def mac(self, m):
        k = self.macs.get(m.lower()) if (m and is_hex(m)) else None
        if not k:
            return "MacJunk"
        return "(MacOf %s %s %s %s %s %s %s)" % (cn(k[0]), cn(k[1]), cn(k[2]), cn(k[3]), self.cat(k[4]), cz(k[5]), cz(k[6]))

    def frame(self, f):
        if f.get("broken"):
            return "FBroken"
        ty = f["type"]
        if ty == 0x10:
            if not f["parse_ok"]:
                return "FEntryBad"
            return "(FEntry %s %s %s)" % (cz(f["seq"]), self.b(bytes.fromhex(f["payload"])), self.tag(f["tag"]))
        if ty == 0x14:
            if not f["parse_ok"]:
                return "FCpBad"
            cp = f["cp"]
            return "(FCp (mkCp %s %s %s %s %s %s %s))" % (
                cn(self.intern("cluster", cp["cluster"])), cn(self.intern("sender", cp["sender"])), cn(self.intern("nonce", cp["nonce"])),
                cz(cp["last_seq"]), self.hashv(cp["hash"]), cz(cp["timestamp"]), self.mac(cp["hmac"]))
        if ty == 0x1F:
            return "(FErr %s)" % cbool(f["parse_ok"])
        return "FOther"

    def meta(self, r):
        out = []
        for f in r["frames"]:
            if f["type"] == 0x14 and f["parse_ok"]:
                out.append("(%s, %s)" % (cn(self.intern("nonce", f["cp"]["nonce"])), cz(f["cp"]["timestamp"])))
        return out


REASONS = {"closed": "RClosed", "closed_unknown": "RClosed", "parse": "RParse", "tag_missing": "RTagMissing", "tag_len": "RTagLen",
           "tag_hex": "RTagHex", "tag_mac": "RTagMac", "seq": "RSeq", "cp_parse": "RCpParse", "cp_cluster": "RCpCluster",
           "cp_seq": "RCpSeq", "cp_hash_len": "RCpHashLen", "cp_hash_hex": "RCpHashHex", "cp_hash": "RCpHash", "cp_mac": "RCpMac",
           "err_parse": "RErrParse", "err_frame": "RErrFrame", "other": "ROther"}


def case_to_coq(c, r, tol):
    m = Mapper(r)
    progs = []
    for w in c["writers"]:
        p = m.b(bytes.fromhex(w["payload"]))
        if w["kind"] == "direct":
            progs.append("(mkProg KDirect %s)" % p)
        elif w["kind"] == "wal":
            progs.append("(mkProg KWal %s)" % p)
        else:
            progs.append("(mkProg (KWalMeta %s) %s)" % (m.b(w["db"].encode()), p))
    sched = ["SD" if s == DIST else "(SW %d)" % s for s in c["sched"]]
    rc = c["recv"]
    key = 1 if rc["key"] == "same" else 2
    sec = 1 if rc["secret"] == "same" else 2
    clu = 1 if rc["cluster"] == "same" else 2
    reason = r["reason"]
    oreason = "(OReason %s)" % REASONS[reason] if reason in REASONS else "ODropUnknown"
    atts = ["(%s, %s, %s)" % (cz(a["pre"]), m.b(bytes.fromhex(a["payload"])), cbool(a["ok"])) for a in (r["atts"] or [])]
    fields = [
        cbool(c["atomic"]), cz(c["cap"]), "(mkS 1 1 1 1 %s)" % cz(c["interval"]),
        clist(progs), clist(sched), clist(m.meta(r)),
        clist([m.frame(f) for f in (r["frames"] or [])]),
        clist(["(mkEntry %s %s)" % (cz(e["seq"]), m.b(bytes.fromhex(e["payload"]))) for e in (r["chan"] or [])]),
        clist([cz(x) for x in (r["dropped"] or [])]), cz(r["walseq"]), cz(r["nextseq"]),
        clist([cz(x) for x in (list(r.get("assigned") or []) + [0] * len(c["writers"]))[:len(c["writers"])]]),
        "(mkR %s %s %s %s %s)" % (cn(key), cn(sec), cn(clu), cz(r["now"]), cz(tol)),
        cz(rc["last0"]), clist([cbool(o in (0, 1)) for o in rc["outcomes"]]),
        cbool(not c["edits"]), clist([m.frame(f) for f in (r["wire"] or [])]),
        clist(atts), cz(r["last"]), oreason, cz(r["used"]), cz(r["errors"]),
    ]
    lets = "".join("let %s := %s in\n  " % d for d in m.defs)
    return "(" + lets + "mkCase " + "\n  ".join(fields) + ")", m.problems


HEADER = ("From Coq Require Import List ZArith NArith Bool.\nFrom Arc Require Import Repl.Model.\nImport ListNotations.\n"
          "Open Scope Z_scope.\n")
PREDS = {"agree": "case_agrees", "sound": "case_oracle_sound", "order": "case_oracle_order", "excl": "case_exclusive",
         "queue": "case_queue_increasing", "dom": "case_unforgeable", "payload": "case_oracle_payload"}
PREDS_DIAG = dict(PREDS, writer="writer_agrees", receiver="receiver_agrees")


def evaluate(cases, results, tol, name, preds=None):
    """-> per predicate, the set of indices (into cases) where it is FALSE; harness-level errors."""
    terms, idx, errors = [], [], []
    for i, (c, r) in enumerate(zip(cases, results)):
        if r.get("error") or r.get("blocked_at", -1) >= 0:
            errors.append((i, r.get("error") or "schedule step %d blocked" % r["blocked_at"]))
            continue
        t, problems = case_to_coq(c, r, tol)
        if problems:
            errors.append((i, "; ".join(problems)))
            continue
        terms.append(t)
        idx.append(i)
    preds = preds or PREDS
    out = {k: set() for k in preds}
    if terms:
        # parsing the case terms dominates; evaluate a few chunks side by side
        from concurrent.futures import ThreadPoolExecutor
        step = max(60, min(400, (len(terms) + 3) // 4))
        offs = list(range(0, len(terms), step))

        def one(off):
            return off, vlib.coq_check_cases(PID, HEADER, "ccase", terms[off:off + step], preds, chunk=step, name="%s_p%d" % (name, off))
        with ThreadPoolExecutor(max_workers=4) as ex:
            for off, res in ex.map(one, offs):
                for k, lst in res.items():
                    out[k] |= {idx[off + j] for j in lst}
    return out, errors


# ---------------------------------------------------------------------------------------
# shrinking
# ---------------------------------------------------------------------------------------

def sanitize(c):
    """Drop distribution steps that are not enabled (python mirror of the channel length)."""
    left = [steps_of(w["kind"], c["atomic"]) for w in c["writers"]]
    chan, out = 0, []
    for s in c["sched"]:
        if s == DIST:
            if chan == 0:
                continue
            chan -= 1
        else:
            if s >= len(left) or left[s] == 0:
                continue
            left[s] -= 1
            if left[s] == 0 and chan < c["cap"]:
                chan += 1
        out.append(s)
    return dict(c, sched=out)


def drop_thread(c, i):
    d = dict(c)
    d["writers"] = c["writers"][:i] + c["writers"][i + 1:]
    d["sched"] = [s if (s == DIST or s < i) else s - 1 for s in c["sched"] if s != i]
    return sanitize(d)


def shrink_case(c, fails, budget=10):
    """Greedy: remove edits, then whole writer threads, then trailing distribution steps."""
    cur = c
    used = 0
    changed = True
    while changed and used < budget:
        changed = False
        cands = [dict(cur, edits=cur["edits"][:i] + cur["edits"][i + 1:]) for i in range(len(cur["edits"]))]
        cands += [drop_thread(cur, i) for i in range(len(cur["writers"])) if len(cur["writers"]) > 1]
        for cand in cands:
            if used >= budget:
                break
            used += 1
            try:
                if fails(cand):
                    cur, changed = cand, True
                    break
            except (vlib.TieBroken, vlib.InfraError):
                continue
    return cur


# ---------------------------------------------------------------------------------------
# run
# ---------------------------------------------------------------------------------------

def probe_mode():
    """Run the refutation witness with the racy step structure.  Returns (atomic, result)."""
    r = run_harness([witness_case(0, False, probe=True)], "probe")[0]
    if r.get("error"):
        raise vlib.TieBroken("C24 probe failed: " + r["error"])
    if r["blocked_at"] >= 0:
        # serialised only on positive evidence: the second writer sits in a blocking wait state inside
        # Sender.Replicate while the first one is parked between assignment and enqueue
        if not r.get("blocked_in"):
            raise vlib.TieBroken("C24 probe inconclusive: step %d of the witness schedule did not complete and no goroutine is "
                                 "blocked inside Sender.Replicate" % r["blocked_at"])
        return True, r
    return False, r


def setup():
    build_overlay()
    check_wiring()


def warm():
    run_harness([], "warm")


def nontrivial(c, r):
    """>= 2 writer threads whose steps interleave, or >= 1 edit that took effect."""
    eff = len(c["edits"]) - len(r.get("skipped_ops") or [])
    if eff >= 1:
        return True
    seen, last = set(), None
    for s in c["sched"]:
        if s == DIST:
            continue
        if s != last and s in seen:
            return True
        seen.add(s)
        last = s
    return False


def run(res, tier, seed):
    rng = random.Random(seed * 7919 + 24)
    t0 = time.time()
    try:
        check_wiring()
        tol = tolerance_seconds()
    finally:
        res.stage("wiring_and_params", t0)
    res.cov["params"] = {"checkpoint_tolerance_s": tol}

    failed = vlib.std_proof_stage(res, PID, AREA, MODULES, THEOREMS)
    res.cov["trusted_base"] += [
        "HMAC-SHA256 / HKDF idealised: a per-entry tag verifies under a session key only for the (sequence, payload) it was computed over "
        "(8-byte truncation and the binding of only sha256(payload)[:8] are NOT modelled); a checkpoint MAC verifies only for the tuple it was computed over",
        "SHA-256 idealised as injective on the cumulative payload bytes",
        "encoding/json parse of frames is an oracle (the harness classifies edited frames with the package's own ParseEntry/ParseCheckpoint/ParseError)",
        "applyEntry is atomic success/failure (a LocalWAL write followed by an ingest failure counts as a failure); handshake and session-key agreement "
        "(coordinator.AcceptReplicationConnection, Receiver.connect) are not modelled: both ends are given the key",
        "coordinator.Start hook wiring is re-composed by the harness and checked textually against coordinator.go each run",
        "interleaving granularity: one step = one critical section / atomic / channel operation (w.mu section, s.sequence.Add, channel send, channel receive+broadcast)",
    ]

    if tier == "thorough":
        ok, _ = vlib.coqchk_stage(res, MODULES)
        if not ok:
            failed.append(("coqchk", "coqchk rejected Arc.Repl.Props or reported inadmissible axioms"))

    t1 = time.time()
    atomic, probe = probe_mode()
    res.stage("probe", t1)
    res.cov["implementation_serialises_assign_and_enqueue"] = atomic
    res.cov["probe"] = {"witness_wire_order": [f["seq"] for f in probe["frames"] if f["type"] == 0x10], "receiver_reason": probe.get("reason"),
                        "second_writer_blocked_in": probe.get("blocked_in")}

    n = 240 if tier == "quick" else 6000
    cases = [witness_case(0, atomic)] if not atomic else []
    cases += corpus_cases(atomic, len(cases))
    cases += branch_cases(atomic)
    cases += aliasing_cases(atomic)
    base = len(cases)
    cases += [gen_case(rng, base + i, atomic) for i in range(n)]
    for i, c in enumerate(cases):
        c["id"] = i
    t2 = time.time()
    results = []
    for off in range(0, len(cases), 1500):
        results += run_harness(cases[off:off + 1500], "%s_%d" % (tier, off))
    res.stage("impl_harness", t2)
    t3 = time.time()
    bad, errors = evaluate(cases, results, tol, "Cases_%s" % tier)
    res.stage("coq_eval", t3)

    known = [k for k in vlib.known_for(PID) if k.get("signature") == SIGNATURE]
    res.cov["evaluations"] = len(cases)
    keyset = {json.dumps({k: c.get(k) for k in ("cap", "interval", "writers", "sched", "edits", "recv", "procs1")}, sort_keys=True)
              for c, r in zip(cases, results) if nontrivial(c, r)}
    res.cov["distinct_nontrivial"] = len(keyset)
    res.cov["rule"] = ("forced writer schedules (1-16 goroutines through wal.AppendRaw / AppendRawWithMeta hook or Sender.Replicate, random payload sizes, "
                       "channel capacities 1..10000, checkpoint intervals 1..1024) followed by 0-3 wire edits and a receiver configuration; non-trivial = "
                       ">= 2 writer goroutines whose steps interleave, or >= 1 edit that took effect; distinct by (cap, interval, writers, schedule, edits, receiver config)")
    res.cov["model_vs_impl_disagreements"] = len(bad["agree"]) + len(errors)
    # cases outside the idealised-MAC hypothesis (the adversary held the receiver's key) are not judged
    outside = sorted(bad["dom"])
    res.cov["cases_outside_mac_hypothesis"] = len(outside)
    order_fail = sorted(bad["order"] - bad["dom"])
    sound_fail = sorted(bad["sound"] - bad["dom"])
    res.cov["oracle_failures"] = len(set(order_fail) | set(sound_fail) | bad["payload"])
    hist = {"writers": {}, "shape": {}, "edit_ops": {}, "reasons": {}, "non_exclusive_schedules": 0, "drops_reported": 0,
            "apply_failures": 0, "checkpoints_emitted": 0, "honest_wire": 0, "frames_on_wire": 0}
    for i, (c, r) in enumerate(zip(cases, results)):
        hist["writers"][str(len(c["writers"]))] = hist["writers"].get(str(len(c["writers"])), 0) + 1
        hist["shape"][c.get("shape", "?")] = hist["shape"].get(c.get("shape", "?"), 0) + 1
        for e in c["edits"]:
            hist["edit_ops"][e["op"]] = hist["edit_ops"].get(e["op"], 0) + 1
        hist["reasons"][r.get("reason", "")] = hist["reasons"].get(r.get("reason", ""), 0) + 1
        hist["non_exclusive_schedules"] += 1 if i in bad["excl"] else 0
        hist["drops_reported"] += len(r.get("dropped") or [])
        hist["apply_failures"] += sum(1 for a in (r.get("atts") or []) if not a["ok"])
        hist["checkpoints_emitted"] += sum(1 for f in (r.get("frames") or []) if f["type"] == 0x14)
        hist["honest_wire"] += 0 if c["edits"] else 1
        hist["frames_on_wire"] += len(r.get("wire") or [])
    res.cov["histogram"] = hist
    pick = [i for i in (0, len(cases) // 2, len(cases) - 1) if i < len(cases)]
    res.cov["samples"] = [{"case": {k: cases[i][k] for k in ("cap", "interval", "writers", "sched", "edits", "recv")},
                           "observed": {k: results[i].get(k) for k in ("events", "dropped", "nextseq", "walseq", "atts", "last", "reason", "used")}}
                          for i in pick]

    def fails_with(pred):
        def f(cand):
            cand = dict(cand, id=0)
            rr = run_harness([cand], "shrink")
            b, errs = evaluate([cand], rr, tol, "Shrink")
            return (not errs) and 0 in b[pred]
        return f

    def replay_obj(kind, c, r, extra=None):
        o = {"kind": kind, "correspondence": TIE_NAME, "case": {k: v for k, v in c.items() if k != "corpus"}, "observed": r,
             "how_to_replay": "python3 tools/check.py C24 --replay <this file>"}
        o.update(extra or {})
        return o

    reported = False
    # 1. harness-level errors: the real code could not be driven through the schedule
    for i, msg in errors[:1]:
        res.violation("harness could not drive case %d: %s" % (i, msg), replay_obj("harness-error", cases[i], results[i], {"detail": msg}),
                      no_input=True, suffix="harness")
        reported = True
    # 2a. payload integrity fails on the implementation's own output: concrete input
    payload_fail = sorted(bad["payload"])
    res.cov["payload_oracle_failures"] = len(payload_fail)
    for i in payload_fail[:2]:
        small = shrink_case(cases[i], fails_with("payload"), budget=6) if len(payload_fail) < 40 else cases[i]
        rr = run_harness([dict(small, id=0)], "shrink")[0]
        exp = {str(a): w for a, w in zip(rr.get("assigned") or [], small["writers"])}
        res.violation("an entry on the wire / applied by the receiver carries a payload that was never appended under its sequence "
                      "(a queued entry changed after Sender.Replicate accepted it)",
                      replay_obj("oracle-payload", small, rr, {"appended_by_sequence": exp,
                                 "wire_payload_by_sequence": {str(f["seq"]): f["payload"] for f in rr["frames"] if f["type"] == 0x10},
                                 "applied_payloads": [a["payload"] for a in rr["atts"] if a["ok"]]}), suffix="payload")
        reported = True
    # 2. soundness oracle fails on the implementation: always a violation, concrete input
    for i in ([] if reported else sound_fail[:2]):
        small = shrink_case(cases[i], fails_with("sound")) if len(sound_fail) < 40 else cases[i]
        rr = run_harness([dict(small, id=0)], "shrink")[0]
        res.violation("the real receiver/sender violated soundness (applied entry not sent / not strictly increasing / sequence not accounted for exactly once)",
                      replay_obj("oracle-sound", small, rr), suffix="sound")
        reported = True
    # 3. order/completeness oracle
    known_hits, unknown_order = [], []
    for i in order_fail:
        if (not atomic) and known and i in bad["excl"] and i in bad["queue"]:
            # signature matches (two writers inside the assign..enqueue window) and the failure IS the
            # mis-ordered queue the refuted model predicts for such schedules (C24_writer_order_guarded
            # excludes it for every other schedule); whether the rest of the run agrees with the model
            # is judged separately below
            known_hits.append(i)
        else:
            unknown_order.append(i)
    for i in ([] if reported else unknown_order[:2]):
        small = shrink_case(cases[i], fails_with("order")) if len(unknown_order) < 40 else cases[i]
        rr = run_harness([dict(small, id=0)], "shrink")[0]
        res.violation("queue order not increasing, or a healthy connection was dropped / did not apply every sent entry",
                      replay_obj("oracle-order", small, rr), suffix="order")
        reported = True
    if known_hits:
        w = results[0] if cases[0].get("shape") == "witness" else results[known_hits[0]]
        seqs = [f["seq"] for f in (w.get("frames") or []) if f["type"] == 0x10]
        res.known_finding("%s: concurrent writers interleave between s.sequence.Add(1) and the channel send of Sender.Replicate; "
                          "witness wire order %s, receiver dropped the healthy connection with reason '%s' after applying %d entry(ies) "
                          "(%d of %d schedules reproduce)" % (SIGNATURE, seqs, w.get("reason"), sum(1 for a in (w.get("atts") or []) if a["ok"]),
                                                              len(known_hits), len(cases)))
    res.cov["known_finding_cases"] = len(known_hits)
    # 4. model/implementation disagreement
    dis = sorted(bad["agree"])
    for i in ([] if reported else dis[:2]):
        small = shrink_case(cases[i], fails_with("agree")) if len(dis) < 60 else cases[i]
        rr = run_harness([dict(small, id=0)], "shrink")[0]
        b2, _ = evaluate([dict(small, id=0)], [rr], tol, "Shrink", PREDS_DIAG)
        oracle_bad = (0 in b2["sound"]) or (0 in b2["order"] and not ((not atomic) and known and 0 in b2["excl"]))
        res.violation("model and implementation disagree (%s side)" % ("writer" if 0 in b2["writer"] else "receiver"),
                      replay_obj("correspondence", small, rr, {"disagreeing_cases": len(dis), "oracle_fails_on_impl": oracle_bad,
                                                               "writer_side_disagrees": 0 in b2["writer"], "receiver_side_disagrees": 0 in b2["receiver"]}),
                      no_input=not oracle_bad, suffix="corr")
        reported = True
    # 5. proof obligations
    if failed and not reported:
        res.violation("proof obligation(s) no longer check: " + "; ".join(r for _, r in failed),
                      {"kind": "obligation-failed", "theorems": [t for t, _ in failed], "detail": [r for _, r in failed]},
                      no_input=True, suffix="obligation")
    # the refuted theorem speaks about the racy protocol; say so when the code has been corrected
    if atomic:
        res.notes.append("the probe shows assign+enqueue serialised in the implementation: correspondence ran against the corrected model "
                         "(atomic = true, theorems C24_writer_order_fixed / C24_complete apply); C24_writer_order_refuted describes the previous code")


def replay(res, path):
    obj = json.load(open(path))
    c = obj.get("case")
    if not c:
        print("replay file names no concrete case:", obj.get("summary"))
        return 1
    check_wiring()
    tol = tolerance_seconds()
    atomic, _ = probe_mode()
    c = dict(c, id=0)
    if c.get("atomic", False) != atomic:
        print("note: the case was recorded for atomic=%s, the implementation now probes atomic=%s" % (c.get("atomic"), atomic))
    r = run_harness([c], "replay")
    bad, errors = evaluate([c], r, tol, "Replay")
    known = [k for k in vlib.known_for(PID) if k.get("signature") == SIGNATURE]
    is_known = (not atomic) and known and 0 in bad["excl"] and 0 in bad["queue"] and 0 not in bad["agree"] and 0 not in bad["sound"]
    print("observed: wire order %s dropped %s | receiver applied %d, last %s, reason %s" % (
        [f["seq"] for f in (r[0].get("frames") or []) if f["type"] == 0x10], r[0].get("dropped"),
        sum(1 for a in (r[0].get("atts") or []) if a["ok"]), r[0].get("last"), r[0].get("reason")))
    print("model disagrees:", 0 in bad["agree"], "| soundness oracle fails:", 0 in bad["sound"],
          "| order/completeness oracle fails:", 0 in bad["order"], "| known finding:", bool(is_known and 0 in bad["order"]), "| harness errors:", errors)
    print("payload-integrity oracle fails:", 0 in bad["payload"])
    if errors or 0 in bad["agree"] or 0 in bad["sound"] or 0 in bad["payload"]:
        return 1
    if 0 in bad["order"]:
        return 1        # the property fails on this input (known or not)
    return 0
