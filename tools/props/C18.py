"""C18 - Partition pruning never changes query results.

Proof: coq/theories/Pruning (Cal.v: civil calendar, both round trips for all dates; Model.v:
WHERE AST, ExtractTimeRange as the code does it - regular expressions over the clause text,
first textual match per pattern, BETWEEN override, NOW() +/- INTERVAL, defaults 2020-01-01 and
now + 24 h - GeneratePartitionPaths with hour stepping, 1970 clamp, 50 000-path cap, day-level
paths, existence filter and fallbacks; Proofs/Props: coverage of [lo, hi) for all years,
soundness of pruning for conjunctions bounded on the real `time` column, refutation witnesses
for OR, NOT, other columns ending in time, missing bounds, inclusive end on an hour boundary,
rows before 1970).

Tie (every run): (1) the REAL ExtractTimeRange / GeneratePartitionPaths under a controlled clock
on generated WHERE clauses vs the model inside Coq (range and every generated path);
(2) the production path QueryHandler.convertSQLToStoragePaths -> buildReadParquetExpr ->
OptimizeTablePath over a REAL Parquet layout, executed by real DuckDB with pruning on and off;
the model must predict both row sets; differing sets must fall into an open known-finding class.
"""
import json
import os
import random
import re
import time
from datetime import datetime, timedelta, timezone

import vlib

AREA = "Pruning"
P = "Arc.Pruning.Props"
REMOTE_HARNESS = {"internal/pruning/zz_verif_clock.go": "harness/pruning/verif_clock.go",
                  "internal/pruning/zz_remote_verif_test.go": "harness/pruning/remote_verif_test.go"}
SIG_REMOTE_LIST = "remote-day-list-error-drops-day-path"
THEOREMS = [(P, n) for n in (
    "C18_civil_roundtrip_days", "C18_civil_roundtrip_date", "C18_paths_cover", "C18_generated_within", "C18_path_injective",
    "C18_bounds_sound_conj", "C18_month_arith_agree", "C18_month_arith_order", "C18_pruning_sound_guarded",
    "C18_or_refuted", "C18_not_refuted", "C18_timestamp_column_refuted", "C18_default_start_refuted",
    "C18_default_end_refuted", "C18_month_end_refuted", "C18_pre_epoch_refuted",
    "C18_remote_keeps_hour", "C18_remote_keeps_day", "C18_remote_world_faithful")]
MODULES = [P]
TIE_NAME = ("C18 correspondence (pruning.ExtractTimeRange/GeneratePartitionPaths under a controlled clock; "
            "api.convertSQLToStoragePaths + real DuckDB with pruning on/off vs Arc.Pruning.Model)")
US = 10 ** 6
HOUR = 3600 * US
DAY = 24 * HOUR
COLS = {"time": "CTime", "event_time": "CTimeLike", "sample_timestamp": "CTimestampCol", "timestamp": "CTsExact"}
OPS = {">=": "OGe", ">": "OGt", "<": "OLt", "<=": "OLe", "=": "OEq", "<>": "ONe"}
UNITS = {"second": ("RSecond", US), "minute": ("RMinute", 60 * US), "hour": ("RHour", HOUR), "day": ("RDay", DAY), "week": ("RWeek", 7 * DAY),
         "month": ("RMonth", None)}
PRUNER_HARNESS = {"internal/pruning/zz_verif_clock.go": "harness/pruning/verif_clock.go",
                  "internal/pruning/zz_pruning_verif_test.go": "harness/pruning/pruning_verif_test.go"}
QUERY_HARNESS = {"internal/pruning/zz_verif_clock.go": "harness/pruning/verif_clock.go",
                 "internal/api/zz_pruning_query_verif_test.go": "harness/pruning/query_verif_test.go"}
CLOCK_REWRITE = {"internal/pruning/partition_pruner.go": [("time.Now().UTC()", "verifNow()", 2)]}
CLASS_SIG = {1: "where-or", 2: "where-not", 3: "column-named-timestamp", 4: "no-lower-bound-default-2020",
             5: "no-upper-bound-default-now-plus-1d", 6: "month-interval-from-day-29-31"}
# controlled clocks of the query level: a general one next to the 2020 layout, the last day of a
# 31-day month in a leap year (month arithmetic: Go normalises, DuckDB clamps), the middle of a
# 30-day month that follows a 31-day one (n calendar months > n * 30 days)
NOW_GEN = 1584705600 * US + 123456          # 2020-03-20 12:00:00.123456
NOW_EOM = 1711880430 * US + 500000          # 2024-03-31 10:20:30.5
NOW_MID = 1713168600 * US + 250000          # 2024-04-15 08:10:00.25
DIM = [31, 28, 31, 30, 31, 30, 31, 31, 30, 31, 30, 31]


def _month_target(us, n):
    d = dt(us)
    k = d.year * 12 + (d.month - 1) + n
    return d, k // 12, k % 12 + 1


def _civil_us(y, m, day, tod):
    return int((datetime(y, m, 1, tzinfo=timezone.utc) - datetime(1970, 1, 1, tzinfo=timezone.utc)).total_seconds()) * US + (day - 1) * DAY + tod


def py_go_months(us, n):
    """generator-side copy of Go's AddDate(0, n, 0) (row placement only; the authority is Model.go_add_months)"""
    d, y, m = _month_target(us, n)
    return _civil_us(y, m, d.day, us % DAY)


def py_duck_months(us, n):
    d, y, m = _month_target(us, n)
    dim = DIM[m - 1] + (1 if m == 2 and (y % 4 == 0 and (y % 100 != 0 or y % 400 == 0)) else 0)
    return _civil_us(y, m, min(d.day, dim), us % DAY)

SIG_PRE_EPOCH = "rows-before-1970"


def hz(n):
    return "(0x%x)" % n if n >= 0 else "(-0x%x)" % -n


def cstr(s):
    return '"' + s.replace('"', '""') + '"'


def dt(us):
    return datetime(1970, 1, 1, tzinfo=timezone.utc) + timedelta(microseconds=us)


# ---------------------------------------------------------------------------------------
# literals: value + spelling; go_ok = parseDateTime accepts the spelling
# ---------------------------------------------------------------------------------------

def spell(us, kind):
    """-> (text, go_ok) or None when the spelling cannot express the value."""
    d = dt(us)
    sec_ok = us % US == 0
    if kind == "space":
        return (d.strftime("%Y-%m-%d %H:%M:%S"), True) if sec_ok else None
    if kind == "rfc":
        return (d.strftime("%Y-%m-%dT%H:%M:%SZ"), True) if sec_ok else None
    if kind == "date":
        return (d.strftime("%Y-%m-%d"), True) if us % DAY == 0 else None
    if kind == "minute":
        return (d.strftime("%Y-%m-%d %H:%M"), True) if us % (60 * US) == 0 else None
    if kind == "frac":
        return (d.strftime("%Y-%m-%d %H:%M:%S") + ".%06d" % (us % US), True)
    if kind == "offset":          # RFC3339 with +02:00
        l = dt(us + 2 * HOUR)
        return (l.strftime("%Y-%m-%dT%H:%M:%S") + "+02:00", True) if sec_ok else None
    if kind in ("off_p5", "off_m3", "off_p530"):     # RFC3339 with a non-zero offset (value = the UTC instant)
        off = {"off_p5": 5 * HOUR, "off_m3": -3 * HOUR, "off_p530": 5 * HOUR + 1800 * US}[kind]
        l = dt(us + off)
        txt = l.strftime("%Y-%m-%dT%H:%M:%S") + ("" if sec_ok else (".%06d" % (us % US)).rstrip("0"))
        return (txt + {"off_p5": "+05:00", "off_m3": "-03:00", "off_p530": "+05:30"}[kind], True)
    if kind == "plus00":          # DuckDB reads it, Go's layouts do not
        return (d.strftime("%Y-%m-%d %H:%M:%S") + "+00", False) if sec_ok else None
    if kind == "t_nozone":
        return (d.strftime("%Y-%m-%dT%H:%M:%S"), False) if sec_ok else None
    raise ValueError(kind)


SPELLINGS = ["space", "space", "space", "rfc", "date", "minute", "frac", "offset", "plus00", "t_nozone", "off_p5", "off_m3", "off_p530"]


def mk_lit(rng, us, kinds=None):
    for _ in range(20):
        k = rng.choice(kinds or SPELLINGS)
        r = spell(us, k)
        if r:
            return {"us": us, "text": r[0], "ok": r[1]}
    r = spell(us, "frac")
    return {"us": us, "text": r[0], "ok": r[1]}


# ---------------------------------------------------------------------------------------
# WHERE AST:  ("atom", a) | ("not", w) | ("and", a, b) | ("or", a, b)
# atoms: ("cmp", col, op, lit) | ("rel", col, op, add, n, unit, now_kw) | ("between", col, l1, l2) | ("flag", k)
# ---------------------------------------------------------------------------------------

def atom_text(a):
    if a[0] == "cmp":
        return "%s %s '%s'" % (a[1], a[2], a[3]["text"])
    if a[0] == "rel":
        return "%s %s %s %s INTERVAL '%d %s'" % (a[1], a[2], a[6], "+" if a[3] else "-", a[4], a[5])
    if a[0] == "between":
        return "%s BETWEEN '%s' AND '%s'" % (a[1], a[2]["text"], a[3]["text"])
    return "f%d = true" % a[1]


def w_text(w, parent=None):
    k = w[0]
    if k == "atom":
        return atom_text(w[1])
    if k == "not":
        return "NOT (" + w_text(w[1]) + ")"
    t = w_text(w[1], k) + (" AND " if k == "and" else " OR ") + w_text(w[2], k)
    if parent is not None and parent != k:
        return "(" + t + ")"
    return t


def lit_coq(l):
    return "{|l_us:=%s;l_ok:=%s|}" % (hz(l["us"]), "true" if l["ok"] else "false")


def atom_coq(a):
    if a[0] == "cmp":
        return "(ACmp %s %s %s)" % (COLS[a[1]], OPS[a[2]], lit_coq(a[3]))
    if a[0] == "rel":
        return "(ARel %s %s %s %s %s)" % (COLS[a[1]], OPS[a[2]], "true" if a[3] else "false", hz(a[4]), UNITS[a[5].rstrip("s")][0])
    if a[0] == "between":
        return "(ABetween %s %s %s)" % (COLS[a[1]], lit_coq(a[2]), lit_coq(a[3]))
    return "(AFlag %d)" % a[1]


def w_coq(w):
    k = w[0]
    if k == "atom":
        return "(WAtom %s)" % atom_coq(w[1])
    if k == "not":
        return "(WNot %s)" % w_coq(w[1])
    return "(%s %s %s)" % ("WAnd" if k == "and" else "WOr", w_coq(w[1]), w_coq(w[2]))


def conj(ws):
    out = ws[0]
    for w in ws[1:]:
        out = ("and", out, w)
    return out


def A(a):
    return ("atom", a)


def flat_atoms(w):
    if w[0] == "atom":
        return [w[1]]
    if w[0] == "not":
        return flat_atoms(w[1])
    return flat_atoms(w[1]) + flat_atoms(w[2])


def w_nontrivial(w):
    at = flat_atoms(w)
    return len(at) >= 2 and any(a[0] != "flag" for a in at)


TAILS = ["", " ORDER BY id", " GROUP BY id ORDER BY id", " LIMIT 100000"]


def around(rng, base):
    """a time near `base`: on hour/day boundaries and slightly off them"""
    h = base // HOUR * HOUR + rng.choice([0, 0, 1, 2, 3, 5, 24, 25, 48, -1, -24, -30]) * HOUR
    return h + rng.choice([0, 0, 0, US, 1800 * US, HOUR - US, 1, 60 * US, rng.randrange(0, HOUR)])


def gen_where(rng, base, now, kinds=None, cols=None, allow_rel=True, ub_base=None, lb_base=None, day_files=None, rel_bias=0.0):
    """Mostly-valid WHERE clauses of the shapes dashboards send, plus the shapes the pruner gets wrong."""
    cols = cols or ["time"] * 8 + ["event_time", "sample_timestamp", "timestamp"]
    shape = rng.random()

    def lower(c=None):
        return A(("cmp", c or rng.choice(cols), rng.choice([">=", ">=", ">"]), mk_lit(rng, around(rng, base), kinds)))

    def upper(c=None, after=0):
        return A(("cmp", c or rng.choice(cols), rng.choice(["<", "<", "<="]), mk_lit(rng, around(rng, base + after), kinds)))

    def rel(lowerb, col=None):
        op = rng.choice([">=", ">"]) if lowerb else rng.choice(["<", "<="])
        unit = rng.choice(list(UNITS) + ["month", "month"])
        n = rng.choice([1, 2, 3, 6, 12, 20, 24, 36, 48, 90]) if unit not in ("week", "month") else rng.choice([1, 2])
        if unit == "month":
            n = rng.choice([1, 1, 2, 3, 3, 4, 6, 11, 12, 13])
        return A(("rel", col or rng.choice(cols), op, rng.random() < 0.2, n, unit + ("s" if n > 1 and rng.random() < 0.8 else ""),
                  rng.choice(["NOW()", "NOW()", "CURRENT_TIMESTAMP", "now()", "NOW ( )"])))

    def flag():
        return A(("flag", rng.randrange(4)))

    if rng.random() < rel_bias:           # relative lower bound (often in months) + explicit upper bound near `now`
        ws = [rel(True, "time" if rng.random() < 0.95 else None), A(("cmp", "time", rng.choice(["<", "<="]), mk_lit(rng, around(rng, now + rng.choice([0, 1, 2]) * DAY), kinds)))]
    elif day_files and shape < 0.12:      # several days, start time-of-day later than end time-of-day, last day compacted
        dd = rng.choice(day_files)
        a = (dd - rng.choice([1, 1, 2])) * DAY + rng.randrange(12, 24) * HOUR + rng.choice([0, 0, 1800 * US])
        b = dd * DAY + rng.randrange(1, 12) * HOUR + rng.choice([0, 0, 60 * US])
        ws = [A(("cmp", "time", rng.choice([">=", ">"]), mk_lit(rng, a, kinds))), A(("cmp", "time", rng.choice(["<", "<="]), mk_lit(rng, b, kinds)))]
    elif shape < 0.30:          # time >= A AND time < B [AND flags]
        ws = [lower(), upper(after=rng.choice([1, 3, 26, 50]) * HOUR)]
    elif shape < 0.38:        # BETWEEN
        a = around(rng, base)
        ws = [A(("between", rng.choice(cols), mk_lit(rng, a, kinds), mk_lit(rng, a + rng.choice([1, 5, 24, 48]) * HOUR + rng.choice([0, 0, US]), kinds)))]
    elif shape < 0.46:        # only a lower bound (the end defaults to now + 24 h)
        if lb_base is not None and rng.random() < 0.75:
            ws = [A(("cmp", rng.choice(cols), rng.choice([">=", ">=", ">"]), mk_lit(rng, around(rng, lb_base), kinds)))]
        else:
            ws = [lower()]
    elif shape < 0.54:        # only an upper bound (the start defaults to 2020-01-01)
        if ub_base is not None and rng.random() < 0.8:
            ws = [A(("cmp", rng.choice(cols), rng.choice(["<", "<", "<="]), mk_lit(rng, around(rng, ub_base), kinds)))]
        else:
            ws = [upper()]
    elif shape < 0.64 and allow_rel:   # relative
        ws = [rel(True)] + ([rel(False)] if rng.random() < 0.4 else [])
        if rng.random() < 0.35:            # explicit upper bound around / after `now`
            ws.append(A(("cmp", rng.choice(cols), rng.choice(["<", "<="]), mk_lit(rng, around(rng, now + rng.choice([0, 2, 3, 45]) * DAY), kinds))))
    elif shape < 0.70:        # two lower bounds / redundant atoms / equality
        ws = [lower(), lower(), upper(after=30 * HOUR)] + ([A(("cmp", "time", rng.choice(["=", "<>"]), mk_lit(rng, around(rng, base), kinds)))] if rng.random() < 0.5 else [])
    elif shape < 0.74:        # no time predicate at all
        ws = [flag(), flag()]
    elif shape < 0.78:        # very wide / inverted ranges (cap, empty generation)
        a = around(rng, base)
        b = a + rng.choice([6 * 365 * DAY, 5 * 365 * DAY if kinds is None else 40 * DAY, 2080 * DAY, -3 * HOUR, 0])   # (query level: no 45 000-path globbing)
        ws = [A(("cmp", "time", ">=", mk_lit(rng, a, kinds))), A(("cmp", "time", "<", mk_lit(rng, b, kinds)))]
    elif shape < 0.82:        # very old start (clamp to 1970)
        ws = [A(("cmp", "time", ">=", mk_lit(rng, -rng.choice([1, 400, 4000]) * DAY, kinds))),
              A(("cmp", "time", "<", mk_lit(rng, rng.choice([10, 400]) * DAY + rng.choice([0, 5 * HOUR]), kinds)))]
    else:                     # arbitrary trees
        def tree(d):
            if d == 0 or rng.random() < 0.35:
                return rng.choice([lower, upper, flag, flag, lambda: rel(rng.random() < 0.5) if allow_rel else flag()])()
            k = rng.choice(["and", "and", "or", "not"])
            if k == "not":
                return ("not", tree(d - 1))
            return (k, tree(d - 1), tree(d - 1))
        return tree(3)
    while rng.random() < 0.4:
        ws.insert(rng.randrange(len(ws) + 1), flag())
    w = conj(ws)
    r = rng.random()
    if r < 0.10:
        w = ("or", w, flag())
    elif r < 0.16:
        w = ("and", ("not", ws[0]), conj(ws[1:])) if len(ws) > 1 else ("not", w)
    return w


# the refutation witnesses of Props.v as statements (pruner level: controlled clock; query level:
# every range is bounded so that it stays under the 50 000-path cap whatever the wall clock is)
def witnesses(base, now, bounded=False):
    L = lambda us: {"us": us, "text": spell(us, "space")[0], "ok": True}
    lo = A(("cmp", "time", ">=", L(base)))
    hi = A(("cmp", "time", "<", L(base + 2 * DAY)))
    return [
        ("or", ("or", ("and", lo, hi) if bounded else lo, A(("flag", 0)))),
        ("not", ("and", ("not", lo), hi) if bounded else ("not", lo)),
        ("other-col", ("and", A(("cmp", "event_time", ">=", L(base))), ("and", A(("cmp", "time", ">=", L(base - DAY))), hi))),   # fixed by 2f7fd11
        ("other-col-default-start", ("and", A(("cmp", "event_time", ">=", L(base))), hi)),
        ("timestamp-col", ("and", A(("cmp", "timestamp", ">=", L(base))), hi)),
        ("upper-only", A(("cmp", "time", "<", L(base + DAY)))),
        ("lower-only", A(("cmp", "time", ">=", L((now - 3 * DAY) // HOUR * HOUR if bounded else base)))),
        ("incl-end", ("and", lo, A(("cmp", "time", "<=", L(base + 2 * HOUR))))),
        ("pre-epoch", ("and", A(("cmp", "time", ">=", L(-400 * DAY))), A(("cmp", "time", "<", L(DAY))))),
        ("between", A(("between", "time", L(base), L(base + DAY)))),
    ]


# ---------------------------------------------------------------------------------------
# pruner level
# ---------------------------------------------------------------------------------------

def load_corpus():
    """corpus/C18/*.json: regression witnesses of fixed findings / minimised past disagreements (WHERE ASTs)."""
    def tup(x):
        if isinstance(x, list):
            return tuple(tup(y) for y in x)
        return x
    d = os.path.join(vlib.ROOT, "corpus", "C18")
    out = []
    for fn in sorted(os.listdir(d)) if os.path.isdir(d) else []:
        if fn.endswith(".json"):
            for e in json.load(open(os.path.join(d, fn))).get("cases", []):
                out.append((e.get("name", fn), tup(e["w"])))
    return out


def pruner_cases(rng, tier):
    n = 420 if tier == "quick" else 4000
    cases = [{"w": w, "now": 1719151200 * US + 123456, "tail": "", "where": True, "tag": "corpus-" + name} for name, w in load_corpus()]
    base0 = 1710511200 * US     # 2024-03-15 14:00:00
    for name, w in witnesses(base0, base0 + 100 * DAY):
        cases.append({"w": w, "now": base0 + 100 * DAY + 123456, "tail": "", "where": True, "tag": "witness-" + name})
    bases = [base0, 1709251200 * US - HOUR, 1577836800 * US, 1735689600 * US - 2 * HOUR, 951782400 * US, 4102444800 * US - 5 * HOUR, 3 * DAY]
    for i in range(n):
        base = rng.choice(bases)
        now = rng.choice([base + rng.randrange(-3, 40) * DAY + rng.randrange(DAY), 1726000000 * US + rng.randrange(DAY),
                          NOW_EOM, NOW_MID, 1675161000 * US, 1735689599 * US, 1709164800 * US + rng.randrange(DAY)])   # Jan 31, Dec 31, Feb 29
        c = {"w": gen_where(rng, base, now, ub_base=rng.choice([1578614400 * US, 1583020800 * US, base]), lb_base=now - rng.choice([1, 2, 30]) * DAY,
                            day_files=[base // DAY + 3, base // DAY + 10], rel_bias=0.1),
             "now": now, "tail": rng.choice(TAILS), "where": True, "tag": "gen"}
        cases.append(c)
    # direct calls of evaluateRelativeTime: Go's month arithmetic against Model.go_add_months
    for _ in range(60 if tier == "quick" else 600):
        t = rng.choice([NOW_EOM, NOW_MID, 1675161000 * US, 1735689599 * US, 1709164800 * US + rng.randrange(DAY),
                        rng.randrange(0, 4 * 10 ** 9) * US + rng.randrange(US)])
        cases.append({"rel": (rng.choice([1, 2, 3, 5, 11, 12, 13, 25, 120]), rng.random() < 0.3), "now": t, "where": False, "tag": "relprim",
                      "w": A(("flag", 0)), "tail": ""})
    # malformed stream: no WHERE, WHERE-less subquery text, lower-case keyword
    for _ in range(10 if tier == "quick" else 100):
        w = gen_where(rng, base0, base0)
        cases.append({"w": w, "now": base0, "tail": "", "where": False, "tag": "no-where"})
    for c in cases:
        kw = "WHERE" if c["tag"] != "gen" or rng.random() < 0.8 else rng.choice(["where", "Where", "WHERE\n "])
        if c["tag"] == "relprim":
            c["sql"] = "evaluateRelativeTime(%d, month, add=%s)" % c["rel"]
        elif c["where"]:
            c["sql"] = "SELECT * FROM vdb.vm %s %s%s" % (kw, w_text(c["w"]), c["tail"])
        else:
            c["sql"] = "SELECT count(*) FROM vdb.vm" + rng.choice(["", " ORDER BY 1", " LIMIT 5"])
    return cases


def rng_unit(c):
    return "months" if c["rel"][0] % 2 else "month"


def run_pruner(cases, tag, test="^TestVerifPruner$", harness=None, env=None):
    out = vlib.run_go_harness("C18", "./internal/pruning/", test, harness or PRUNER_HARNESS,
                              [dict({"sql": c["sql"], "now": c["now"]}, **({"rel_amount": str(c["rel"][0]), "rel_unit": rng_unit(c), "rel_add": c["rel"][1]} if "rel" in c else {}))
                               for c in cases], rewrites=CLOCK_REWRITE, tag="pruner_" + tag, env=env)
    if len(out) != len(cases):
        raise vlib.TieBroken("C18 pruner harness returned %d results for %d cases" % (len(out), len(cases)))
    for c, o in zip(cases, out):
        if o.get("other"):
            raise vlib.TieBroken("GeneratePartitionPaths produced a path of unexpected shape: %r" % o["other"][:2])
        if o.get("sub_us"):
            raise vlib.TieBroken("extracted bound with sub-microsecond precision for %r" % c["sql"])
        if "rel" in c and o.get("rel_err"):
            raise vlib.TieBroken("evaluateRelativeTime failed: %s" % o["rel_err"])
        c["obs"] = o
    return cases


def pcase_coq(c):
    o = c["obs"]
    rng_ = "None" if o["nil"] else "(Some (%s,%s))" % (hz(o["start"]), hz(o["end"]))
    if o["gen_nil"]:
        gen = "None"
    elif len(o["hours"]) <= 300:
        gen = "(Some (GFull [%s] [%s]))" % (";".join(cstr(x) for x in o["hours"]), ";".join(cstr(x) for x in o["days"]))
    else:                                  # very long lists: lengths + 40 sampled positions each
        def smp(l):
            n = len(l)
            if n == 0:
                return ""
            idx = sorted({0, 1, n - 1, n - 2, n // 2, n // 3} | {(k * 7919 + 13) % n for k in range(34)})
            return ";".join("(%d%%N,%s)" % (i, cstr(l[i])) for i in idx if 0 <= i < n)
        gen = "(Some (GSample %d%%N %d%%N [%s] [%s]))" % (len(o["hours"]), len(o["days"]), smp(o["hours"]), smp(o["days"]))
    return "{|pc_where:=%s;pc_w:=%s;pc_now:=%s;pc_range:=%s;pc_gen:=%s|}" % (
        "true" if c["where"] else "false", w_coq(c["w"]), hz(c["now"]), rng_, gen)


# ---------------------------------------------------------------------------------------
# query level
# ---------------------------------------------------------------------------------------

def hour_dir(h):
    d = dt(h * HOUR)
    return d.strftime("%Y/%m/%d/%H")


def day_dir(dn):
    return dt(dn * DAY).strftime("%Y/%m/%d")


def build_layout(rng):
    """Hour- and day-level files: a busy stretch in March 2020, daily-compacted days, rows exactly on
    hour boundaries, data before 2020 and before 1970, and - for each controlled clock - rows around
    it, in its future, and just inside / outside every month-interval bound (DuckDB's, Go's and the
    30-days-per-month one)."""
    base = 1584280800 * US      # 2020-03-15 14:00 (close to the default start 2020-01-01: ranges that
    hours, days = {}, {}        # fall back to it stay a few thousand hours long)

    def hour_file(h, extra=(), k=3):
        l = hours.setdefault(h, [])
        if not l:
            l += [h * HOUR, h * HOUR + HOUR - 1] + [h * HOUR + rng.randrange(HOUR) for _ in range(k)]
        l += [t for t in extra if t // HOUR == h]

    def day_file(d, k=6):
        days.setdefault(d, [d * DAY, d * DAY + DAY - 1, d * DAY + 5 * HOUR] + [d * DAY + rng.randrange(DAY) for _ in range(k)])

    h0 = base // HOUR
    for h in list(range(h0 - 4, h0 + 8)) + [h0 + 24, h0 + 25, h0 + 47, h0 + 50]:
        hour_file(h)
    day_file(base // DAY - 1)
    day_file(base // DAY + 3)
    day_file(base // DAY + 10)
    for dd in (base // DAY - 1, base // DAY + 3, base // DAY + 10):       # the evening before each compacted day is still hourly
        hour_file(dd * 24 - 1)
        hour_file(dd * 24 - 3)
    hour_file((1577836800 * US) // HOUR - 2)          # 2019-12-31 22:00
    hour_file((1578614400 * US) // HOUR - 3)          # 2020-01-09 21:00
    hour_file((1578614400 * US) // HOUR + 1)          # 2020-01-10 01:00
    day_file((1577836800 * US) // DAY - 30)           # 2019-12-02
    hour_file(-1)                                     # 1969-12-31 23:00
    hour_file(0)                                      # 1970-01-01 00:00
    for now in (NOW_GEN, NOW_EOM, NOW_MID):
        nh = now // HOUR
        for h in [nh - 30, nh - 3, nh - 2, nh + 2, nh + 30, nh + 24 * 40]:
            hour_file(h, k=2)
        day_file(now // DAY - 10, 3)
    for now in (NOW_EOM, NOW_MID):
        for n in (1, 2, 3, -1):
            for b in {py_duck_months(now, -n), py_go_months(now, -n), now - n * 30 * DAY}:
                hour_file(b // HOUR, extra=(b - 100000, b + 100000), k=1)
    nid = [0]

    def row(t):
        nid[0] += 1
        return {"id": nid[0], "time": t, "etime": t + rng.choice([0, -3 * DAY, 5 * HOUR, 40 * DAY]),
                "stime": t + rng.choice([0, 2 * DAY, -7 * HOUR]), "ts": t + rng.choice([0, 0, 6 * HOUR, -2 * DAY]),
                "f": [rng.random() < 0.5 for _ in range(4)]}

    files = [{"kind": "hour", "idx": h, "dir": hour_dir(h), "rows": [row(t) for t in ts]} for h, ts in sorted(hours.items())]
    files += [{"kind": "day", "idx": d, "dir": day_dir(d), "rows": [row(t) for t in ts]} for d, ts in sorted(days.items())]
    return base, files, sorted(days)


def query_cases(rng, tier, base, day_files):
    n = 100 if tier == "quick" else 600
    # spellings DuckDB accepts for a TIMESTAMP comparison
    kinds = ["space", "space", "rfc", "date", "minute", "frac", "offset", "plus00", "t_nozone", "off_p5", "off_p5", "off_m3", "off_m3", "off_p530"]
    cases = [{"w": w, "tag": "witness-" + name, "now": NOW_GEN} for name, w in witnesses(base, NOW_GEN, bounded=True)]
    cases += [{"w": w, "tag": "corpus-" + name, "now": NOW_GEN} for name, w in load_corpus()]
    L = lambda us: {"us": us, "text": spell(us // US * US, "space")[0], "ok": True}
    cases.append({"tag": "witness-month-end", "now": NOW_EOM,           # C18_month_end_refuted
                  "w": ("and", A(("rel", "time", ">=", False, 1, "month", "NOW()")), A(("cmp", "time", "<", L(NOW_EOM + DAY))))})
    bases = [base, base, base, base + DAY, 1577836800 * US, 1578614400 * US, 0]
    recent = [d for d in day_files if base // DAY - 2 <= d <= base // DAY + 12]
    for _ in range(n):
        r = rng.random()
        if r < 0.72:
            now, b, bias = NOW_GEN, rng.choice(bases), 0.0
        else:
            now = NOW_EOM if r < 0.86 else NOW_MID
            b, bias = now - rng.choice([0, 1, 3]) * DAY, 0.75
        cases.append({"w": gen_where(rng, b, now, kinds=kinds, ub_base=1578614400 * US, lb_base=now - 2 * DAY, day_files=recent, rel_bias=bias),
                      "tag": "gen", "now": now})
    for c in cases:
        c["sql"] = "SELECT id FROM vdb.vm WHERE %s%s" % (w_text(c["w"]), rng.choice(["", " ORDER BY id", " LIMIT 100000"]))
    return cases


def duck_prims(rng, tier):
    """DuckDB's month arithmetic on TIMESTAMPTZ (UTC) against Model.duck_add_months"""
    vals = []
    for _ in range(80 if tier == "quick" else 800):
        t = rng.choice([NOW_EOM, NOW_MID, 1675161000 * US, 1735689599 * US, 1709164800 * US + rng.randrange(DAY),
                        rng.randrange(0, 4 * 10 ** 9) * US + rng.randrange(US)])
        vals.append((t, rng.choice([1, 2, 3, 5, 11, 12, 13, 25, 120]) * rng.choice([1, 1, -1])))
    sql = "SELECT * FROM (VALUES %s) v(t, n, r)" % ", ".join(
        "(%d, %d, epoch_us(make_timestamp(%d)::TIMESTAMPTZ %s INTERVAL '%d months'))" % (t, n, t, "+" if n > 0 else "-", abs(n)) for t, n in vals)
    return [sql]


def run_queries(files, cases, tag, prims=()):
    inp = {"files": [{"dir": f["dir"], "rows": f["rows"]} for f in files], "queries": [{"sql": c["sql"], "now": c["now"]} for c in cases],
           "prims": list(prims)}
    out = vlib.run_go_harness("C18", "./internal/api/", "^TestVerifPruningQuery$", QUERY_HARNESS, inp,
                              rewrites=CLOCK_REWRITE, tag="query_" + tag, timeout=1500)
    if len(out["queries"]) != len(cases):
        raise vlib.TieBroken("C18 query harness returned %d results for %d queries" % (len(out["queries"]), len(cases)))
    if any(out.get("prim_err") or []):
        raise vlib.TieBroken("DuckDB primitive query failed: %s" % [e for e in out["prim_err"] if e][0])
    for c, o in zip(cases, out["queries"]):
        c["obs"] = o
    return cases, [r for q in (out.get("prims") or []) for r in (q or [])]


def month_key(dn):
    d = dt(dn * DAY)
    return d.year * 12 + d.month - 1


def remote_cases(rng, tier):
    """s3:// storage with a fake DirectoryLister: what is stored, which listing calls fail"""
    n = 150 if tier == "quick" else 1500
    base = 1584280800 * US
    h0 = base // HOUR
    L = lambda us: {"us": us, "text": spell(us, "space")[0], "ok": True}
    w0 = ("and", A(("cmp", "time", ">=", L(base))), A(("cmp", "time", "<", L(base + 2 * HOUR))))
    # regression witness of the finding fixed by 4553183: List(<day>/) fails while an hour path survives
    cases = [{"w": w0, "now": NOW_GEN, "hours": [h0], "days": [h0 // 24], "fail_day": [], "fail_month": [], "fail_list": [h0 // 24], "full": k == 1,
              "sql": "SELECT * FROM vdb.vm WHERE %s" % w_text(w0)} for k in range(2)]
    for i in range(n):
        w = gen_where(rng, base, NOW_GEN, kinds=SPELLINGS, allow_rel=False, ub_base=1583020800 * US, lb_base=NOW_GEN - 2 * DAY)   # kinds given: no 45 000-path ranges
        uni = list(range(h0 - 60, h0 + 90))
        hours = sorted(h for h in uni if rng.random() < rng.choice([0.15, 0.5, 0.9]))
        days_u = sorted({h // 24 for h in uni})
        days = sorted(d for d in days_u if rng.random() < 0.4)
        fail_day = sorted(d for d in days_u if rng.random() < rng.choice([0.0, 0.3, 0.3, 1.0]) * 0.5)
        fail_month = sorted({month_key(d) for d in days_u if rng.random() < 0.04})
        fail_list = sorted(d for d in days_u if rng.random() < 0.12)
        cases.append({"w": w, "now": NOW_GEN, "hours": hours, "days": days, "fail_day": fail_day, "fail_month": fail_month,
                      "fail_list": fail_list, "full": rng.random() < 0.5,
                      "sql": "SELECT * FROM vdb.vm WHERE %s%s" % (w_text(w), rng.choice(TAILS))})
    return cases


def run_pruner_and_remote(pcases, rcases, tag):
    """one `go test` invocation of package pruning for both harnesses"""
    def mk(k):
        return "%04d/%02d" % (k // 12, k % 12 + 1)
    inp = [{"sql": c["sql"], "now": c["now"], "hours": [hour_dir(h) for h in c["hours"]], "days": [day_dir(d) for d in c["days"]],
            "fail_day": [day_dir(d) for d in c["fail_day"]], "fail_month": [mk(k) for k in c["fail_month"]],
            "fail_list": [day_dir(d) for d in c["fail_list"]], "full_names": c["full"]} for c in rcases]
    d = os.path.join(vlib.WORK, "cases", "C18")
    os.makedirs(d, exist_ok=True)
    rin, rout = os.path.join(d, "remote_%s_in.json" % tag), os.path.join(d, "remote_%s_out.json" % tag)
    json.dump(inp, open(rin, "w"))
    if os.path.exists(rout):
        os.remove(rout)
    pcases = run_pruner(pcases, tag, test="^(TestVerifPruner|TestVerifRemote)$", harness=dict(PRUNER_HARNESS, **REMOTE_HARNESS),
                        env={"VERIF_REMOTE_CASES": rin, "VERIF_REMOTE_OUT": rout})
    if not os.path.exists(rout):
        raise vlib.TieBroken("C18 remote harness wrote no output")
    out = json.load(open(rout))
    cases = rcases
    if len(out) != len(cases):
        raise vlib.TieBroken("C18 remote harness returned %d results for %d cases" % (len(out), len(cases)))
    for c, o in zip(cases, out):
        if o.get("other"):
            raise vlib.TieBroken("OptimizeTablePath returned a path of unexpected shape: %r" % o["other"][:2])
        c["obs"] = o
    return pcases, cases


def rcase_coq(c):
    o = c["obs"]
    lz = lambda l: "[" + ";".join(hz(x) for x in l) + "]"
    obs = "(Some [%s])" % ";".join(cstr(x) for x in o["hours"] + o["days"]) if o["optimized"] else "None"
    return "{|rc_w:=%s;rc_now:=%s;rc_world:={|rw_hours:=%s;rw_days:=%s;rw_fail_day:=%s;rw_fail_month:=%s;rw_fail_list:=%s|};rc_obs:=%s|}" % (
        w_coq(c["w"]), hz(c["now"]), lz(c["hours"]), lz(c["days"]), lz(c["fail_day"]), lz(c["fail_month"]), lz(c["fail_list"]), obs)


def row_coq(r):
    return "(%d%%N,{|r_time:=%s;r_etime:=%s;r_stime:=%s;r_ts:=%s;r_flags:=[%s]|})" % (
        r["id"], hz(r["time"]), hz(r["etime"]), hz(r["stime"]), hz(r["ts"]), ";".join("true" if b else "false" for b in r["f"]))


def file_coq(f):
    return "(%s %s [%s])" % ("FHour" if f["kind"] == "hour" else "FDay", hz(f["idx"]), ";".join(row_coq(r) for r in f["rows"]))


def qcase_coq(c):
    o = c["obs"]
    return "{|qc_w:=%s;qc_now:=%s;qc_pruned:=[%s];qc_unpruned:=[%s]|}" % (
        w_coq(c["w"]), hz(o["now_us"]), ";".join("%d%%N" % i for i in sorted(o.get("pruned") or [])),
        ";".join("%d%%N" % i for i in sorted(o.get("unpruned") or [])))


# ---------------------------------------------------------------------------------------
# Coq evaluation
# ---------------------------------------------------------------------------------------
HEADER = ("From Coq Require Import List ZArith NArith Bool String.\nFrom Arc Require Import Pruning.Model.\n"
          "Import ListNotations.\nOpen Scope string_scope.\nOpen Scope list_scope.\nOpen Scope Z_scope.\n"
          "Fixpoint vidx {A} (f : A -> bool) (n : N) (l : list A) : list N :=\n"
          "  match l with [] => [] | x :: r => if f x then vidx f (n + 1)%N r else n :: vidx f (n + 1)%N r end.\n")


def chunked(name, typ, terms, size=20):
    if not terms:
        return "Definition %s : list (%s) := [].\n" % (name, typ)
    src, parts = "", []
    for k in range(0, len(terms), size):
        parts.append("%s_%d" % (name, k))
        src += "Definition %s_%d : list (%s) := [%s].\n" % (name, k, typ, ";\n".join(terms[k:k + size]))
    return src + "Definition %s : list (%s) := %s.\n" % (name, typ, " ++ ".join(parts))


def parse_listN(out, label):
    m = re.search(r"\b" + re.escape(label) + r"\s*=\s*(.*?)\n\s*:\s*list N", out, re.S)
    if not m:
        return None
    return [int(x) for x in re.findall(r"(\d+)(?:%N)?", m.group(1))]


def coqc_noglob(name, source, timeout=1200):
    d = os.path.join(vlib.WORK, "coqrun", "C18")
    os.makedirs(d, exist_ok=True)
    p = os.path.join(d, name + ".v")
    open(p, "w").write(source)
    t0 = time.time()
    rc, out = vlib.sh(["timeout", str(timeout), "coqc", "-noglob", "-Q", os.path.join(vlib.COQ, "theories"), "Arc",
                       "-Q", os.path.join(vlib.COQ, "gen"), "ArcGen", "-w", "-notation-overridden", p], cwd=d, timeout=timeout + 30)
    vlib.log("coqc %s: rc=%d in %.1fs" % (name, rc, time.time() - t0))
    return rc, out


def coq_lists(name, body, labels):
    rc, out = coqc_noglob(name, HEADER + body)
    res = {}
    for lab in labels:
        v = parse_listN(out, lab)
        if rc != 0 or v is None:
            raise vlib.InfraError("C18 case evaluation failed (%s): %s" % (lab, out[-3000:]))
        res[lab] = v
    return res


def evaluate(pcases, files, qcases, name, duck_rows=(), rcases=()):
    from concurrent.futures import ThreadPoolExecutor
    jobs = []
    RCH = 80
    for off in range(0, len(rcases), RCH):
        body = chunked("rcases", "rcase", [rcase_coq(c) for c in rcases[off:off + RCH]], 10)
        body += "Definition r_dis := Eval vm_compute in vidx rcase_agrees 0%N rcases.\nPrint r_dis.\n"
        body += "Definition r_orf := Eval vm_compute in vidx rcase_oracle 0%N rcases.\nPrint r_orf.\n"
        body += "Definition r_lf := Eval vm_compute in vidx (fun c => negb (rcase_list_fault c)) 0%N rcases.\nPrint r_lf.\n"
        jobs.append(("r", off, name + "_remote_%d" % off, body, ["r_dis", "r_orf", "r_lf"]))
    relprims = [c for c in pcases if c["tag"] == "relprim"]
    pcases = [c for c in pcases if c["tag"] != "relprim"]
    mterms = ["MGo %s %s %s" % (hz(c["now"]), hz(c["rel"][0] if c["rel"][1] else -c["rel"][0]), hz(c["obs"]["rel"])) for c in relprims]
    mterms += ["MDuck %s %s %s" % (hz(int(r[0])), hz(int(r[1])), hz(int(r[2]))) for r in duck_rows]
    body = chunked("mcases", "mcase", mterms, 40)
    body += "Definition m_dis := Eval vm_compute in vidx mcase_agrees 0%N mcases.\nPrint m_dis.\n"
    jobs.append(("m", 0, name + "_months", body, ["m_dis"]))
    PCH = 110
    for off in range(0, len(pcases), PCH):
        body = chunked("pcases", "pcase", [pcase_coq(c) for c in pcases[off:off + PCH]], 10)
        body += "Definition p_dis := Eval vm_compute in vidx pcase_agrees 0%N pcases.\nPrint p_dis.\n"
        jobs.append(("p", off, name + "_pruner_%d" % off, body, ["p_dis"]))
    files_def = chunked("vfiles", "file", [file_coq(f) for f in files], 6)
    QCH = 60
    for off in range(0, len(qcases), QCH):
        body = files_def + chunked("qcases", "qcase", [qcase_coq(c) for c in qcases[off:off + QCH]], 10)
        body += "Definition q_dis := Eval vm_compute in vidx (qcase_agrees vfiles) 0%N qcases.\nPrint q_dis.\n"
        body += "Definition q_orf := Eval vm_compute in vidx qcase_oracle 0%N qcases.\nPrint q_orf.\n"
        body += "Definition q_cls := Eval vm_compute in map (fun c => classify (qc_w c) (qc_now c)) qcases.\nPrint q_cls.\n"
        jobs.append(("q", off, name + "_query_%d" % off, body, ["q_dis", "q_orf", "q_cls"]))
    with ThreadPoolExecutor(max_workers=8) as ex:
        results = list(ex.map(lambda j: coq_lists(j[2], j[3], j[4]), jobs))
    r = {"p_dis": [], "q_dis": [], "q_orf": [], "q_cls": {}, "m_dis": [], "mterms": mterms, "pcases": pcases, "r_dis": [], "r_orf": [], "r_lf": []}
    for (kind, off, _, _, _), rr in zip(jobs, results):
        if kind == "r":
            for k in ("r_dis", "r_orf", "r_lf"):
                r[k] += [off + x for x in rr[k]]
        elif kind == "m":
            r["m_dis"] = rr["m_dis"]
        elif kind == "p":
            r["p_dis"] += [off + x for x in rr["p_dis"]]
        else:
            r["q_dis"] += [off + x for x in rr["q_dis"]]
            r["q_orf"] += [off + x for x in rr["q_orf"]]
            for k, cl in enumerate(rr["q_cls"]):
                r["q_cls"][off + k] = cl
    return r


# ---------------------------------------------------------------------------------------

def shrink_w(w):
    """one-step smaller clauses"""
    out = []
    if w[0] == "not":
        out.append(w[1])
        out += [("not", x) for x in shrink_w(w[1])]
    elif w[0] in ("and", "or"):
        out += [w[1], w[2]]
        out += [(w[0], x, w[2]) for x in shrink_w(w[1])] + [(w[0], w[1], x) for x in shrink_w(w[2])]
    return out


def run(res, tier, seed):
    rng = random.Random(seed * 7919 + 18)
    failed = vlib.std_proof_stage(res, "C18", AREA, MODULES, THEOREMS)
    res.cov["trusted_base"] += [
        "DuckDB (v1.5.5) evaluates the WHERE clause and reads the Parquet files; its comparison of a TIMESTAMP column with string literals / NOW() +/- INTERVAL is modelled (integers, UTC) and validated per query against the unpruned execution",
        "the WHERE text <-> AST printer of tools/props/C18.py; the pruner's regular expressions are modelled on the atoms in textual order (string-literal contents, comments, sub-selects and joins are outside the modelled grammar)",
        "Go's time.Parse layouts accepted by parseDateTime are summarised per literal spelling by the generator (l_ok) and checked through the extracted range; NOW() +/- INTERVAL 'n months' is modelled on both sides (Go AddDate normalisation, DuckDB end-of-month clamping) and both definitions are validated each run (evaluateRelativeTime under the controlled clock, DuckDB on explicit TIMESTAMPTZ values); amounts overflowing time.Duration are not modelled",
        "query level: the pruner reads a controlled clock and the NOW()/CURRENT_TIMESTAMP of the SQL that DuckDB executes are replaced by the same instant (harness)",
        "layout: hour files .../YYYY/MM/DD/HH/*.parquet and daily-compacted files .../YYYY/MM/DD/*.parquet, every row stored in the partition of its own timestamp; local storage backend at the query level; the S3/Azure existence filter (filterExistingRemotePaths) is driven through OptimizeTablePath with a fake DirectoryLister backend and injected listing failures (partition-level oracle, no DuckDB)",
    ]
    t1 = time.time()
    pcases, rcases = run_pruner_and_remote(pruner_cases(rng, tier), remote_cases(rng, tier), tier)
    res.stage("pruner_and_remote_harness", t1)
    t2 = time.time()
    base, files, day_files = build_layout(rng)
    qcases, duck_rows = run_queries(files, query_cases(rng, tier, base, day_files), tier, prims=duck_prims(rng, tier))
    res.stage("query_harness", t2)
    t3 = time.time()
    ev = evaluate(pcases, files, qcases, "Cases_%s" % tier, duck_rows, rcases)
    res.stage("coq_eval", t3)
    report(res, ev["pcases"], files, qcases, ev, failed, rcases)


def report(res, pcases, files, qcases, ev, failed, rcases=()):
    known = {e["signature"]: e for e in vlib.known_for("C18")}
    nrows = sum(len(f["rows"]) for f in files)
    res.cov["evaluations"] = len(pcases) + len(qcases) * 2 + len(ev["mterms"]) + len(rcases)
    nt = {c["sql"] for c in pcases if c["where"] and w_nontrivial(c["w"])} | {c["sql"] for c in qcases if w_nontrivial(c["w"])}
    res.cov["distinct_nontrivial"] = len(nt)
    res.cov["rule"] = ("pruner level: generated WHERE clauses (conjunctions of time bounds in 10 literal spellings, BETWEEN, NOW() +/- INTERVAL, flags, OR/NOT trees, "
                       "other columns ending in time/timestamp, wide/inverted/pre-1970 ranges, no WHERE) under a controlled clock: extracted range and every generated hour/day path compared with the model in Coq; "
                       "query level: the production transformation + real DuckDB over a real Parquet layout (%d files spanning %d partitions incl. daily-compacted days, rows on hour boundaries, data before 2020, before 1970 and in the future; %d rows), pruning on and off, both row sets compared with the model. "
                       "non-trivial = WHERE with >= 2 atoms incl. a time comparison; distinct by statement text" % (len(files), len({f["dir"] for f in files}), nrows))
    by_tag = {}
    for c in pcases:
        by_tag[c["tag"].split("-")[0]] = by_tag.get(c["tag"].split("-")[0], 0) + 1
    res.cov["histogram"] = {
        "pruner_cases": len(pcases), "pruner_by_kind": by_tag,
        "pruner_range_nil": sum(1 for c in pcases if c["obs"]["nil"]), "pruner_gen_nil_cap_or_nil": sum(1 for c in pcases if c["obs"]["gen_nil"]),
        "pruner_paths_total": sum(len(c["obs"]["hours"]) + len(c["obs"]["days"]) for c in pcases),
        "query_cases": len(qcases), "query_was_pruned": sum(1 for c in qcases if c["obs"].get("was_pruned")),
        "query_class_histogram": {str(k): sum(1 for v in ev["q_cls"].values() if v == k) for k in range(7)},
        "layout_files": len(files), "layout_rows": nrows,
    }
    res.cov["model_vs_impl_disagreements"] = len(ev["p_dis"]) + len(ev["q_dis"]) + len(ev["m_dis"]) + len(ev["r_dis"])
    res.cov["histogram"]["remote_cases"] = len(rcases)
    res.cov["histogram"]["remote_optimized"] = sum(1 for c in rcases if c["obs"]["optimized"])
    res.cov["histogram"]["remote_cases_with_listing_fault_in_range"] = sum(1 for c in rcases if c["fail_day"] or c["fail_month"] or c["fail_list"])
    res.cov["histogram"]["month_arithmetic_cases"] = len(ev["mterms"])
    res.cov["oracle_failures"] = len(ev["q_orf"]) + len(ev["r_orf"])
    sample_q = next((c for c in qcases if c["obs"].get("was_pruned")), qcases[0])
    res.cov["samples"] = [
        {"pruner": pcases[8]["sql"], "now_us": pcases[8]["now"], "range_us": None if pcases[8]["obs"]["nil"] else [pcases[8]["obs"]["start"], pcases[8]["obs"]["end"]],
         "hour_paths": pcases[8]["obs"]["hours"][:4], "day_paths": pcases[8]["obs"]["days"][:3]},
        {"query": sample_q["sql"], "pruned_ids": sorted(sample_q["obs"].get("pruned") or [])[:12], "unpruned_ids": sorted(sample_q["obs"].get("unpruned") or [])[:12],
         "transformed": sample_q["obs"].get("sql_pruned", "")[:300]},
    ]
    has_pre_epoch_rows = any(r["time"] < 0 for f in files for r in f["rows"])
    rows_by_id = {r["id"]: r for f in files for r in f["rows"]}
    qdis = set(ev["q_dis"])
    known_hit, unexplained = {}, []
    for i in ev["q_orf"]:
        c = qcases[i]
        o = c["obs"]
        if o.get("err_p") or o.get("err_u"):
            unexplained.append((None, {"sql": c["sql"], "error_pruned": o.get("err_p"), "error_unpruned": o.get("err_u")}, True))
            continue
        cls = ev["q_cls"].get(i, 0)
        missing = sorted(set(o["unpruned"]) - set(o["pruned"]))
        extra = sorted(set(o["pruned"]) - set(o["unpruned"]))
        sig = CLASS_SIG.get(cls)
        if sig is None and has_pre_epoch_rows and missing and all(rows_by_id[m]["time"] < 0 for m in missing) and not extra:
            sig = SIG_PRE_EPOCH
        w = {"sql": c["sql"], "now_us": o["now_us"], "rows_missing_with_pruning": missing[:10], "rows_only_with_pruning": extra[:10],
             "first_missing_row": rows_by_id.get(missing[0]) if missing else None}
        if i in qdis or sig is None or sig not in known:
            unexplained.append((sig, w, i in qdis))
        else:
            known_hit.setdefault(sig, []).append(w)
    # remote filter: a stored partition missing from the filtered list
    rdis, rlf = set(ev["r_dis"]), set(ev["r_lf"])
    for i in ev["r_orf"]:
        c = rcases[i]
        wit = {"sql": c["sql"], "stored_hour_dirs": [hour_dir(h) for h in c["hours"]][:40], "stored_day_files": [day_dir(d) for d in c["days"]],
               "ListDirectories_fails_for": [day_dir(d) for d in c["fail_day"]] + ["%04d/%02d" % (k // 12, k % 12 + 1) for k in c["fail_month"]],
               "List_fails_for": [day_dir(d) for d in c["fail_list"]], "kept_hours": c["obs"]["hours"], "kept_days": c["obs"]["days"]}
        if i in rlf and i not in rdis and SIG_REMOTE_LIST in known:
            known_hit.setdefault(SIG_REMOTE_LIST, []).append(wit)
        else:
            unexplained.append((None, wit, i in rdis))
    res.cov["oracle_failures_by_known_class"] = {k: len(v) for k, v in sorted(known_hit.items())}
    for sig, hits in sorted(known_hit.items()):
        res.known_finding("[%s] %s (%d queries this run return different rows with pruning on and off, each row set predicted by the model)" % (sig, known[sig]["what"], len(hits)))
    if unexplained:
        unexplained.sort(key=lambda u: u[0] is not None)      # inputs inside the theorem's domain first
        sig, w, dis = unexplained[0]
        remote = "stored_hour_dirs" in w
        res.violation(("a partition that holds files is dropped from the pruned path list on remote storage (filterExistingRemotePaths)" if remote else
                       "pruning changes the rows of a query outside every known class") if not dis else
                      ("filterExistingRemotePaths drops a partition that holds files and the model does not predict the kept list" if remote else
                       "pruning changes the rows of a query and the model does not predict the row sets"),
                      {"kind": "oracle-failure", "case": w, "class": sig, "model_disagrees": dis, "count": len(unexplained),
                       "files": [{"dir": f["dir"]} for f in files], "how_to_replay": "python3 tools/check.py C18 --replay <this file>"})
    if ev["r_dis"] and not any(u[2] and "stored_hour_dirs" in u[1] for u in unexplained):
        c = rcases[ev["r_dis"][0]]
        res.violation("model and OptimizeTablePath/filterExistingRemotePaths disagree on remote storage",
                      {"kind": "correspondence", "correspondence": TIE_NAME, "case": {"sql": c["sql"], "observed": c["obs"], "fail_day": [day_dir(d) for d in c["fail_day"]],
                       "fail_list": [day_dir(d) for d in c["fail_list"]]}, "disagreeing_cases": len(ev["r_dis"]), "oracle_fails_on_impl": ev["r_dis"][0] in ev["r_orf"]},
                      no_input=ev["r_dis"][0] not in ev["r_orf"], suffix="corrr")
    if ev["m_dis"]:
        res.violation("month arithmetic of evaluateRelativeTime (MGo) / DuckDB (MDuck) is not what the model defines",
                      {"kind": "correspondence", "correspondence": TIE_NAME, "case": {"month_case (t_us, months, observed_us)": ev["mterms"][ev["m_dis"][0]]},
                       "disagreeing_cases": len(ev["m_dis"]), "oracle_fails_on_impl": bool(unexplained)},
                      no_input=not unexplained, suffix="corrm")
    if ev["p_dis"]:
        c = pcases[ev["p_dis"][0]]
        small = c
        if len(ev["p_dis"]) < 60:                     # shrink the clause
            for _ in range(6):
                cands = [dict(small, w=w2, sql="SELECT * FROM vdb.vm WHERE %s%s" % (w_text(w2), small["tail"])) for w2 in shrink_w(small["w"])]
                if not cands:
                    break
                cands = run_pruner(cands, "shrink")
                bad = evaluate(cands, [], [], "Shrink")["p_dis"]
                if not bad:
                    break
                small = cands[bad[0]]
        res.violation("model and ExtractTimeRange/GeneratePartitionPaths disagree",
                      {"kind": "correspondence", "correspondence": TIE_NAME, "case": {"sql": small["sql"], "now_us": small["now"], "observed": {k: (v if not isinstance(v, list) else v[:8]) for k, v in small["obs"].items()}},
                       "disagreeing_cases": len(ev["p_dis"]), "oracle_fails_on_impl": False,
                       "note": "pruner-level disagreement; whether rows are lost is decided by the query-level oracle of the same run"},
                      no_input=not bool(ev["q_orf"] and unexplained), suffix="corr")
    if ev["q_dis"] and not any(v[2] for v in unexplained):
        c = qcases[ev["q_dis"][0]]
        res.violation("model and production query path disagree on the rows a statement returns",
                      {"kind": "correspondence", "correspondence": TIE_NAME, "case": {"sql": c["sql"], "observed": c["obs"]}, "disagreeing_cases": len(ev["q_dis"]),
                       "oracle_fails_on_impl": ev["q_dis"][0] in ev["q_orf"]}, no_input=ev["q_dis"][0] not in ev["q_orf"], suffix="corrq")
    if failed and not res.violations:
        res.violation("proof obligation(s) no longer check: " + "; ".join(r for _, r in failed),
                      {"kind": "obligation-failed", "theorems": [t for t, _ in failed], "detail": [r for _, r in failed]},
                      no_input=True, suffix="obligation")


def warm():
    vlib.run_go_harness("C18", "./internal/pruning/", "^TestVerifPruner$", PRUNER_HARNESS, [], rewrites=CLOCK_REWRITE, tag="warm_p")
    vlib.run_go_harness("C18", "./internal/api/", "^TestVerifPruningQuery$", QUERY_HARNESS, {"files": [], "queries": [], "prims": []},
                        rewrites=CLOCK_REWRITE, tag="warm_q", timeout=1500)


def replay(res, path):
    obj = json.load(open(path))
    c = obj.get("case") or {}
    if "sql" not in c:
        print("replay file names no concrete input:", obj.get("summary"))
        return 1
    if obj.get("kind") == "correspondence" and "now_us" in c and "files" not in obj:
        out = vlib.run_go_harness("C18", "./internal/pruning/", "^TestVerifPruner$", PRUNER_HARNESS, [{"sql": c["sql"], "now": c["now_us"]}],
                                  rewrites=CLOCK_REWRITE, tag="replay_p")
        print("ExtractTimeRange/GeneratePartitionPaths:", json.dumps(out[0])[:1500])
        return 1
    rng = random.Random(res.seed * 7919 + 18)
    pruner_cases(rng, "quick")                       # advance the generator exactly as run() does
    remote_cases(rng, "quick")
    _, files, _ = build_layout(rng)
    out = vlib.run_go_harness("C18", "./internal/api/", "^TestVerifPruningQuery$", QUERY_HARNESS,
                              {"files": [{"dir": f["dir"], "rows": f["rows"]} for f in files], "queries": [{"sql": c["sql"], "now": c.get("now_us", 0)}], "prims": []},
                              rewrites=CLOCK_REWRITE, tag="replay_q", timeout=1500)
    o = out["queries"][0]
    print("with pruning:", sorted(o.get("pruned") or []), o.get("err_p", ""))
    print("without     :", sorted(o.get("unpruned") or []), o.get("err_u", ""))
    return 1 if sorted(o.get("pruned") or []) != sorted(o.get("unpruned") or []) else 0
