"""C30 - Requests are served by a capable node after at most one forward.

Proof: coq/theories/Routing (model of role.go capabilities, registry target selection,
Router.CanRouteLocally/RouteWrite/RouteQuery, api.decideForward, the handler switch, and the
composition of the nodes of a cluster of ANY size with ANY registry views):
C30_one_hop, C30_processor_capable, C30_forwarded_never_reforwarded,
C30_header_cannot_force_local, C30_header_irrelevant_when_capable, C30_targets_capable,
C30_served_by_capable_node; C30_unrouted_endpoint_refuted states what a handler WITHOUT the
routing switch would do (no registered endpoint is one since /repo 1a7376f).

Tie 1 (translator, coq/gen/Params_Routing.v re-checked by Obligations.v on every run):
  * the role -> capability table, evaluated by the Go compiler for every Role* constant that
    go/ast finds in role.go (plus unknown role strings);
  * the write / query / import endpoints registered by package api (go/ast over every
    RegisterRoutes), and for each whether its handler reaches decideForward /
    *ForwardDecision / ShouldForward* (call graph from go/ast);
  * the handler types on which cmd/arc/main.go calls SetRouter.
Tie 2 (correspondence, harness/routing/routing_verif_test.go injected into package api):
  * exhaustive sweep: local configuration x request kind x marker x every multiset of up to
    three peers over the node-type table (clusters of 1..4 nodes) through the REAL handlers,
    Router and Registry;
  * decideForward + wrappers on wire-parsed headers; every endpoint behind its own
    RegisterRoutes with real back ends on a node that cannot serve it; clusters in which
    every node is real (path of the request, hops, marker seen at each node).
All observations are compared with the model inside coqc.
"""
import base64
import itertools
import json
import os
import random
import re
import time
from concurrent.futures import ThreadPoolExecutor

import vlib
from vlib import cbool, clist

AREA = "Routing"
THEOREMS = [("Arc.Routing.Props", t) for t in (
    "C30_one_hop", "C30_processor_capable", "C30_forwarded_never_reforwarded",
    "C30_header_cannot_force_local", "C30_header_irrelevant_when_capable", "C30_targets_capable",
    "C30_served_by_capable_node")] + [("Arc.Routing.Obligations", t) for t in (
    "C30_capability_table", "C30_endpoints_consult_or_known", "C30_consulting_handlers_wired",
    "C30_deployed_routed_endpoints", "C30_deployed_unrouted_endpoints")] + [
    # negative result about a handler WITHOUT the routing switch (no registered endpoint is one on the current tree)
    ("Arc.Routing.Props", "C30_unrouted_endpoint_refuted")]
MODULES = ["Arc.Routing.Props", "Arc.Routing.Obligations"]
TIE_NAME = ("C30 correspondence (api.decideForward / handlers / cluster.Router / cluster.Registry vs "
            "Arc.Routing.Model) / Params_Routing")
HARNESS = {"internal/api/zz_routing_verif_test.go": "harness/routing/routing_verif_test.go"}
TAGS = "verif duckdb_arrow"

ROLE_CTOR = {"RoleStandalone": "Standalone", "RoleWriter": "Writer", "RoleReader": "Reader", "RoleCompactor": "Compactor"}
STATE_CTOR = {"StateUnknown": "SUnknown", "StateHealthy": "SHealthy", "StateUnhealthy": "SUnhealthy", "StateDead": "SDead",
              "StateJoining": "SJoining", "StateLeaving": "SLeaving"}
WS_CTOR = {"WriterStateNone": "WNone", "WriterStatePrimary": "WPrimary", "WriterStateStandby": "WStandby"}
DECISION_FUNCS = {"decideForward", "WriteForwardDecision", "QueryForwardDecision", "ShouldForwardWrite", "ShouldForwardQuery"}
UNKNOWN_ROLES = ["", "verif-unknown-role"]


def b64(s):
    if isinstance(s, str):
        s = s.encode("latin-1")
    return base64.b64encode(s).decode()


def unb64(s):
    return base64.b64decode(s)


def cbytes(b):
    if isinstance(b, str):
        b = b.encode("latin-1")
    return "[" + "; ".join(str(x) for x in b) + "]" if b else "[]"


def unquote(v):
    try:
        return json.loads(v)
    except Exception:
        raise vlib.TieBroken("constant value %r is not a string literal" % v)


# ---------------------------------------------------------------------------------------------
# translator
# ---------------------------------------------------------------------------------------------

def source_constants():
    roles, states, wss = {}, {}, {}
    for c in vlib.goast("consts", "internal/cluster/role.go"):
        if c["kind"] == "const" and c["name"].startswith("Role"):
            roles[c["name"]] = unquote(c["value"])
    for c in vlib.goast("consts", "internal/cluster/node.go"):
        if c["kind"] == "const" and c["name"].startswith("State"):
            states[c["name"]] = unquote(c["value"])
        if c["kind"] == "const" and c["name"].startswith("WriterState"):
            wss[c["name"]] = unquote(c["value"])
    hdr = [unquote(c["value"]) for c in vlib.goast("consts", "internal/api/routing.go") if c["name"] == "ForwardedByHeader"]
    if not roles or not states or not wss or len(hdr) != 1:
        raise vlib.TieBroken("role / state / writer-state / ForwardedByHeader constants not found")
    for need, have in ((ROLE_CTOR, roles), (STATE_CTOR, states), (WS_CTOR, wss)):
        miss = [k for k in need if k not in have]
        if miss:
            raise vlib.TieBroken("constants %s no longer exist" % miss)
    return roles, states, wss, hdr[0]


def eval_capabilities(roles):
    """GetCapabilities of every Role* constant and of unknown strings, BY THE GO COMPILER."""
    lines = []
    for name in roles:
        lines.append('\tp(%s, cluster.%s)' % (json.dumps(name), name))
    for i, u in enumerate(UNKNOWN_ROLES):
        lines.append('\tp(%s, cluster.NodeRole(%s))' % (json.dumps("unknown%d" % i), json.dumps(u)))
    src = ('package main\n\nimport (\n\t"fmt"\n\tcluster "%s/internal/cluster"\n)\n\n'
           'func p(n string, r cluster.NodeRole) {\n\tc := r.GetCapabilities()\n'
           '\tfmt.Printf("VERIFCAP %%s %%q %%t %%t %%t %%t\\n", n, string(r), c.CanIngest, c.CanQuery, c.CanCompact, c.CanCoordinate)\n}\n\n'
           'func main() {\n%s\n}\n') % (vlib.MODULE, "\n".join(lines))
    p = vlib.gen_file("params/c30_caps.go", src)
    ov = vlib.overlay_file({"internal/zzverifc30caps/main.go": p}, "C30_caps")
    t0 = time.time()
    rc, out = vlib.sh(["go", "run", "-overlay", ov, "./internal/zzverifc30caps/"], cwd=vlib.REPO, env=vlib.go_env(), timeout=900)
    vlib.log("go run zzverifc30caps: rc=%d in %.1fs" % (rc, time.time() - t0))
    caps = {}
    for m in re.finditer(r'^VERIFCAP (\S+) ("(?:[^"\\]|\\.)*") (true|false) (true|false) (true|false) (true|false)$', out, re.M):
        caps[m.group(1)] = (json.loads(m.group(2)), [m.group(i) == "true" for i in (3, 4, 5, 6)])
    if rc != 0 or len(caps) != len(roles) + len(UNKNOWN_ROLES):
        raise vlib.TieBroken("capability evaluation failed:\n" + out[-2000:])
    return caps


def static_endpoints():
    """Registered write / query / import endpoints of package api and whether their handler
    reaches the routing decision (name-based call graph from go/ast)."""
    funcs = vlib.goast("funcs", "internal/api")
    by_name = {}
    for f in funcs:
        by_name.setdefault(f["name"], []).append(f)
    memo = {}

    def reaches(f, stack=()):
        key = (f["file"], f["recv"], f["name"])
        if key in memo:
            return memo[key]
        if key in stack:
            return False
        if DECISION_FUNCS & set(f["calls"] or []):
            memo[key] = True
            return True
        ok = False
        for cn in f["calls"] or []:
            cands = by_name.get(cn, [])
            same = [g for g in cands if g["recv"] == f["recv"] and g["recv"]]
            use = same or [g for g in cands if not g["recv"]]
            # a callee resolved by bare name only counts when EVERY same-named function reaches
            if use and all(reaches(g, stack + (key,)) for g in use):
                ok = True
                break
        memo[key] = ok
        return ok

    regs = vlib.goast("calls", "^(Get|Post|Put|Delete|Patch|All|Head)$", "internal/api")
    eps = []
    for c in regs:
        if not re.search(r"(?i)register\w*routes?$", c["func"]) or len(c["args"]) < 2:
            continue
        path_arg, handler = c["args"][0], c["args"][-1]
        if not path_arg.startswith('"'):
            continue
        route = unquote(path_arg)
        method = c["callee"].split(".")[-1].upper()
        mids = " ".join(c["args"][1:-1])
        if re.search(r"\bwriteAuth\b|withWriteAuth\(", mids):
            is_write = True
        elif re.search(r"\breadAuth\b|withReadAuth\(", mids):
            is_write = False
        elif route.startswith("/api/v1/import/") and method == "POST":
            is_write = True
        else:
            continue
        m = re.fullmatch(r"\w+\.(\w+)", handler)
        if not m:
            raise vlib.TieBroken("route %s %s: handler expression %r not understood" % (method, route, handler))
        owner = [f for f in funcs if f["file"] == c["file"] and f["name"] == c["func"]]
        recv = owner[0]["recv"] if owner else ""
        hf = [f for f in by_name.get(m.group(1), []) if f["recv"] == recv]
        if len(hf) != 1:
            raise vlib.TieBroken("route %s %s: handler %s.%s not found" % (method, route, recv, m.group(1)))
        eps.append({"method": method, "route": route, "file": c["file"], "type": recv.lstrip("*"), "func": m.group(1),
                    "is_write": is_write, "consults": reaches(hf[0])})
    # the arrow route is registered twice (build-tag stub has no route); dedupe
    seen, out = set(), []
    for e in eps:
        k = (e["method"], e["route"])
        if k not in seen:
            seen.add(k)
            out.append(e)
    if not any(e["consults"] for e in out):
        raise vlib.TieBroken("no registered endpoint reaches decideForward: anchors moved")
    return out


def static_wiring():
    sites = vlib.goast("calls", "^SetRouter$", "cmd/arc/main.go")
    text = open(os.path.join(vlib.REPO, "cmd/arc/main.go")).read()
    ctor = {}
    for m in re.finditer(r"\b(\w+)(?:,\s*\w+)?\s*:?=\s*api\.New(\w+)\(", text):
        ctor.setdefault(m.group(1), set()).add(m.group(2))
    wired = set()
    for s in sites:
        var = s["callee"].split(".")[0]
        wired |= ctor.get(var, set())
    return sorted(wired)


def cstr(s):
    return '"' + s.replace('"', '""') + '"'


def static_facts():
    roles, states, wss, hdr = source_constants()
    return {"roles": roles, "states": states, "wss": wss, "header": hdr, "endpoints": static_endpoints(), "wired": static_wiring()}


def translate_params(P=None, harness_caps=None):
    """Write coq/gen/Params_Routing.v.  The capability table comes from the Go compiler: from a
    throw-away `go run` (setup) or from the harness process of this run (same code, no extra link)."""
    P = P or static_facts()
    roles, eps, wired = P["roles"], P["endpoints"], P["wired"]
    if harness_caps is None:
        caps = eval_capabilities(roles)
    else:
        caps = {}
        for n, v in roles.items():
            if v not in harness_caps:
                raise vlib.TieBroken("harness did not report capabilities of %s" % n)
            caps[n] = (v, harness_caps[v])
        for i, u in enumerate(UNKNOWN_ROLES):
            caps["unknown%d" % i] = (u, harness_caps[u])
    body = "(* GENERATED by tools/props/C30.py from the current /repo sources - do not edit *)\n"
    body += "From Coq Require Import List String Bool.\nImport ListNotations.\nOpen Scope string_scope.\n"
    body += "(* Role* constants of internal/cluster/role.go: (constant, value, CanIngest, CanQuery, CanCompact, CanCoordinate),\n"
    body += "   GetCapabilities evaluated by the Go compiler *)\n"
    body += "Definition role_table : list (string * string * bool * bool * bool * bool) := [\n  " + ";\n  ".join(
        "(%s, %s, %s)" % (cstr(n), cstr(caps[n][0]), ", ".join(cbool(x) for x in caps[n][1])) for n in roles) + "].\n"
    body += "(* GetCapabilities of role strings that are no constant: %s *)\n" % UNKNOWN_ROLES
    body += "Definition unknown_role_caps : list (bool * bool * bool * bool) := [\n  " + ";\n  ".join(
        "(%s)" % ", ".join(cbool(x) for x in caps["unknown%d" % i][1]) for i in range(len(UNKNOWN_ROLES))) + "].\n"
    body += "(* write / query / import endpoints registered by package api:\n"
    body += "   (METHOD route, handler type, handler func, is_write, handler reaches decideForward) *)\n"
    body += "Definition endpoints : list (string * string * string * bool * bool) := [\n  " + ";\n  ".join(
        "(%s, %s, %s, %s, %s)" % (cstr(e["method"] + " " + e["route"]), cstr(e["type"]), cstr(e["func"]), cbool(e["is_write"]),
                                  cbool(e["consults"])) for e in eps) + "].\n"
    body += "(* handler types on which cmd/arc/main.go calls SetRouter *)\n"
    body += "Definition router_wired : list string := [" + "; ".join(cstr(w) for w in wired) + "].\n"
    vlib.write_params("Params_Routing", body)
    P = dict(P)
    P["caps"] = caps
    return P


# ---------------------------------------------------------------------------------------------
# case generation
# ---------------------------------------------------------------------------------------------

def type_table(P, tier):
    R, S, W = P["roles"], P["states"], P["wss"]
    t = []

    def add(role, ws, st, ctor=None):
        t.append({"role": role, "ws": ws, "state": st,
                  "coq": "(%s, %s, %s)" % (ctor[0], ctor[1], ctor[2])})

    def std(rn, wn, sn):
        add(R[rn], W[wn], S[sn], (ROLE_CTOR[rn], WS_CTOR[wn], STATE_CTOR[sn]))
    if tier == "quick":
        for wn in WS_CTOR:
            for sn in ("StateHealthy", "StateUnhealthy"):
                std("RoleWriter", wn, sn)
        std("RoleWriter", "WriterStatePrimary", "StateJoining")
        for sn in ("StateHealthy", "StateUnhealthy"):
            std("RoleReader", "WriterStateNone", sn)
        std("RoleReader", "WriterStatePrimary", "StateHealthy")
        std("RoleCompactor", "WriterStateNone", "StateHealthy")
        std("RoleStandalone", "WriterStateNone", "StateHealthy")
        std("RoleStandalone", "WriterStatePrimary", "StateHealthy")
        add("verif-unknown-role", W["WriterStatePrimary"], S["StateHealthy"], ("OtherRole", "WPrimary", "SHealthy"))
    else:
        for rn in ROLE_CTOR:
            for wn in WS_CTOR:
                for sn in ("StateHealthy", "StateUnhealthy", "StateJoining", "StateDead"):
                    if rn in ("RoleCompactor", "RoleStandalone") and sn in ("StateJoining", "StateDead"):
                        continue
                    if rn != "RoleWriter" and wn == "WriterStateStandby":
                        continue
                    std(rn, wn, sn)
        add("verif-unknown-role", W["WriterStatePrimary"], S["StateHealthy"], ("OtherRole", "WPrimary", "SHealthy"))
        add("", W["WriterStateNone"], S["StateHealthy"], ("OtherRole", "WNone", "SHealthy"))
    return t


def local_table(P):
    """Local configurations: no router | router without LocalNode | LocalNode of every role x writer state."""
    R, W = P["roles"], P["wss"]
    loc = [{"router": False, "has_local": False, "id": "", "role": "", "ws": "", "coq": "{| lc_router := false; lc_local := None |}"},
           {"router": True, "has_local": False, "id": "", "role": "", "ws": "", "coq": "{| lc_router := true; lc_local := None |}"}]
    for rn, ctor in ROLE_CTOR.items():
        for wn, wctor in WS_CTOR.items():
            loc.append({"router": True, "has_local": True, "id": b64("L"), "role": R[rn], "ws": W[wn],
                        "coq": "{| lc_router := true; lc_local := Some (%s, %s, %s) |}" % (cbytes("L"), ctor, wctor)})
    loc.append({"router": True, "has_local": True, "id": b64("L"), "role": "verif-unknown-role", "ws": W["WriterStatePrimary"],
                "coq": "{| lc_router := true; lc_local := Some (%s, OtherRole, WPrimary) |}" % cbytes("L")})
    return loc


def sweep_cases(nlocals, ntypes, maxpeers=3):
    cases = []
    for k in range(maxpeers + 1):
        for peers in itertools.combinations_with_replacement(range(ntypes), k):
            for l in range(nlocals):
                for kind in (0, 1):
                    for hdr in (0, 1):
                        cases.append([l, kind, hdr, len(cases) % 2] + list(peers))
    return cases


HEADER_VARIANTS = [[], [b""], [b" "], [b"x"], [b"\t"], [b"  x  "], [b" ", b"y"], [b"y", b""], [b"0"], [b"false"], [b"\x01"],
                   [b"\x80\xff"], [b" \t "], [b"spoofed-by-client"], [b"n1"], [b"   "], [b"\x00"], [b"a b"], [b"\x7f"], [b"x" * 40]]


def decide_cases(rng, nlocals, n_random):
    out = []
    for l in range(nlocals):
        for kind in (0, 1):
            for v in HEADER_VARIANTS:
                out.append({"local": l, "kind": kind, "vals": v})
    alphabet = [b" ", b"\t", b"a", b"\x01", b"\x80", b":", b","]
    for _ in range(n_random):
        nv = rng.choice([1, 1, 1, 2])
        vals = [b"".join(rng.choice(alphabet) for _ in range(rng.randint(0, 4))) for _ in range(nv)]
        out.append({"local": rng.randrange(nlocals), "kind": rng.randrange(2), "vals": vals})
    for d in out:
        name = rng.choice(["X-Arc-Forwarded-By", "x-arc-forwarded-by", "X-ARC-FORWARDED-BY"])
        d["raw"] = b64(b"".join(name.encode() + b":" + v + b"\r\n" for v in d["vals"]))
    return out


def endpoint_requests(eps):
    reqs = []
    for e in eps:
        route = e["route"]
        path = re.sub(r":(\w+)", "verifcpu", route)
        body = "empty"
        if route.startswith("/api/v1/import/"):
            body = {"csv": "csv-multipart", "parquet": "parquet-multipart", "lp": "lp-multipart", "tle": "tle-multipart"}.get(
                route.rsplit("/", 1)[-1], "lp-multipart")
            if not route.endswith("/lp"):
                path += "?measurement=verifimp"
        elif e["is_write"]:
            body = "msgpack" if "msgpack" in route else ("tle" if "tle" in route else "lp")
            path += "?db=verifdb&bucket=verifdb"
        elif e["method"] == "POST":
            body = "json-sql"
        reqs.append({"method": e["method"], "path": path, "route": route, "kind": 0 if e["is_write"] else 1, "body": body})
    return reqs


ODD_IDS = [b"", b" ", b"\t", b" \t", b"a b", b" n ", b"x\x01", b"\x7f", b"a\nb", b"\xc3\xa9", b"id:with,punct"]


def e2e_cases(rng, P, n):
    R, S, W = P["roles"], P["states"], P["wss"]
    role_names = list(ROLE_CTOR)
    cases = []

    def fixed(nodes, entry, kind, header=None, route=""):
        cases.append({"nodes": nodes, "entry": entry, "kind": kind, "header": header, "route": route})

    def node(i, rn, view, router=True, has_local=True, nid=None, strategy="rr", wn="WriterStateNone"):
        return {"id": b64(nid if nid is not None else "n%d" % i), "router": router, "has_local": has_local,
                "role": R[rn] if rn in R else rn, "ws": W[wn], "strategy": strategy, "view": view}

    def ve(i, rn, wn="WriterStateNone", sn="StateHealthy", nid=None, ghost=False):
        return {"node": -1 if ghost else i, "id": b64(nid if nid is not None else "n%d" % i), "role": R[rn] if rn in R else rn,
                "ws": W[wn], "state": S[sn]}

    # hand-written corner cases first
    fixed([node(0, "RoleReader", [ve(1, "RoleWriter")]), node(1, "RoleWriter", [ve(0, "RoleReader")])], 0, 0)
    fixed([node(0, "RoleReader", [ve(1, "RoleWriter")]), node(1, "RoleReader", [ve(0, "RoleWriter")])], 0, 0)          # lying views
    # failover window: the only healthy writer is a STANDBY; it must serve the forwarded write, and a direct write with a marker
    fixed([node(0, "RoleReader", [ve(1, "RoleWriter", "WriterStateStandby"), ve(2, "RoleWriter", "WriterStatePrimary", "StateUnhealthy")]),
           node(1, "RoleWriter", [ve(0, "RoleReader")], wn="WriterStateStandby"), node(2, "RoleWriter", [], wn="WriterStatePrimary")], 0, 0)
    fixed([node(0, "RoleWriter", [ve(1, "RoleReader")], wn="WriterStateStandby"), node(1, "RoleReader", [])], 0, 0, header=b64("spoofed"))
    fixed([node(0, "RoleWriter", [ve(1, "RoleReader")], wn="WriterStatePrimary"), node(1, "RoleReader", [])], 0, 0, header=b64("spoofed"))
    fixed([node(0, "RoleReader", [ve(1, "RoleWriter", nid=" ")], nid=""), node(1, "RoleReader", [ve(0, "RoleWriter", nid="")], nid=" ")], 0, 0)
    fixed([node(0, "RoleReader", [ve(1, "RoleWriter", nid="\t")], nid=" "), node(1, "RoleReader", [ve(0, "RoleWriter", nid=" ")], nid="\t")], 0, 0)
    fixed([node(0, "RoleReader", [ve(9, "RoleWriter", nid="ghost", ghost=True)])], 0, 0)
    fixed([node(0, "RoleReader", [ve(1, "RoleWriter")], nid="a\nb"), node(1, "RoleWriter", [])], 0, 0)
    fixed([node(0, "RoleReader", [ve(1, "RoleWriter")], has_local=False), node(1, "RoleWriter", [])], 0, 0)
    fixed([node(0, "RoleCompactor", [ve(1, "RoleWriter")]), node(1, "RoleWriter", [])], 0, 1, header=b64(" zz "))
    fixed([node(0, "RoleCompactor", [ve(1, "RoleReader"), ve(2, "RoleWriter")]), node(1, "RoleReader", []), node(2, "RoleWriter", [])], 0, 1)
    fixed([node(0, "RoleReader", [ve(1, "RoleWriter")]), node(1, "RoleWriter", [], router=False)], 0, 0)
    fixed([node(0, "RoleReader", [ve(1, "RoleWriter")]), node(1, "RoleWriter", [])], 0, 0, route="/api/v1/write/line-protocol")
    fixed([node(0, "RoleReader", [ve(1, "RoleWriter")]), node(1, "RoleReader", [ve(0, "RoleWriter")])], 0, 0, route="/write?db=verifdb")
    while len(cases) < n:
        size = rng.choice([1, 2, 2, 3, 3, 4, 4])
        ids = []
        for i in range(size):
            nid = ("n%d" % i).encode()
            if rng.random() < 0.12:
                nid = rng.choice(ODD_IDS)
            while nid in ids:
                nid = nid + b"%d" % i
            ids.append(nid)
        actual = [rng.choice(role_names + ["RoleWriter", "RoleReader", "RoleCompactor"]) for _ in range(size)]
        if size >= 2 and rng.random() < 0.75:          # most clusters have a writer and a node that needs one
            actual[rng.randrange(size)] = "RoleWriter"
            others = [i for i in range(size) if actual[i] != "RoleWriter"] or [0]
            actual[rng.choice(others)] = rng.choice(["RoleReader", "RoleCompactor"])
        truthful = rng.random() < 0.6
        nodes = []
        for i in range(size):
            view = []
            for j in range(size):
                if j == i or rng.random() < 0.08:
                    continue
                rn = actual[j] if (truthful or rng.random() < 0.5) else rng.choice(role_names)
                wn = rng.choice(list(WS_CTOR)) if rn == "RoleWriter" else rng.choice(["WriterStateNone", "WriterStateNone", "WriterStatePrimary"])
                sn = rng.choice(["StateHealthy"] * 7 + ["StateUnhealthy", "StateJoining", "StateDead", "StateUnknown", "StateLeaving"])
                view.append(ve(j, rn, wn, sn, nid=ids[j].decode("latin-1")))
            if rng.random() < 0.1:
                view.append(ve(90 + i, rng.choice(["RoleWriter", "RoleReader"]), nid="ghost%d" % i, ghost=True))
            router = rng.random() > 0.07
            own_ws = rng.choice(list(WS_CTOR)) if actual[i] == "RoleWriter" or rng.random() < 0.15 else "WriterStateNone"
            nodes.append(node(i, actual[i], view, router=router, has_local=rng.random() > 0.04, nid=ids[i].decode("latin-1"),
                              strategy=rng.choice(["rr", "lc", "random"]), wn=own_ws))
        header = None
        if rng.random() < 0.25:
            header = b64(rng.choice([b"x", b" ", b"", b"\t", b"n0", b"  spoof ", b"\x01"]))
        kind = rng.randrange(2)
        route = ""
        if kind == 0 and rng.random() < 0.3:
            route = rng.choice(["/api/v1/write/line-protocol", "/write?db=verifdb", "/api/v2/write?bucket=verifdb"])
        # prefer an entry node that cannot serve the request, so that most cases forward
        weak = [i for i in range(size) if nodes[i]["router"] and actual[i] in (("RoleReader", "RoleCompactor") if kind == 0 else ("RoleCompactor",))]
        entry = rng.choice(weak) if weak and rng.random() < 0.8 else rng.randrange(size)
        cases.append({"nodes": nodes, "entry": entry, "kind": kind, "header": header, "route": route})
    return cases


# ---------------------------------------------------------------------------------------------
# Coq printing
# ---------------------------------------------------------------------------------------------

KIND = ["KWrite", "KQuery"]


def obs_coq(o):
    return "(%d, %d, %s)" % (o["class"], o["target"], cbytes(unb64(o["marker"])))


def decide_coq(d, o):
    return "{| dc_local := %d; dc_kind := %s; dc_vals := %s; dc_seen := %s; dc_decision := %d; dc_wrapper := %d; dc_should := %s |}" % (
        d["local"], KIND[d["kind"]], clist([cbytes(v) for v in d["vals"]]), cbytes(unb64(o["seen"])),
        max(o["decision"], 0) if o["decision"] >= 0 else 99, o["w"] if o["w"] >= 0 else 99, cbool(o["sh"]))


def endpoint_coq(e, o):
    return "{| ep_consults := %s; ep_kind := %s; ep_obs := %s |}" % (
        cbool(e["consults"]), KIND[0 if e["is_write"] else 1], clist([obs_coq(x) for x in o["obs"]]))


def node_coq(P, nid, role, ws, state):
    rn = {v: k for k, v in P["roles"].items()}.get(role)
    wn = {v: k for k, v in P["wss"].items()}.get(ws)
    sn = {v: k for k, v in P["states"].items()}.get(state)
    if wn is None or sn is None:
        raise vlib.InfraError("e2e case uses writer state %r / state %r unknown to the source" % (ws, state))
    return "{| n_id := %s; n_role := %s; n_ws := %s; n_state := %s |}" % (
        cbytes(nid), ROLE_CTOR.get(rn, "OtherRole"), WS_CTOR[wn], STATE_CTOR[sn])


def e2e_coq(P, c, o):
    nodes = []
    for nd in c["nodes"]:
        nid = unb64(nd["id"])
        if not nd["router"]:
            nodes.append("{| a_id := %s; a_router := None |}" % cbytes(nid))
            continue
        view = [node_coq(P, unb64(v["id"]), v["role"], v["ws"], v["state"]) for v in nd["view"]]
        if nd["has_local"]:
            me = node_coq(P, nid, nd["role"], nd.get("ws", P["wss"]["WriterStateNone"]), P["states"]["StateHealthy"])
            nodes.append("{| a_id := %s; a_router := Some {| r_local := Some %s; r_reg := %s |} |}" % (cbytes(nid), me, clist([me] + view)))
        else:
            nodes.append("{| a_id := %s; a_router := Some {| r_local := None; r_reg := %s |} |}" % (cbytes(nid), clist(view)))
    hdrs = [] if c["header"] is None else [cbytes(unb64(c["header"]))]
    hits = ["(%s, %s)" % (cbytes(unb64(c["nodes"][h["node"]]["id"])), cbytes(unb64(h["hdr"]))) for h in o["hits"]]
    return ("{| ee_consults := true; ee_cluster := %s; ee_entry := %d; ee_kind := %s; ee_hdrs := %s; ee_choices := %s; "
            "ee_hits := %s; ee_class := %d |}") % (
        clist(nodes), c["entry"], KIND[c["kind"]], clist(hdrs), clist([cbytes(unb64(d)) for d in (o["dials"] or [])]),
        clist(hits), o["class"] if o["class"] >= 0 else 99)


def coq_header(locals_, types):
    h = "From Coq Require Import List NArith Bool.\nFrom Arc Require Import Routing.Model.\nImport ListNotations.\nOpen Scope N_scope.\n"
    h += "Definition v_locals : list local_cfg := %s.\n" % clist([l["coq"] for l in locals_])
    h += "Definition v_types : list ntype := %s.\n" % clist([t["coq"] for t in types])
    return h


def sweep_codes(obs_list):
    """One small number per sweep observation: class + 8*(peer index + 8*marker index)."""
    markers = [b""]
    codes = []
    for obs in obs_list:
        o = obs[0]
        m = unb64(o["marker"])
        if m not in markers:
            markers.append(m)
        cls = o["class"] if 0 <= o["class"] < 8 else 7
        if not 0 <= o["target"] < 8:
            raise vlib.TieBroken("sweep: peer index %r out of range" % o["target"])
        codes.append(cls + 8 * (o["target"] + 8 * markers.index(m)))
    return markers, codes


def sweep_job(header, nl, nt, cases, markers, codes, start, n, name, goff=0):
    """Coq source checking observations start..start+n against the enumeration made INSIDE Coq.
    The codes are shipped dictionary-coded: one block = the observations of one peer multiset
    (all local configurations x kinds x marker), distinct blocks listed once."""
    blk = nl * 4
    assert start % blk == 0 and n % blk == 0
    patterns, index = [], []
    for i in range(start, start + n, blk):
        pat = tuple(codes[i:i + blk])
        if pat not in patterns:
            patterns.append(pat)
        index.append(patterns.index(pat))
    spots = sorted({0, n - 1} | set(range(0, n, 997)))
    src = header
    src += "Definition v_markers : list bytes := %s.\n" % clist([cbytes(m) for m in markers])
    src += "Definition v_inputs := firstn (N.to_nat %d) (skipn (N.to_nat %d) (sweep_inputs (N.to_nat %d) (N.to_nat %d) 3)).\n" % (n, start, nl, nt)
    src += "Definition v_patterns : list (list N) := [\n%s].\n" % ";\n".join(clist([str(x) for x in pat]) for pat in patterns)
    src += "Definition v_index : list N := [\n%s].\n" % ";\n".join("; ".join(str(x) for x in index[i:i + 40]) for i in range(0, len(index), 40))
    src += "Definition v_codes : list N := flat_map (fun i => nth (N.to_nat i) v_patterns []) v_index.\n"
    src += "Definition v_spots : list (N * (N * kind * bool * list N)) := %s.\n" % clist(
        ["(%d, (%d, %s, %s, %s))" % (i, cases[start + i][0], KIND[cases[start + i][1]], cbool(cases[start + i][2] == 1),
                                   clist([str(x) for x in cases[start + i][4:]])) for i in spots])
    src += "Definition v_cases := sweep_cases_of v_markers v_inputs v_codes.\n"
    src += ("Definition verif_len := Eval vm_compute in (N.of_nat (length v_cases), N.of_nat (length v_codes), "
            "spots_ok v_inputs (map (fun s => (N.to_nat (fst s), snd s)) v_spots)).\nPrint verif_len.\n")
    src += "Definition verif_agree := Eval vm_compute in summaryN (failingN (sweep_agrees v_locals v_types) 0 v_cases).\nPrint verif_agree.\n"
    src += "Definition verif_oracle := Eval vm_compute in summaryN (failingN (sweep_oracle v_locals v_types) 0 v_cases).\nPrint verif_oracle.\n"

    def go():
        rc, out = vlib.coq_eval("C30", name, src)
        ag, orc = parse_summary(out, "verif_agree"), parse_summary(out, "verif_oracle")
        m = re.search(r"verif_len\s*=\s*\((\d+),\s*(\d+),\s*(true|false)\)", out)
        if rc != 0 or ag is None or orc is None or not m:
            raise vlib.InfraError("sweep evaluation failed: " + out[-2500:])
        if int(m.group(1)) != n or int(m.group(2)) != n or m.group(3) != "true":
            raise vlib.InfraError("sweep enumeration in Coq and in C30.py differ (%s) - fix tools/props/C30.py / Model.sweep_inputs" % m.group(0))
        return "sweep", goff + start, {"agree": ag, "oracle": orc}
    return go


def parse_summary(out, label):
    """`label = (count, [i; j; ...])` -> list of indices (at most 60 are listed; the count is kept
    by padding with the last index so that len() stays the number of failing cases)."""
    m = re.search(re.escape(label) + r"\s*=\s*\((\d+),\s*(\[[^\]]*\]|nil)\)", out)
    if not m:
        return None
    idx = [int(x) for x in re.findall(r"\d+", m.group(2))]
    return idx + idx[-1:] * (int(m.group(1)) - len(idx))


def cases_job(sec, header, case_type, terms, preds, start, n, name):
    def go():
        r = vlib.coq_check_cases("C30", header, case_type, terms[start:start + n], preds, chunk=max(n, 1), name=name)
        return sec, start, r
    return go


def run_jobs(jobs):
    res = {}
    with ThreadPoolExecutor(max_workers=max(2, min(10, vlib.NCPU - 2))) as ex:
        for sec, start, r in ex.map(lambda j: j(), jobs):
            d = res.setdefault(sec, {"agree": [], "oracle": []})
            for k in ("agree", "oracle"):
                d[k] += [start + x for x in r[k]]
    for d in res.values():
        d["agree"].sort()
        d["oracle"].sort()
    return res


# ---------------------------------------------------------------------------------------------
# run
# ---------------------------------------------------------------------------------------------

def harness_input(P, tier, seed, sections=("sweep", "decide", "endpoints", "e2e")):
    rng = random.Random(seed * 7919 + 30)
    types = type_table(P, tier)
    locals_ = local_table(P)
    inp = {"roles": list(P["roles"].values()) + UNKNOWN_ROLES, "types": [{k: t[k] for k in ("role", "ws", "state")} for t in types],
           "locals": [{k: l[k] for k in ("router", "has_local", "id", "role", "ws")} for l in locals_], "trials": 1,
           "sweep": [], "decide": [], "endpoints": [], "e2e": [], "wired": P["wired"],
           "ws_standby": P["wss"]["WriterStateStandby"], "ws_primary": P["wss"]["WriterStatePrimary"]}
    meta = {"types": types, "locals": locals_}
    meta["sweep_pass_len"] = 0
    if "sweep" in sections:
        one = sweep_cases(len(locals_), len(types))
        meta["sweep_pass_len"] = len(one)
        # second pass: the same space with the other load-balancing strategy on every case
        inp["sweep"] = one + [c[:3] + [1 - c[3]] + c[4:] for c in one]
    if "decide" in sections:
        meta["decide"] = decide_cases(rng, len(locals_), 150 if tier == "quick" else 3000)
        inp["decide"] = [{"local": d["local"], "kind": d["kind"], "raw": d["raw"]} for d in meta["decide"]]
    if "endpoints" in sections:
        inp["endpoints"] = endpoint_requests(P["endpoints"])
    if "e2e" in sections:
        corpus = []
        cdir = os.path.join(vlib.ROOT, "corpus", "C30")
        for fn in sorted(os.listdir(cdir)) if os.path.isdir(cdir) else []:
            if fn.endswith(".json"):
                obj = json.load(open(os.path.join(cdir, fn)))
                if obj.get("section") == "e2e" and obj.get("case"):
                    corpus.append(obj["case"])
        inp["e2e"] = corpus + e2e_cases(rng, P, 300 if tier == "quick" else 4000)
        meta["e2e"] = inp["e2e"]
    return inp, meta


def run_harness(inp, tag):
    return vlib.run_go_harness("C30", "./internal/api/", "^TestVerifRouting$", HARNESS, inp, tags=TAGS, timeout=2400, tag=tag)


def setup():
    translate_params()


def warm():
    run_harness({"roles": [], "types": [], "locals": [], "sweep": [], "decide": [], "endpoints": [], "e2e": [], "trials": 1}, "warm")


def finding_signature(e):
    return "unrouted-endpoint:%s %s" % (e["method"], e["route"])


def run(res, tier, seed):
    t0 = time.time()
    P = static_facts()
    res.stage("static_analysis", t0)
    t1 = time.time()
    inp, meta = harness_input(P, tier, seed)
    out = run_harness(inp, tier)
    res.stage("impl_harness", t1)
    t0 = time.time()
    P = translate_params(P, harness_caps=out.get("caps") or {})
    res.stage("translate_params", t0)
    res.cov["params"] = {"role_table": {n: P["caps"][n] for n in P["roles"]},
                         "endpoints": [(e["method"] + " " + e["route"], e["type"] + "." + e["func"], "write" if e["is_write"] else "query",
                                        e["consults"]) for e in P["endpoints"]],
                         "router_wired": P["wired"]}

    failed = vlib.std_proof_stage(res, "C30", AREA, MODULES, THEOREMS, extra_targets=["theories/Routing/Obligations.vo"])
    if tier == "thorough" and hasattr(vlib, "coqchk_stage"):
        ok, _ = vlib.coqchk_stage(res, MODULES)
        if not ok:
            failed.append(("coqchk", "coqchk rejects the compiled Routing development"))
    res.cov["trusted_base"] += [
        "HTTP header transport is an oracle transcribed into the model (fasthttp strips spaces from a received value, net/http trims "
        "space/tab from a sent value and refuses control bytes) and exercised by the decide/e2e correspondence on raw wire bytes",
        "a registry entry's APIAddress reaches the node that registered under that id (deliver); forwarding retries go to the same node",
        "C30_one_hop assumes the entry node's id contains a byte other than space/tab (C30_blank_marker_loops shows the need; "
        "generateNodeID and sane cluster.node_id values satisfy it)",
        "in-scope endpoints = routes registered in package api behind withWriteAuth / withReadAuth or POST /api/v1/import/*; "
        "'handler consults the decision' is a name-based go/ast call graph, cross-checked dynamically per endpoint",
        "target choice (map order, round robin, least connections) is universally quantified in the theorems, observed in the runs",
    ]

    locals_, types = meta["locals"], meta["types"]
    for sec in ("sweep", "decide", "endpoints", "e2e"):
        if len(out.get(sec) or []) != len(inp[sec]):
            raise vlib.TieBroken("harness returned %d %s results for %d cases" % (len(out.get(sec) or []), sec, len(inp[sec])))
    t2 = time.time()
    header = coq_header(locals_, types)
    npass = len(inp["sweep"]) // meta["sweep_pass_len"] if meta["sweep_pass_len"] else 0
    jobs = []
    plen = meta["sweep_pass_len"]
    chunk = len(locals_) * 4 * (250 if tier == "quick" else 1500)
    for ps in range(npass):
        cases_p = inp["sweep"][ps * plen:(ps + 1) * plen]
        markers, codes = sweep_codes(out["sweep"][ps * plen:(ps + 1) * plen])
        for start in range(0, plen, chunk):
            jobs.append(sweep_job(header, len(locals_), len(types), cases_p, markers, codes, start, min(chunk, plen - start),
                                  "Sweep_%s_p%d_%d" % (tier, ps, start), goff=ps * plen))
    dc_terms = [decide_coq(d, o) for d, o in zip(meta["decide"], out["decide"])]
    for start in range(0, len(dc_terms), 400):
        jobs.append(cases_job("decide", header, "decide_case", dc_terms, {"agree": "decide_agrees v_locals", "oracle": "decide_oracle v_locals"},
                              start, min(400, len(dc_terms) - start), "Decide_%s_%d" % (tier, start)))
    ep_terms = [endpoint_coq(e, o) for e, o in zip(P["endpoints"], out["endpoints"])]
    jobs.append(cases_job("endpoints", header, "endpoint_case", ep_terms, {"agree": "endpoint_agrees", "oracle": "endpoint_oracle"},
                          0, len(ep_terms), "Endpoints_" + tier))
    ee_terms = [e2e_coq(P, c, o) for c, o in zip(inp["e2e"], out["e2e"])]
    for start in range(0, len(ee_terms), 100):
        jobs.append(cases_job("e2e", header, "e2e_case", ee_terms, {"agree": "e2e_agrees", "oracle": "e2e_oracle"},
                              start, min(100, len(ee_terms) - start), "E2E_%s_%d" % (tier, start)))
    R = run_jobs(jobs)
    empty = {"agree": [], "oracle": []}
    swp, dc, ep, ee = R.get("sweep", empty), R.get("decide", empty), R.get("endpoints", empty), R.get("e2e", empty)
    sw = swp
    sw_terms = inp["sweep"]
    res.stage("coq_eval", t2)

    # ---- coverage -------------------------------------------------------------------------
    n_eval = len(sw_terms) + len(dc_terms) + 6 * len(ep_terms) + len(ee_terms)
    res.cov["evaluations"] = n_eval
    sweep_nontrivial = sum(1 for c in inp["sweep"] if locals_[c[0]]["router"])
    distinct = len({json.dumps(c[:3] + c[4:]) for c in inp["sweep"] if locals_[c[0]]["router"]})
    dd = len({(d["local"], d["kind"], tuple(d["vals"])) for d in meta["decide"]})
    de = len({json.dumps({k: c[k] for k in ("nodes", "entry", "kind", "header", "route")}, sort_keys=True) for c, o in zip(meta["e2e"], out["e2e"])
              if len(c["nodes"]) >= 2})
    res.cov["distinct_nontrivial"] = distinct + dd + 6 * len(ep_terms) + de
    res.cov["exhaustive"] = True
    res.cov["rule"] = ("exhaustive sweep: every (local configuration: no router | router without LocalNode | LocalNode of every role x writer state: %d) x "
                       "(write|query) x (client marker absent|present) x every multiset of 0..3 peers over %d node types "
                       "(role x writer state x health), i.e. clusters of 1..4 nodes, through the real handler, Router and Registry "
                       "(%d cases, non-trivial = a router is present: %d); plus decideForward on %d distinct wire-level header cases, "
                       "%d endpoints x 6 scenarios with real back ends, and %d distinct clusters of >= 2 real nodes (path, hops, marker)"
                       % (len(locals_) - 2, len(types), len(sw_terms), sweep_nontrivial, dd, len(ep_terms), de))
    classes = {}
    for obs in out["sweep"]:
        for o in obs:
            classes[o["class"]] = classes.get(o["class"], 0) + 1
    hopsh = {}
    for o in out["e2e"]:
        hopsh[len(o["hits"]) - 1] = hopsh.get(len(o["hits"]) - 1, 0) + 1
    names = {0: "local", 1: "loop-508", 2: "no-writer-503", 3: "no-reader-503", 4: "forwarded", 5: "route-fail-502", 6: "panic", 7: "hop-limit"}
    res.cov["histogram"] = {"sweep_response_classes": {names.get(k, str(k)): v for k, v in sorted(classes.items())},
                            "sweep_cases_by_peer_count": {str(k): sum(1 for c in inp["sweep"] if len(c) - 4 == k) for k in range(4)},
                            "e2e_hops": {str(k): v for k, v in sorted(hopsh.items())},
                            "e2e_final_classes": {names.get(k, str(k)): sum(1 for o in out["e2e"] if o["class"] == k) for k in sorted({o["class"] for o in out["e2e"]})},
                            "e2e_cluster_sizes": {str(k): sum(1 for c in meta["e2e"] if len(c["nodes"]) == k) for k in range(1, 5)},
                            "decide_decisions": {str(k): sum(1 for o in out["decide"] if o["decision"] == k) for k in (0, 1, 2)}}
    mid = len(inp["sweep"]) // 2
    res.cov["samples"] = [{"sweep_case": inp["sweep"][mid], "peers": [inp["types"][i] for i in inp["sweep"][mid][4:]],
                           "local": inp["locals"][inp["sweep"][mid][0]], "observed": out["sweep"][mid]},
                          {"e2e_case": inp["e2e"][1], "observed": out["e2e"][1]},
                          {"endpoint": inp["endpoints"][0], "observed": out["endpoints"][0]["obs"]}]
    res.cov["model_vs_impl_disagreements"] = len(sw["agree"]) + len(dc["agree"]) + len(ep["agree"]) + len(ee["agree"])

    # ---- verdicts -----------------------------------------------------------------------------
    known = {e["signature"]: e for e in vlib.known_for("C30")}
    oracle_failures = len(sw["oracle"]) + len(dc["oracle"]) + len(ep["oracle"]) + len(ee["oracle"])
    res.cov["oracle_failures"] = oracle_failures
    reported = False

    # endpoints: oracle failures are concrete (an incapable node processed the request)
    for i in ep["oracle"]:
        e, o = P["endpoints"][i], out["endpoints"][i]
        sig = finding_signature(e)
        incapable_served = any(x["class"] == 0 for x in o["obs"][:2])
        predicted = (i not in ep["agree"]) and not e["consults"]
        if incapable_served and sig in known and predicted:
            res.known_finding("%s %s is processed locally by a node whose role cannot serve it (handler %s.%s never consults the routing "
                              "decision): scenario reader/compactor node -> HTTP %d instead of forward/508"
                              % (e["method"], e["route"], e["type"], e["func"], o["obs"][0]["status"]))
            continue
        if incapable_served:
            what = "a node whose role cannot serve the request processed it locally"
        else:
            bad = [k for k, x in enumerate(o["obs"]) if k >= 2 and x["class"] != 0]
            what = ("a node that CAN serve the request did not process it (scenario %s: %s -> HTTP %s)"
                    % (bad, ["", "", "writer, no marker", "no router", "standby writer + client marker", "primary writer + client marker"][bad[0]] if bad else "?",
                       o["obs"][bad[0]]["status"] if bad else "?"))
        res.violation("%s %s: %s" % (e["method"], e["route"], what),
                      {"kind": "endpoint-oracle", "endpoint": e, "request": inp["endpoints"][i],
                       "observed": o["obs"], "model_predicted_this": predicted,
                       "how_to_replay": "python3 tools/check.py C30 --replay <this file>"}, suffix="endpoint")
        reported = True
    deferred = []            # correspondence-only reports go after the concrete failing inputs
    ep_corr = [i for i in ep["agree"] if i not in ep["oracle"]]
    if ep_corr:
        i = ep_corr[0]
        e = P["endpoints"][i]
        deferred.append(("%s %s (and %d more endpoints): static 'consults the decision' = %s but the real handler behaves differently from the model"
                         % (e["method"], e["route"], len(ep_corr) - 1, e["consults"]),
                         {"kind": "correspondence", "correspondence": TIE_NAME, "section": "endpoints", "endpoint": e,
                          "request": inp["endpoints"][i], "observed": out["endpoints"][i]["obs"],
                          "all_disagreeing_endpoints": [P["endpoints"][j]["method"] + " " + P["endpoints"][j]["route"] for j in ep_corr]}))

    def report(sec, idxs_agree, idxs_oracle, cases, obs, what):
        nonlocal reported
        tables = {"locals": inp["locals"], "types": inp["types"]} if sec in ("sweep", "decide") else None
        for i in idxs_oracle[:3]:
            res.violation("%s: property oracle fails on the implementation's output" % what,
                          {"kind": sec + "-oracle", "section": sec, "case": cases[i], "observed": obs[i], "tables": tables,
                           "model_disagrees_too": i in idxs_agree,
                           "how_to_replay": "python3 tools/check.py C30 --replay <this file>"}, suffix=sec)
            reported = True
        rest = [i for i in idxs_agree if i not in idxs_oracle]
        if rest:
            c, o = shrink_index(sec, rest, cases, obs)
            deferred.append(("%s: model and implementation disagree (%d cases)" % (what, len(idxs_agree)),
                             {"kind": "correspondence", "correspondence": TIE_NAME, "section": sec, "case": c, "observed": o,
                              "tables": tables, "disagreeing_cases": len(idxs_agree)}))

    report("sweep", sw["agree"], sw["oracle"], inp["sweep"], out["sweep"], "sweep (handler + Router + Registry)")
    report("decide", dc["agree"], dc["oracle"], [dict(d, vals=[b64(v) for v in d["vals"]]) for d in meta["decide"]], out["decide"], "decideForward")
    report("e2e", ee["agree"], ee["oracle"], inp["e2e"], out["e2e"], "cluster of real nodes")
    for summary, obj in deferred:
        res.violation(summary, obj, no_input=True, suffix="corr")
        reported = True

    if failed:
        res.notes.append("proof obligations not discharged: " + "; ".join(r for _, r in failed))
    if failed and not reported:
        res.violation("proof obligation(s) no longer check: " + "; ".join(r for _, r in failed),
                      {"kind": "obligation-failed", "theorems": [t for t, _ in failed], "detail": [r for _, r in failed],
                       "params": res.cov["params"]}, no_input=True, suffix="obligation")


def shrink_index(sec, idxs, cases, obs):
    """Smallest disagreeing case (fewest peers / nodes) - the spaces are enumerated, so the
    smallest member of the failing set is the shrunk witness."""
    def size(i):
        c = cases[i]
        if sec == "sweep":
            return len(c)
        if sec == "e2e":
            return sum(1 + len(n["view"]) for n in c["nodes"])
        return len(json.dumps(c))
    i = min(idxs, key=size)
    return cases[i], obs[i]


def replay(res, path):
    obj = json.load(open(path))
    P = static_facts()
    kind = obj.get("kind", "")
    if kind in ("endpoint-processed-by-incapable-node", "endpoint-oracle") or obj.get("section") == "endpoints":
        inp, meta = harness_input(P, "quick", 1, sections=())
        inp["endpoints"] = [obj["request"]]
        out = run_harness(inp, "replay")
        o = out["endpoints"][0]["obs"]
        bad = o[0]["class"] == 0 or o[1]["class"] == 0 or any(x["class"] != 0 for x in o[2:])
        print("observed scenario classes:", [x["class"] for x in o], "statuses:", [x["status"] for x in o],
              "| incapable node processed locally or capable node refused:", bad)
        return 1 if bad else 0
    sec = obj.get("section")
    if sec in ("sweep", "decide", "e2e") and obj.get("case") is not None:
        inp, meta = harness_input(P, "quick", 1, sections=())
        if obj.get("tables"):
            inp["locals"], inp["types"] = obj["tables"]["locals"], obj["tables"]["types"]
        c = obj["case"]
        if sec == "decide":
            inp["decide"] = [{"local": c["local"], "kind": c["kind"], "raw": c["raw"]}]
        else:
            inp[sec] = [c]
        out = run_harness(inp, "replay")
        print("observed now:", json.dumps(out[sec][0]))
        print("recorded    :", json.dumps(obj.get("observed")))
        same = json.dumps(out[sec][0], sort_keys=True) == json.dumps(obj.get("observed"), sort_keys=True)
        print("same as recorded:", same)
        return 1 if same else 0
    print("replay file names no concrete case:", obj.get("summary"))
    return 1
