"""C01 - Line-protocol points are stored exactly as written.

Proof: coq/theories/LP.  Byte-level Gallina transcription of internal/ingest/lineprotocol.go
(TrimSpace, splitOnDelimiter, unescape, key=value split, parseFieldValue, the four timestamp
precisions, ParseBatchWithPrecision, BatchToColumnar) and the line-protocol grammar
(`point`, `encode_batch`).  Theorems (Arc.LP.Props):
  C01_roundtrip_fixed    PRIMARY: parse_batch (split at the first unescaped =, the code in /repo) (encode_batch ps) = map conv ps, ALL well-formed batches
  C01_roundtrip_guarded  the same for the split that is in /repo today, when no key contains '='
  C01_roundtrip_refuted  the code in /repo today mangles / drops a well-formed point whose key contains '='
  C01_ts_conv            the precision guards are exactly "the microsecond value is an int64"
  C01_columnar           BatchToColumnar keeps every row, in order, nil where a key is absent
  C01_fix_conservative   the fixed split equals bytes.IndexByte unless an '=' follows a backslash
  C01_store_exact / C01_store_unsigned_overflow_refused   what the buffer accepts is stored with exactly the
                         written typed values; an unsigned column with a value above MaxInt64 is refused
Second observable: BatchToColumnar's output goes through a real ArrowBuffer (temporary LocalBackend,
WriteColumnarRecord, FlushAll); the Parquet files are read back and the accept/refuse decision and the
stored rows are compared with the model (store_measurement) and with what the points denote.
Tie: the real ParseBatchWithPrecision and BatchToColumnar run (harness/lp, injected by
overlay, no source rewrite) on grammar-generated batches encoded by the Python twin of
`encode_batch` (checked equal to the Coq one inside Coq), on a near-grammar stream and on a
mutated/malformed stream; the records and columns are compared with the model inside Coq.
Which key=value split the working tree has (IndexByte, or the proposed fix) is detected by
replaying the refutation witnesses; the open known finding is reported in the first case.
"""
import json
import os
import random
import time

import vlib
from vlib import cz, cbool

AREA = "LP"
MODULES = ["Arc.LP.Props"]
THEOREMS = [("Arc.LP.Props", t) for t in (
    "C01_roundtrip_fixed",            # PRIMARY: the parser in /repo (split at the first unescaped '='), all well-formed batches
    "C01_ts_conv", "C01_columnar", "C01_store_exact", "C01_store_unsigned_overflow_refused",
    # statements about the split /repo had before 51370f6 (kept: they pin the fixed finding and the conservativity of the fix)
    "C01_roundtrip_guarded", "C01_roundtrip_refuted", "C01_fix_conservative")]
TIE_NAME = "C01 correspondence (ingest.ParseBatchWithPrecision + BatchToColumnar vs Arc.LP.Model.parse_batch / batch_to_columnar)"
HARNESS = {"internal/ingest/zz_lp_verif_test.go": "harness/lp/lp_verif_test.go"}
SIG = "key-contains-escaped-equals"
SIG_US = "underscore-prefixed-key-not-stored"

MAX_I64, MIN_I64, MAX_U64 = 2 ** 63 - 1, -2 ** 63, 2 ** 64 - 1

# ------------------------------------------------------------------------------------------
# Python twin of the Coq `encode_batch` (checked against it inside Coq: case_encoded)
# ------------------------------------------------------------------------------------------

NAME_SPECIAL = b', ="\\'
STR_SPECIAL = b'"\\'


def escape(s, special):
    out = bytearray()
    for c in s:
        if c in special:
            out.append(92)
        out.append(c)
    return bytes(out)


BOOL_LIT = {True: [b"t", b"T", b"true", b"True", b"TRUE"], False: [b"f", b"F", b"false", b"False", b"FALSE"]}


def enc_fvalue(v):
    k = v[0]
    if k == "float":
        return v[1]
    if k == "int":
        return str(v[1]).encode() + b"i"
    if k == "uint":
        return str(v[1]).encode() + b"u"
    if k == "str":
        return b'"' + escape(v[1], STR_SPECIAL) + b'"'
    return BOOL_LIT[v[1]][min(v[2], 4)]


def encode_point(p, em):
    ms = b', "\\' + (b"=" if em else b"")
    head = b",".join([escape(p["m"], ms)] + [escape(k, NAME_SPECIAL) + b"=" + escape(v, NAME_SPECIAL) for k, v in p["tags"]])
    fields = b",".join(escape(k, NAME_SPECIAL) + b"=" + enc_fvalue(v) for k, v in p["fields"])
    parts = [head, fields] + ([str(p["ts"]).encode()] if p["ts"] is not None else [])
    return b" ".join(parts)


def encode_batch(ps, em, tnl):
    return b"\n".join(encode_point(p, em) for p in ps) + (b"\n" if tnl else b"")


# ------------------------------------------------------------------------------------------
# generators
# ------------------------------------------------------------------------------------------

UTF8 = ["\u00e9", "\u00df", "\u4e16", "\u754c", "\U0001f600", "\u0436", "\u00a0", "\u2028", "\u3000", "\u2003", "\u0085", "\u00fc", "\u1680", "\u205f"]
PLAIN = b"abcdefghijklmnopqrstuvwxyzABCDEFGHIJKLMNOPQRSTUVWXYZ0123456789_-"
PUNCT = b"#!'()*+./:;<>?@[]^`{|}~$%&"
TS_EDGES = [0, 1, -1, 999, -999, 1000, -1000, 1500, -1500, 1999, -1999, MAX_I64, MIN_I64, MAX_I64 - 1, MIN_I64 + 1,
            MAX_I64 // 1000, MAX_I64 // 1000 + 1, MAX_I64 // 1000 - 1, -(MAX_I64 // 1000), -(MAX_I64 // 1000) - 1,
            -(2 ** 63 // 1000), -(2 ** 63 // 1000) - 1, -(2 ** 63 // 1000) + 1,
            MAX_I64 // 10 ** 6, MAX_I64 // 10 ** 6 + 1, MAX_I64 // 10 ** 6 - 1, -(2 ** 63 // 10 ** 6), -(2 ** 63 // 10 ** 6) - 1,
            -(2 ** 63 // 10 ** 6) + 1, 1609459200000000000, 1609459200000000, 1609459200000, 1609459200, -62135596800]
FLOATS = [b"1", b"0", b"-1.5", b"0.0", b"1e10", b"1E-5", b".5", b"5.", b"+3", b"-0", b"1e308", b"123456789.123456789",
          b"-1.7976931348623157e308", b"4.9e-324", b"1e-400", b"0e0", b"00012.50", b"+.5e-3", b"9007199254740993", b"1.e1"]
PRECS = ["ns", "us", "ms", "s", "ns", "us", "ms", "s", "", "n", "u", "S", "sec"]


def rname(rng, minlen=1, maxlen=6, heavy=False):
    n = rng.randint(minlen, maxlen)
    out = bytearray()
    for _ in range(n):
        x = rng.random()
        if x < (0.45 if heavy else 0.22):
            out.append(rng.choice(NAME_SPECIAL))
        elif x < 0.62:
            out.append(rng.choice(PLAIN))
        elif x < 0.72:
            out.append(rng.choice(PUNCT))
        elif x < 0.86:
            out += rng.choice(UTF8).encode()
        elif x < 0.89:
            out.append(rng.choice(b"\t\r\x0b\x0c\x00\x7f\x01"))
        elif x < 0.93:
            out += rng.choice([b"i", b"u", b"t", b"T", b"true", b"f", b"e", b"1"])
        else:
            out.append(rng.choice(PLAIN))
    return bytes(out)


def lead_ok(m):
    """Python twin of meas_lead_ok (only used to keep generated points inside the domain)."""
    if not m or m[0] == 35:
        return False
    if m[0] < 128:
        return m[0] == 32 or m[0] not in (9, 10, 11, 12, 13)
    for seq in ("\u00a0", "\u0085", "\u1680", "\u2028", "\u2029", "\u202f", "\u205f", "\u3000"):
        if m.startswith(seq.encode()):
            return False
    if m[:2] == b"\xe2\x80" and len(m) > 2 and 0x80 <= m[2] <= 0x8a:
        return False
    return True


def rvalue(rng, i):
    k = ["float", "int", "uint", "str", "bool"][(i + rng.randrange(5)) % 5] if rng.random() < 0.7 else rng.choice(["float", "int", "uint", "str", "bool"])
    if k == "float":
        if rng.random() < 0.6:
            return ("float", rng.choice(FLOATS))
        return ("float", repr(rng.uniform(-1e6, 1e6)).encode())
    if k == "int":
        return ("int", rng.choice([0, 1, -1, MAX_I64, MIN_I64, MAX_I64 - 1, 42, -7, rng.randrange(MIN_I64, MAX_I64)]))
    if k == "uint":
        return ("uint", rng.choice([0, 1, MAX_U64, MAX_U64 - 1, 2 ** 63, rng.randrange(0, MAX_U64)]))
    if k == "str":
        n = rng.randint(0, 8)
        s = bytearray()
        for _ in range(n):
            x = rng.random()
            if x < 0.35:
                s.append(rng.choice(b', ="\\'))
            elif x < 0.5:
                s += rng.choice(UTF8).encode()
            elif x < 0.55:
                s.append(rng.choice(b"\t\r#"))
            else:
                s.append(rng.choice(PLAIN))
        return ("str", bytes(s))
    return ("bool", rng.random() < 0.5, rng.randrange(5))


def rpoint(rng, heavy=False):
    m = rname(rng, 1, 5, heavy)
    while not lead_ok(m):
        m = rng.choice([b"m", b"cpu", b" ", b"\\", b","]) + m
    tags, seen = [], set()
    for _ in range(rng.choice([0, 0, 1, 1, 2, 3])):
        k = rname(rng, 1, 4, heavy)
        if k in seen:
            continue
        seen.add(k)
        v = rname(rng, 0, 5, heavy)
        tags.append((k, v))
    fields, fseen = [], set()
    nf = rng.choice([1, 1, 2, 2, 3, 4])
    i0 = rng.randrange(5)
    while len(fields) < nf:
        k = rname(rng, 1, 4, heavy)
        if k in fseen:
            continue
        fseen.add(k)
        fields.append((k, rvalue(rng, i0 + len(fields))))
    ts = None
    x = rng.random()
    if x < 0.45:
        ts = rng.choice(TS_EDGES)
    elif x < 0.8:
        ts = rng.randrange(MIN_I64, MAX_I64 + 1) if rng.random() < 0.5 else rng.randrange(-10 ** 16, 10 ** 19)
        ts = max(MIN_I64, min(MAX_I64, ts))
    return {"m": m, "tags": tags, "fields": fields, "ts": ts}


def strip_eq(p):
    """Same point with '=' removed from every key (the guarded class)."""
    def f(k):
        k2 = k.replace(b"=", b"_")
        return k2
    tags, seen = [], set()
    for k, v in p["tags"]:
        k2 = f(k)
        while k2 in seen:
            k2 += b"x"
        seen.add(k2)
        tags.append((k2, v))
    fields, seen = [], set()
    for k, v in p["fields"]:
        k2 = f(k)
        while k2 in seen:
            k2 += b"x"
        seen.add(k2)
        fields.append((k2, v))
    return dict(p, tags=tags, fields=fields)


def valid_cases(rng, n):
    cases = []
    for i in range(n):
        heavy = i % 3 == 0
        ps = [rpoint(rng, heavy) for _ in range(rng.choice([1, 1, 2, 3, 4]))]
        if rng.random() < 0.3 and len(ps) > 1:          # same measurement twice: columnar grouping with nil fill
            ps[-1] = dict(ps[-1], m=ps[0]["m"])
        if i % 2 == 0:
            ps = [strip_eq(p) for p in ps]
        em, tnl = rng.random() < 0.5, rng.random() < 0.5
        cases.append({"stream": "grammar", "points": ps, "em": em, "tnl": tnl, "prec": rng.choice(PRECS),
                      "data": encode_batch(ps, em, tnl)})
    return cases


EDGE_LINES = [
    b"", b"\n", b"#comment", b"  # c", b"cpu", b"cpu ", b"cpu v=1", b"cpu  v=1", b"cpu v=1 ", b" cpu v=1 7 8 9", b"cpu v=1 x",
    b"cpu v=1 +5", b"cpu v=1 -5", b"cpu v=1 9223372036854775808", b"cpu v=1 -9223372036854775808", b"cpu v=1 1_0", b"cpu v=1 \t5",
    b",a=b v=1", b"cpu, v=1", b"cpu,, v=1", b"cpu,a v=1", b"cpu,=b v=1", b"cpu,a= v=1", b"cpu,a=b=c v=1", b"cpu,a=b,a=c v=1",
    b"cpu,a\\=b=c v=1", b"cpu,a\\\\=b v=1", b"cpu,a\\ v=1", b"cpu,a\\", b"cpu v\\=w=1i 1000", b"cpu v\\==1", b"cpu \\=v=1", b"cpu =1",
    b"cpu v=", b"cpu v= ,w=2", b"cpu v=t,w=T,x=true,y=TRUE,z=tRuE,a=f,b=F,c=false,d=FALSE,e=fAlSe,g=tru,h=truee,i=ff",
    b'cpu v="a b"', b'cpu v="a\\"b"', b'cpu v="', b'cpu v=""', b'cpu v="""', b'cpu v="a', b'cpu v=a"', b'cpu v="a"b', b'cpu v="a\\"', b'cpu v=""a""',
    b'cpu v="a,b=c d",w=1', b'cpu,t=a"b v=1i,w="x y" 5', b'cpu,t="a b" v=1', b'cpu v="x\\,y\\ z\\=w\\\\q\\n"',
    b"cpu v=1i,w=-1i,x=+1i,y=i,z=-i,a=1.5i,b=9223372036854775807i,c=9223372036854775808i,d=-9223372036854775808i,e=-9223372036854775809i,f=007i,g=1_0i",
    b"cpu v=1u,w=-1u,x=+1u,y=u,a=18446744073709551615u,b=18446744073709551616u,c=00u,d=99999999999999999999999u",
    b"cpu v=1.5,w=1e400,x=nan,y=inf,z=-Inf,a=0x1p-2,b=1_000,c=.,d=1e,e=--1,f=abc,g=Infinity,h=1e-400,i=+.5",
    b"cpu v=1 1000\ncpu v=2 2000\r\n\ncpu v=3", b"cpu\\ a,b\\,c=d\\=e f\\ g=1", b"c\\pu v=1", b"cpu\\", b"\\ v=1", b'"cpu" v=1', b'"cpu v=1" w=2',
    b"\xc2\xa0cpu v=1\xe2\x80\xa8", b"cpu v=1\xc2\x85", b"cpu v=1\xc2", b"\xe2\x80cpu v=1", b"cpu v=\xc2\xa01\xc2\xa0", b"cpu v=1 \xe3\x80\x805",
    b'cpu v="\xff\xfe"', b'cpu,t=\xff v="ok\xc0\xaf"', b'cpu v="\xed\xa0\x80",w="\xf4\x90\x80\x80",x="\xe0\x9f\xbf",y="\xf0\x8f\xbf\xbf"', b'cpu v=\xffabc',
    b"cpu,time=x v=1 5", b"cpu time=3 5", b"cpu,a=1 a=2,a_value=3", b"cpu,a=1,a_value=9 a=2", b"cpu,time=x time=2", b"cpu v=1,v=2,v=3i",
    b"cpu,a=1 v=1 1\ncpu,b=2 w=2i 2\nmem,a=1 v=t\ncpu v=3u 3", b"cpu v=1 1\ncpu,v=x f=2 2", b"a\tb v=1", b"cpu\tv=1", b"cpu v=1\t5",
]


def mutate(rng, data):
    b = bytearray(data)
    for _ in range(rng.choice([1, 1, 1, 2, 3])):
        op = rng.randrange(7)
        pos = rng.randrange(len(b) + 1) if b else 0
        ins = rng.choice([b"\\", b'"', b",", b"=", b" ", b"\n", b"\t", b"#", b"i", b"u", b"t", b"-", b"+", b".", b"e", b"\\=", b'\\"', b"\\\\",
                          b"\xc2\xa0", b"\xff", b"\xe2\x80", b"\xc2", b"1", b"  ", b",,", b"=="])
        if op == 0 and b:
            del b[min(pos, len(b) - 1)]
        elif op in (1, 2):
            b[pos:pos] = ins
        elif op == 3 and b:
            b[min(pos, len(b) - 1)] = rng.choice(ins)
        elif op == 4 and b:
            del b[pos:]
        elif op == 5 and b:
            q = rng.randrange(len(b) + 1)
            lo, hi = min(pos, q), max(pos, q)
            b[lo:lo] = b[lo:min(hi, lo + 6)]
        elif op == 6 and len(b) > 1:
            i = min(pos, len(b) - 2)
            b[i], b[i + 1] = b[i + 1], b[i]
    return bytes(b)


def near_cases(rng, n):
    """Points just outside the domain (unescaped quotes in names, duplicate keys, reserved
    column names, field named like a tag, invalid UTF-8 in strings, leading white space):
    only model = implementation is required."""
    out = []
    for i in range(n):
        ps = [rpoint(rng, i % 2 == 0) for _ in range(rng.choice([1, 2, 3]))]
        if len(ps) > 1:
            ps[1] = dict(ps[1], m=ps[0]["m"])
        kind = i % 6
        p = ps[0]
        if kind == 0 and p["tags"]:          # duplicate / colliding names
            p["fields"].append((p["tags"][0][0], rvalue(rng, i)))
            if rng.random() < 0.5:
                p["fields"].append((p["tags"][0][0] + b"_value", rvalue(rng, i + 1)))
        elif kind == 1:
            p["tags"].append((rng.choice([b"time", b"measurement"]), b"x"))
            p["fields"].append((b"time", rvalue(rng, i)))
        elif kind == 2:
            p["fields"].append((p["fields"][0][0], rvalue(rng, i)))
            if p["tags"]:
                p["tags"].append((p["tags"][0][0], b"dup"))
        elif kind == 3:
            p["fields"].append((b"bad", ("str", rng.choice([b"\xff", b"a\xc0\xafb", b"\xed\xa0\x80", b"ok\xe2\x82", b"\xf5\x80\x80\x80", b"x\ny"]))))
        elif kind == 4:
            p["m"] = rng.choice([b"\t", b"#", b"\xc2\xa0", b"\xe2\x80\x83", b"\r", b"\xe3\x80\x80"]) + p["m"]
        data = encode_batch(ps, rng.random() < 0.5, rng.random() < 0.5)
        if kind == 5:                        # unescaped double quote inside a name: quote tracking
            data = data.replace(b'\\"', b'"', rng.choice([1, 2]))
        out.append(raw_case("near", data, rng.choice(PRECS)))
    return out


def malformed_cases(rng, n, seeds):
    out = [{"stream": "edge", "points": None, "em": False, "tnl": False, "prec": PRECS[i % 5], "data": d} for i, d in enumerate(EDGE_LINES)]
    for i in range(n):
        base = rng.choice(seeds)["data"] if rng.random() < 0.85 else rng.choice(EDGE_LINES)
        out.append({"stream": "mutated", "points": None, "em": False, "tnl": False, "prec": rng.choice(PRECS), "data": mutate(rng, base)})
    return out


U_EDGES = [2 ** 63 - 1, 2 ** 63, 2 ** 63 + 1, MAX_U64, MAX_U64 - 1, 2 ** 63 - 2, 0, 1, 42, 2 ** 62, 2 ** 64 - 2 ** 32]


def storage_cases(rng, n):
    """Bodies for the second observable (WriteColumnarRecord -> FlushAll -> Parquet read-back):
    measurement names the HTTP handler accepts, 2-5 points per measurement sharing field keys,
    homogeneous unsigned columns with values around 2^63 and 2^64-1, nil cells (absent keys),
    all five types, a few underscore-prefixed keys and a few type-mixed columns."""
    out = []
    for i in range(n):
        nm = rng.choice([1, 1, 1, 2])
        meas = []
        while len(meas) < nm:
            m = (rng.choice(b"abcdXYZ") .to_bytes(1, "big") + bytes(rng.choice(b"abcxyz019_-") for _ in range(rng.randint(0, 5))))
            if m not in meas:
                meas.append(m)
        ps = []
        for m in meas:
            npts = rng.randint(1, 5)
            nkeys = rng.randint(1, 4)
            keys, kinds = [], []
            while len(keys) < nkeys:
                k = rname(rng, 1, 4, heavy=(i % 4 == 0))
                if i % 9 == 0 and rng.random() < 0.4:
                    k = b"_" + k
                try:
                    k.decode("utf-8")
                except UnicodeDecodeError:
                    continue
                if k in keys or k == b"time":
                    continue
                keys.append(k)
                kinds.append(rng.choice(["uint", "uint", "uint", "int", "float", "str", "bool"]))
            tagk = [k for k in (rname(rng, 1, 3) for _ in range(rng.choice([0, 1, 2]))) if k not in keys and k != b"time" and _is_utf8(k)]
            tagk = list(dict.fromkeys(tagk))
            mode = i % 6         # 0,1: every point has every key (homogeneous columns)  2,3: keys may be absent  4: one mixed column  5: small values only
            t0 = rng.choice([1700000000000000, 0, -3600000000, 1700000000000000 + 3600000000 * rng.randint(0, 3), rng.randrange(-10 ** 15, 10 ** 16)])
            for j in range(npts):
                fields = []
                for k, kind in zip(keys, kinds):
                    if mode in (2, 3) and rng.random() < 0.3 and len(fields) + (len(keys) - keys.index(k) - 1) >= 1:
                        continue
                    if kind == "uint":
                        v = ("uint", rng.choice(U_EDGES) if mode != 5 else rng.randrange(0, 1000))
                        if rng.random() < 0.35:
                            v = ("uint", rng.randrange(0, 2 ** 63))
                    elif kind == "int":
                        v = ("int", rng.choice([0, -1, MAX_I64, MIN_I64, rng.randrange(MIN_I64, MAX_I64)]))
                    elif kind == "float":
                        v = ("float", rng.choice(FLOATS[:12]))
                    elif kind == "str":
                        v = rvalue(rng, 3)
                        v = v if v[0] == "str" else ("str", b"s p,=\"")
                    else:
                        v = ("bool", rng.random() < 0.5, rng.randrange(5))
                    if mode == 4 and k == keys[0] and j == npts - 1 and npts > 1:
                        v = rng.choice([("int", 7), ("float", b"2.5"), ("str", b"x"), ("bool", True, 0), ("uint", MAX_U64)])
                    fields.append((k, v))
                if not fields:
                    fields.append((keys[0], ("uint", rng.choice(U_EDGES))))
                tags = [(k, rname(rng, 0, 3)) for k in tagk if rng.random() < 0.8]
                ts = t0 + rng.choice([0, 1, 2, 3600000000, 7200000001, j]) if rng.random() < 0.9 else None
                ps.append({"m": m, "tags": tags, "fields": fields, "ts": ts})
        rng.shuffle(ps)
        tnl = rng.random() < 0.5
        out.append({"stream": "storage", "points": ps, "em": False, "tnl": tnl, "prec": "us" if rng.random() < 0.8 else rng.choice(["ns", "ms", "s"]),
                    "data": encode_batch(ps, False, tnl), "store": True, "cols": True})
    return out


def mark_columnar(cases):
    """BatchToColumnar is compared on every near-grammar case (name collisions) and on every
    third other case; the parser is compared on all of them."""
    for i, c in enumerate(cases):
        c["cols"] = c.get("store", False) or c["stream"] in ("near", "witness", "edge") or i % 3 == 0


def witness_cases():
    """Refutation witnesses of C01_roundtrip_refuted (and the fixed behaviour they must show after the fix)."""
    w1 = {"m": b"cpu", "tags": [(b"a=b", b"c")], "fields": [(b"v", ("int", 1))], "ts": None}
    w2 = {"m": b"cpu", "tags": [(b"host", b"a")], "fields": [(b"v=w", ("int", 1))], "ts": 1000}
    return [{"stream": "witness", "points": [p], "em": False, "tnl": False, "prec": "ns", "data": encode_batch([p], False, False)} for p in (w1, w2)]


# ------------------------------------------------------------------------------------------
# Coq printing
# ------------------------------------------------------------------------------------------

def cb(b):
    """bytes -> Coq term of type bytes (Arc.LP.Pack.hx: 7 bytes per primitive-int literal)."""
    if not b:
        return "[]"
    return "(hx [" + ";".join("0x1" + bytes(b[i:i + 7]).hex() for i in range(0, len(b), 7)) + "]%uint63)"


def copt(x):
    return "None" if x is None else "(Some %s)" % x


def c_fvalue(v):
    k = v[0]
    if k == "float":
        return "(FFloat %s)" % cb(v[1])
    if k == "int":
        return "(FInt %s)" % cz(v[1])
    if k == "uint":
        return "(FUint %s)" % cz(v[1])
    if k == "str":
        return "(FStr %s)" % cb(v[1])
    return "(FBool %s %d)" % (cbool(v[1]), v[2])


def c_point(p):
    return "{| p_meas := %s; p_tags := [%s]; p_fields := [%s]; p_ts := %s |}" % (
        cb(p["m"]), ";".join("(%s,%s)" % (cb(k), cb(v)) for k, v in p["tags"]),
        ";".join("(%s,%s)" % (cb(k), c_fvalue(v)) for k, v in p["fields"]),
        copt(cz(p["ts"]) if p["ts"] is not None else None))


def c_value(t, payload):
    if t == "b":
        return "(VBool %s)" % cbool(payload == "t")
    if t == "i":
        return "(VInt %s)" % cz(int(payload))
    if t == "u":
        return "(VUint %s)" % cz(int(payload))
    if t == "f":
        return "(VFloatBits %s)" % cz(int(payload))
    if t == "s":
        return "(VStr %s)" % cb(bytes.fromhex(payload))
    if t == "now":
        return "VNow"
    return "(VFloat [])"            # a Go type the parser must never produce: matches nothing


def c_record(r):
    return "{| r_meas := %s; r_tags := [%s]; r_fields := [%s]; r_ts := %s |}" % (
        cb(bytes.fromhex(r["m"])), ";".join("(%s,%s)" % (cb(bytes.fromhex(k)), cb(bytes.fromhex(v))) for k, v in r["tags"]),
        ";".join("(%s,%s)" % (cb(bytes.fromhex(f[0])), c_value(f[1], f[2])) for f in r["fields"]),
        "None" if r["ts"] == "now" else "(Some %s)" % cz(int(r["ts"])))


def c_columnar(c):
    cols = ";".join("(%s,[%s])" % (cb(bytes.fromhex(col["name"])),
                                    ";".join("None" if cell is None else "(Some %s)" % c_value(cell[0], cell[1]) for cell in col["cells"]))
                    for col in c["cols"])
    return "{| c_meas := %s; c_cols := [%s]; c_tagcols := [%s] |}" % (
        cb(bytes.fromhex(c["m"])), cols, ";".join(cb(bytes.fromhex(t)) for t in c["tagcols"]))


def c_scell(t, payload):
    if t == "null":
        return "SNull"
    if t == "now":
        return "STimeNow"
    if t == "t":
        return "(STime %s)" % cz(int(payload))
    if t == "i":
        return "(SInt %s)" % cz(int(payload))
    if t == "f":
        return "(SFloat %s)" % cz(int(payload))
    if t == "s":
        return "(SStr %s)" % cb(bytes.fromhex(payload))
    return "(SBool %s)" % cbool(payload == "t")


def c_store(o):
    if o.get("stored") is None:
        return "None"
    return "(Some [%s])" % ";".join(
        "{| so_meas := %s; so_accepted := %s; so_rows := [%s] |}" % (
            cb(bytes.fromhex(m["m"])), cbool(m["accepted"]),
            ";".join("[%s]" % ";".join("(%s,%s)" % (cb(bytes.fromhex(c[0])), c_scell(c[1], c[2])) for c in row) for row in m["rows"]))
        for m in o["stored"])


def c_case(c):
    o = c["obs"]
    pts = "None" if c["points"] is None else "(Some [%s])" % ";".join(c_point(p) for p in c["points"])
    return ("{| k_em := %s; k_tnl := %s; k_points := %s; k_prec := %s; k_data := %s; k_floats := [%s]; k_obs := [%s]; k_cols := %s; k_store := %s |}" % (
        cbool(c["em"]), cbool(c["tnl"]), pts, cb(c["prec"].encode()), cb(c["data"]),
        ";".join("(%s,%s)" % (cb(bytes.fromhex(k)), cz(int(v))) for k, v in o["floats"]),
        ";".join(c_record(r) for r in o["records"]),
        "(Some [%s])" % ";".join(c_columnar(x) for x in o["columnar"]) if c.get("cols", True) else "None",
        c_store(o)))


HEADER = ("From Coq Require Import List ZArith NArith Bool Uint63.\nFrom Arc Require Import LP.Model LP.Pack.\nImport ListNotations.\n"
          "Open Scope N_scope.\n")
PREDS = {"agree_old": "case_agrees false", "agree_new": "case_agrees true", "encoded": "case_encoded", "oracle": "case_oracle", "wf": "case_wf", "guard": "case_guard"}


# ------------------------------------------------------------------------------------------
# running
# ------------------------------------------------------------------------------------------

def run_impl(cases, tag):
    inp = [{"id": i, "data": c["data"].hex(), "prec": c["prec"], "store": bool(c.get("store"))} for i, c in enumerate(cases)]
    out = vlib.run_go_harness("C01", "./internal/ingest/", "^TestVerifLP$", HARNESS, inp, tag=tag)
    if len(out) != len(cases):
        raise vlib.TieBroken("C01 harness returned %d results for %d cases" % (len(out), len(cases)))
    res = []
    for c, o in zip(cases, out):
        if o.get("panic"):
            raise vlib.TieBroken("C01 harness: the parser panicked on input %s" % c["data"].hex())
        if not o.get("stable"):
            raise vlib.TieBroken("C01 harness: two parses of the same body differ (input %s)" % c["data"].hex())
        if any(not x.get("columnar_flag") for x in o["columnar"]):
            raise vlib.TieBroken("C01 harness: ColumnarRecord.Columnar/Measurement not set as modelled (input %s)" % c["data"].hex())
        if str(o.get("store_skip", "")).startswith(("flush-error", "readback-error", "no-buffer")):
            raise vlib.TieBroken("C01 harness: storage stage failed (%s) on input %s" % (o["store_skip"], c["data"].hex()))
        res.append(dict(c, obs=o))
    return res


def evaluate(cases, name):
    """One coqc run: every predicate on every case, the correspondence for both key=value splits."""
    return vlib.coq_check_cases("C01", HEADER, "ccase", [c_case(c) for c in cases], PREDS, chunk=4000, name=name)


def printable(c):
    d = {"stream": c["stream"], "prec": c["prec"], "data_hex": c["data"].hex(), "data": c["data"].decode("utf-8", "backslashreplace")}
    if c.get("points") is not None:
        d["points"] = [{"m": p["m"].hex(), "tags": [[k.hex(), v.hex()] for k, v in p["tags"]],
                        "fields": [[k.hex()] + [x.hex() if isinstance(x, bytes) else x for x in v] for k, v in p["fields"]], "ts": p["ts"]}
                       for p in c["points"]]
        d["em"], d["tnl"] = c["em"], c["tnl"]
    if c.get("store"):
        d["store"] = True
    if "obs" in c:
        d["observed"] = {"records": c["obs"]["records"], "columnar": c["obs"]["columnar"]}
        if c["obs"].get("stored") is not None:
            d["observed"]["stored"] = c["obs"]["stored"]
    return d


def escapes_and_types(c):
    """Non-triviality rule of DESIGN.md: >= 1 escape sequence and >= 2 distinct field types."""
    data = c["data"]
    has_esc = any(data[i] == 92 and data[i + 1] in b', ="\\' for i in range(len(data) - 1))
    types = {f[1] for r in c["obs"]["records"] for f in r["fields"]}
    return has_esc and len(types) >= 2


def shrink_bytes(case, akey, rounds=6, budget_s=75):
    """Greedy: whole-line and chunk deletions, all candidates of a round evaluated in one
    harness + one Coq run; stops when nothing smaller still disagrees or the budget is spent."""
    cur = case["data"]
    t0 = time.time()
    for _ in range(rounds):
        if time.time() - t0 > budget_s:
            break
        cands, seen = [], set()
        lines = cur.split(b"\n")
        if len(lines) > 1:
            for i in range(len(lines)):
                seen.add(b"\n".join(lines[:i] + lines[i + 1:]))
        step = max(1, len(cur) // 12)
        for w in sorted({step, max(1, step // 3), 1}, reverse=True):
            for i in range(0, len(cur), w):
                seen.add(cur[:i] + cur[i + w:])
        seen.discard(cur)
        cands = [raw_case("shrunk", d, case["prec"], bool(case.get("store"))) for d in sorted(seen, key=len)[:400]]
        if not cands:
            break
        try:
            out = run_impl(cands, "shrink")
            r = evaluate(out, "Shrink")
        except (vlib.TieBroken, vlib.InfraError):
            break
        bad = r[akey]
        if not bad:
            break
        cur = min((out[i]["data"] for i in bad), key=len)
    return cur


def raw_case(stream, data, prec, store=False):
    return {"stream": stream, "points": None, "em": False, "tnl": False, "prec": prec, "data": data, "cols": True, "store": store}


def setup():
    pass


def warm():
    run_impl([], "warm")


def variant_of(r, nwit):
    """The refutation witnesses are cases 0..nwit-1: which key=value split does the working tree have?"""
    w = set(range(nwit))
    if w & (set(r["encoded"]) | set(r["wf"])):
        raise vlib.InfraError("witness cases are not well-formed encodings")
    o, old, new = w & set(r["oracle"]), w & set(r["agree_old"]), w & set(r["agree_new"])
    if len(o) == nwit and not old:
        return "defect", "agree_old"
    if not o and not new:
        return "fixed", "agree_new"
    return "other", "agree_old"


def run(res, tier, seed):
    rng = random.Random(seed * 7919 + 1)
    failed = vlib.std_proof_stage(res, "C01", AREA, MODULES, THEOREMS, extra_targets=["theories/LP/Pack.vo"])
    if tier == "thorough" and hasattr(vlib, "coqchk_stage"):
        ok, _ = vlib.coqchk_stage(res, MODULES)
        if not ok:
            failed.append(("coqchk", "coqchk rejected the compiled development or reported inadmissible axioms"))
    res.cov["trusted_base"] += [
        "strconv.ParseFloat is an oracle (parameter pf of the model); a float value is compared by the IEEE bits ParseFloat returns for the same raw bytes; the oracle table is computed by the harness on every substring of a line that can reach ParseFloat",
        "time.Now() is abstracted to 'server time' (None); the harness recognises it by parsing each body at two different instants",
        "Go maps are association lists compared as finite maps; when two fields of one record write the same column (field k with tag k, and a field k_value) Go's map order decides and the columnar comparison is skipped for that case",
        "bytes.TrimSpace/unicode.IsSpace, utf8.Valid and the U+FFFD replacement of SanitizeUTF8 are transcribed byte-wise from the Go standard library and exercised by the malformed stream",
        "case files write byte strings as packed primitive-integer literals (Arc.LP.Pack.hx, used by no theorem)",
        "second observable: the harness pushes BatchToColumnar's output through a real ArrowBuffer on a temporary LocalBackend (WriteColumnarRecord, FlushAll) and reads every Parquet file back with the Arrow reader; the Arrow/Parquet writer and reader are library code observed through their decoded cells; only bodies whose measurement names pass the handler's regexp are stored (handleWrite buffers nothing otherwise); float<->integer coercion of type-mixed columns is not modelled (skipped, detected inside Coq)",
        "not covered: the HTTP handler itself (decompression, RBAC, status codes); WAL; buffer age/size triggered flushes (property C03)",
    ]

    n_valid, n_near, n_mut, n_store = (440, 100, 290, 170) if tier == "quick" else (12000, 2500, 8000, 4000)
    t1 = time.time()
    wit = witness_cases()
    corpus = []
    cdir = os.path.join(vlib.ROOT, "corpus", "C01")
    if os.path.isdir(cdir):
        for fn in sorted(os.listdir(cdir)):
            if fn.endswith(".json"):
                o = json.load(open(os.path.join(cdir, fn)))
                corpus.append(raw_case("corpus:" + fn, bytes.fromhex(o["data_hex"]), o.get("prec", "ns")))
    valid = valid_cases(rng, n_valid)
    cases = wit + corpus + valid + storage_cases(rng, n_store) + near_cases(rng, n_near) + malformed_cases(rng, n_mut, valid)
    for c in cases:
        if c["stream"].startswith("corpus") or c["stream"] == "edge":
            c["store"] = True         # stored too when the handler would accept the measurement names
    mark_columnar(cases)
    out = run_impl(cases, tier)
    res.stage("impl_harness", t1)

    t2 = time.time()
    r = evaluate(out, "Cases_" + tier)
    variant, akey = variant_of(r, len(wit))
    res.stage("coq_eval", t2)
    res.cov["key_value_split_in_tree"] = {"defect": "bytes.IndexByte (first '=' even when escaped)", "fixed": "first unescaped '='",
                                          "other": "neither the current nor the fixed behaviour"}[variant]

    dis, enc_bad, orf = r[akey], r["encoded"], r["oracle"]
    notwf, noguard = set(r["wf"]), set(r["guard"])
    if enc_bad:
        raise vlib.InfraError("Python encoder differs from Coq encode_batch on case %s" % printable(out[enc_bad[0]]))
    grammar = [i for i, c in enumerate(out) if c["points"] is not None]
    outside = [i for i in grammar if i in notwf]
    if outside:
        res.notes.append("%d generated grammar cases fell outside wf_point (first: %s)" % (len(outside), out[outside[0]]["data"].hex()))

    res.cov["evaluations"] = len(out)
    keys = {c["data"].hex() + "|" + c["prec"] for c in out if escapes_and_types(c)}
    res.cov["distinct_nontrivial"] = len(keys)
    res.cov["rule"] = ("request bodies: grammar stream (points over printable ASCII, control bytes, UTF-8 and every escapable byte in every "
                       "position, 5 field types, int64/uint64 extremes, timestamps at every guard edge, 4 precisions + unknown precision "
                       "strings, 1-4 points per body) encoded by the Python twin of encode_batch (checked equal inside Coq); near-grammar "
                       "stream (unescaped quotes, duplicate/reserved/colliding names, invalid UTF-8, leading white space); hand-written edge "
                       "lines for every branch; random byte mutations.  non-trivial = the body contains >= 1 escape sequence and the parsed "
                       "records hold >= 2 distinct field types; distinct by (body, precision)")
    streams, ftypes = {}, {}
    for c in out:
        s = c["stream"].split(":")[0]
        streams[s] = streams.get(s, 0) + 1
        for rec in c["obs"]["records"]:
            for f in rec["fields"]:
                ftypes[f[1]] = ftypes.get(f[1], 0) + 1
    res.cov["histogram"] = {
        "streams": streams, "field_types_observed": ftypes,
        "lines": sum(len([l for l in c["data"].split(b"\n") if l.strip()]) for c in out),
        "records_observed": sum(len(c["obs"]["records"]) for c in out),
        "server_time_records": sum(1 for c in out for rec in c["obs"]["records"] if rec["ts"] == "now"),
        "bodies_with_dropped_lines": sum(1 for c in out if len(c["obs"]["records"]) < len([l for l in c["data"].split(b"\n") if l.strip()])),
        "bodies_invalid_utf8": sum(1 for c in out if not _is_utf8(c["data"])),
        "bodies_with_columnar_compared": sum(1 for c in out if c.get("cols", True)),
        "bodies_stored_and_read_back": sum(1 for c in out if c["obs"].get("stored") is not None),
        "measurements_written": sum(len(c["obs"].get("stored") or []) for c in out),
        "measurements_refused_by_buffer": sum(1 for c in out for m in (c["obs"].get("stored") or []) if not m["accepted"]),
        "rows_read_back": sum(len(m["rows"]) for c in out for m in (c["obs"].get("stored") or [])),
        "unsigned_cells_at_or_above_2^63_written": sum(1 for c in out if c["obs"].get("stored") is not None for r in c["obs"]["records"]
                                                      for f in r["fields"] if f[1] == "u" and int(f[2]) >= 2 ** 63),
        "grammar_cases_in_domain": len(grammar) - len(outside),
        "grammar_cases_with_equals_in_a_key": len([i for i in grammar if i in noguard]),
        "precisions": {p or "(empty)": sum(1 for c in out if c["prec"] == p) for p in sorted(set(PRECS))},
    }
    res.cov["model_vs_impl_disagreements"] = len(dis)
    res.cov["oracle_failures"] = len(orf)
    base = len(wit) + len(corpus)
    res.cov["samples"] = [printable(out[base]), printable(out[base + n_valid + 1]), printable(out[base + n_valid + n_store + 5]), printable(out[-1])]

    # ---- verdicts -------------------------------------------------------------------------
    known = [e for e in vlib.known_for("C01") if e.get("signature") == SIG]
    known_us = [e for e in vlib.known_for("C01") if e.get("signature") == SIG_US]
    disset = set(dis)
    predicted = [i for i in orf if i in noguard and i not in disset] if variant == "defect" else []
    # class 2: a key starting with '_' in a body that went through the buffer
    us_class = {i for i, c in enumerate(out) if c["points"] is not None and c["obs"].get("stored") is not None
                and any(k.startswith(b"_") for p_ in c["points"] for k, _ in p_["tags"] + p_["fields"])}
    predicted_us = [i for i in orf if i in us_class and i not in disset and i not in set(predicted)] if known_us else []
    unexpected = [i for i in orf if i not in set(predicted) and i not in set(predicted_us) and i not in disset]
    res.cov["oracle_failures_predicted_by_model_in_known_class"] = len(predicted) + len(predicted_us)
    if predicted_us:
        res.known_finding("%s: %s [%d generated bodies: the request is accepted and the underscore-prefixed column is absent from the Parquet "
                          "file, exactly as the model predicts; e.g. %s]" % (SIG_US, known_us[0]["what"], len(predicted_us),
                                                                           out[predicted_us[0]]["data"].decode("utf-8", "backslashreplace")[:120].replace("\n", "\\n")))
    reported = False
    if variant == "defect":
        if known:
            res.known_finding("%s: %s [witness `cpu,a\\=b=c v=1` is stored with tag key `a\\`; %d generated well-formed points with '=' in a key "
                              "are stored wrongly, each exactly as the model of the current code predicts]" % (SIG, known[0]["what"], len(predicted)))
        else:
            res.violation("a tag/field key containing an escaped '=' is stored wrongly (witness cpu,a\\=b=c v=1) and no open known finding covers it",
                          {"kind": "property-violation", "case": printable(out[0])})
            reported = True
    elif variant == "other":
        res.violation("the refutation witnesses behave neither like the current code nor like the fixed code",
                      {"kind": "witness-mismatch", "cases": [printable(c) for c in out[:len(wit)]]})
        reported = True
    if unexpected:
        i = unexpected[0]
        res.violation("a well-formed point is not stored as written (outside the known class)",
                      {"kind": "property-violation", "case": printable(out[i]), "failing_cases": len(unexpected),
                       "how_to_replay": "python3 tools/check.py C01 --replay <this file>"})
        reported = True
    if dis:
        # well-formed points (outside the known class) that the implementation stores wrongly
        in_domain = [j for j in dis if j in set(orf) and j >= len(wit) and not (variant == "defect" and j in noguard)
                     and not (known_us and j in us_class)]
        i = min(in_domain or dis, key=lambda j: len(out[j]["data"]))
        c = out[i]
        small = shrink_bytes(c, akey)
        sc = run_impl([raw_case("shrunk", small, c["prec"], bool(c.get("store")))], "shrunk")[0]
        res.violation("model and implementation disagree on a request body",
                      {"kind": "correspondence", "correspondence": TIE_NAME, "case": printable(sc), "original_case": printable(c),
                       "disagreeing_cases": len(dis), "well_formed_points_stored_wrongly": len(in_domain),
                       "how_to_replay": "python3 tools/check.py C01 --replay <this file>"},
                      no_input=not in_domain and not reported, suffix="corr")
        reported = True
    if failed and not reported:
        res.violation("proof obligation(s) no longer check: " + "; ".join(x for _, x in failed),
                      {"kind": "obligation-failed", "theorems": [t for t, _ in failed], "detail": [x for _, x in failed]},
                      no_input=True, suffix="obligation")


def _is_utf8(b):
    try:
        b.decode("utf-8")
        return True
    except UnicodeDecodeError:
        return False


def points_from_printable(c):
    ps = []
    for p in c["points"]:
        fields = []
        for f in p["fields"]:
            k, kind, rest = bytes.fromhex(f[0]), f[1], f[2:]
            if kind in ("float", "str"):
                fields.append((k, (kind, bytes.fromhex(rest[0]))))
            elif kind == "bool":
                fields.append((k, ("bool", rest[0], rest[1])))
            else:
                fields.append((k, (kind, rest[0])))
        ps.append({"m": bytes.fromhex(p["m"]), "tags": [(bytes.fromhex(k), bytes.fromhex(v)) for k, v in p["tags"]], "fields": fields, "ts": p["ts"]})
    return ps


def replay(res, path):
    obj = json.load(open(path))
    c = obj.get("case")
    if not c or "data_hex" not in c:
        print("replay file names no concrete case:", obj.get("summary"))
        return 1
    case = raw_case("replay", bytes.fromhex(c["data_hex"]), c.get("prec", "ns"), bool(c.get("store")))
    if c.get("points") is not None:
        case.update(points=points_from_printable(c), em=c.get("em", False), tnl=c.get("tnl", False))
    wit = witness_cases()
    out = run_impl(wit + [case], "replay")
    r = evaluate(out, "Replay")
    variant, akey = variant_of(r, len(wit))
    n = len(wit)
    print("body:", case["data"].decode("utf-8", "backslashreplace"))
    print("observed records:", json.dumps(out[n]["obs"]["records"]))
    if out[n]["obs"].get("stored") is not None:
        print("read back from Parquet:", json.dumps(out[n]["obs"]["stored"]))
    print("tree variant:", variant, "| model disagrees:", n in r[akey], "| stored differently from the points:", n in r["oracle"])
    return 1 if (n in r[akey] or n in r["oracle"]) else 0
