"""C27 - Edge sync delivers each file exactly once with verified content.

Proof: coq/theories/EdgeSync (invariants over every history of environment events and agent
runs with arbitrary per-call transport faults and crash points; see Props.v).
Tie 1 (translator): DefaultMaxAttempts and the from-state sets of every guarded ledger
transition are re-extracted from the current ledger.go / agent.go into coq/gen/Params_EdgeSync.v
and Obligations.v is re-checked against them.
Tie 2 (correspondence): the real Agent + SQLite Ledger + Receiver + HubIndex + Reconciler are
driven through an in-memory faulting transport on generated multi-run histories (faults,
crashes/restarts, vanishing files, pruning, hub compaction/removal); ledger rows, the
trigger-recorded transition log, hub files, staged partials, receipts and promote counts after
every event are compared with the model inside Coq, and the property oracle is evaluated on the
implementation's observations.
"""
import calendar
import hashlib
import json
import os
import random
import re
import time

import vlib
from vlib import cn, cz, cbool, clist

AREA = "EdgeSync"
PID = "C27"
THEOREMS = [("Arc.EdgeSync.Props", t) for t in (
    "C27_hub_content", "C27_no_double_store", "C27_synced_implies_held", "C27_synced_stays_held",
    "C27_transitions", "C27_quiescence")] + [
    ("Arc.EdgeSync.Obligations", "C27_guards_match_source"), ("Arc.EdgeSync.Obligations", "C27_deployed_quiescence")]
MODULES = ["Arc.EdgeSync.Props", "Arc.EdgeSync.Obligations"]
TIE_NAME = ("C27 correspondence (edgesync.Agent + Ledger + Receiver + HubIndex + Reconciler vs "
            "Arc.EdgeSync.Model.apply_event) / Params_EdgeSync")
PKG = "./internal/edgesync/"
HARNESS = {"internal/edgesync/zz_edgesync_verif_test.go": "harness/edgesync/edgesync_verif_test.go"}

LEDGER_CALLS = ["RecoverInFlight", "MarkSynced", "MarkConflicted", "MarkInFlight", "RecordProgress",
                "MarkFailed", "MarkSkipped"]
STATES = {"pending": "Pending", "in_flight": "InFlight", "synced": "Synced", "failed": "Failed", "skipped": "Skipped"}


# ------------------------------------------------------------------------------------------
# overlay: crash points in agent.go, controlled clock in ledger.go (from the CURRENT sources)
# ------------------------------------------------------------------------------------------

def overlay_sources():
    rel = "internal/edgesync/agent.go"
    text = open(os.path.join(vlib.REPO, rel)).read()
    for name in LEDGER_CALLS:
        pat = re.compile(r"\ba\.ledger\.%s\(ctx\b" % name)
        if not pat.search(text):
            raise vlib.TieBroken("crash-point anchor a.ledger.%s(ctx ...) not found in %s" % (name, rel))
        text = pat.sub('a.ledger.%s(verifAt("%s", ctx)' % (name, name), text)
    for recv, name in (("a.transport", "Reconcile"), ("a.transport", "PutFile"), ("a", "Discover")):
        pat = re.compile(r"\b%s\.%s\(ctx\b" % (re.escape(recv), name))
        if not pat.search(text):
            raise vlib.TieBroken("crash-point anchor %s.%s(ctx ...) not found in %s" % (recv, name, rel))
        text = pat.sub('%s.%s(verifAt("%s", ctx)' % (recv, name, name), text)
    agent = vlib.gen_file(os.path.join(PID, rel), text)
    ledger = vlib.rewrite_source("internal/edgesync/ledger.go", [("time.Now()", "verifNow()", 1)], PID)
    ov = {rel: agent, "internal/edgesync/ledger.go": ledger}
    for virt, real in HARNESS.items():
        ov[virt] = os.path.join(vlib.ROOT, real)
    return ov


def harness_binary():
    """The harness test binary, built from the CURRENT tree.  go re-links a test binary on every
    invocation (~25 s for this cgo package), so the binary is cached under a key that covers every
    Go source file of the repository, go.mod/go.sum and the overlay contents; any change of the
    tree produces a new key and a rebuild."""
    ov = overlay_sources()
    h = hashlib.sha1()
    for f in ("go.mod", "go.sum"):
        h.update(open(os.path.join(vlib.REPO, f), "rb").read())
    for dp, dns, fns in os.walk(vlib.REPO):
        dns[:] = sorted(d for d in dns if d != ".git")
        for fn in sorted(fns):
            if fn.endswith((".go", ".c", ".h", ".s")):
                p = os.path.join(dp, fn)
                h.update(os.path.relpath(p, vlib.REPO).encode())
                h.update(open(p, "rb").read())
    for k in sorted(ov):
        h.update(k.encode())
        h.update(open(ov[k], "rb").read())
    key = h.hexdigest()[:16]
    os.makedirs(vlib.BIN, exist_ok=True)
    out = os.path.join(vlib.BIN, "c27_%s.test" % key)
    with vlib.Lock("c27_build"):
        if not os.path.exists(out):
            for fn in os.listdir(vlib.BIN):
                if fn.startswith("c27_") and fn.endswith(".test"):
                    os.remove(os.path.join(vlib.BIN, fn))
            t0 = time.time()
            cmd = ["go", "test", "-c", "-tags", "verif", "-vet=off", "-overlay", vlib.overlay_file(ov, PID + "_build"),
                   "-o", out + ".tmp", PKG]
            rc, o = vlib.sh(cmd, cwd=vlib.REPO, env=vlib.go_env(), timeout=1200)
            vlib.log("go test -c %s: rc=%d in %.1fs" % (PKG, rc, time.time() - t0))
            if rc != 0 or not os.path.exists(out + ".tmp"):
                raise vlib.TieBroken("C27 harness no longer builds against the current source (rc=%d):\n%s" % (rc, o[-4000:]))
            os.rename(out + ".tmp", out)
    return out


def run_impl(cases, tag):
    d = os.path.join(vlib.WORK, "cases", PID)
    os.makedirs(d, exist_ok=True)
    cin, cout = os.path.join(d, tag + "_in.json"), os.path.join(d, tag + "_out.json")
    json.dump([{k: c[k] for k in ("id", "max_attempts", "paths", "events")} for c in cases], open(cin, "w"))
    if os.path.exists(cout):
        os.remove(cout)
    binary = harness_binary()
    t0 = time.time()
    rc, out = vlib.sh([binary, "-test.run", "^TestVerifEdgeSync$", "-test.count=1"],
                      cwd=os.path.join(vlib.REPO, "internal/edgesync"),
                      env=vlib.go_env({"VERIF_CASES": cin, "VERIF_OUT": cout}), timeout=1200)
    vlib.log("harness %s (%d histories): rc=%d in %.1fs" % (tag, len(cases), rc, time.time() - t0))
    if rc != 0 or not os.path.exists(cout):
        raise vlib.TieBroken("C27 harness failed against the current source (rc=%d):\n%s" % (rc, out[-4000:]))
    obs = json.load(open(cout))
    if len(obs) != len(cases):
        raise vlib.TieBroken("C27 harness returned %d results for %d cases" % (len(obs), len(cases)))
    return [dict(c, obs=o["obs"]) for c, o in zip(cases, obs)]


# ------------------------------------------------------------------------------------------
# case generation
# ------------------------------------------------------------------------------------------

def path_hours(p):
    parts = p.split("/")
    return calendar.timegm((int(parts[2]), int(parts[3]), int(parts[4]), int(parts[5]), 0, 0)) // 3600


def mk_paths(rng, n):
    seen = set()
    while len(seen) < n:
        dd = rng.choice([7, 7, 8])
        hh = rng.choice([13, 14, 14, 15])
        seen.add("metrics/cpu/2026/08/%02d/%02d/cpu_%03d.parquet" % (dd, hh, rng.randint(1, 9)))
    return sorted(seen)          # index + 1 = path id = lexical rank = listing order


def rand_content(rng, used):
    while True:
        n = rng.choice([0, 1, 2, 4, 5, 6, 8, 9])
        b = bytes(rng.choice([0, 1, 7, 254, 255, rng.randrange(256)]) for _ in range(n))
        if b.hex() not in used or n == 0:
            used.add(b.hex())
            return b


def rand_fault(rng, contents):
    k = rng.random()
    if k < 0.45:
        f = {"k": "deliver", "keep": -1, "flip": -1, "lost": False, "regfail": False}
        r = rng.random()
        if r < 0.35:
            f["keep"] = rng.randint(0, 9)
        elif r < 0.55:
            f["flip"] = rng.randint(0, 8)
        elif r < 0.62:
            f["keep"], f["flip"] = rng.randint(1, 9), rng.randint(0, 3)
        if rng.random() < 0.3:
            f["lost"] = True
        if rng.random() < 0.15:
            f["regfail"] = True
        if rng.random() < 0.1:
            f["idxfail"] = True
        return f
    if k < 0.53:
        f = {"k": "retry", "keep": -1, "flip": -1, "lost": rng.random() < 0.5, "regfail": False, "mark": rng.random() < 0.6}
        if rng.random() < 0.3:
            f["keep"] = rng.randint(0, 9)
        return f
    if k < 0.57:
        return {"k": "existserr", "keep": -1, "flip": -1, "lost": False, "regfail": False, "reached": rng.random() < 0.4}
    if k < 0.6:
        return {"k": "drop", "keep": -1, "flip": -1, "lost": False, "regfail": False}
    if k < 0.72:
        return {"k": "backpressure", "keep": -1, "flip": -1, "lost": False, "regfail": False}
    if k < 0.82:
        d = rng.choice(contents) if contents and rng.random() < 0.5 else bytes([rng.randrange(256) for _ in range(3)])
        return {"k": "conflict", "keep": -1, "flip": -1, "lost": False, "regfail": False, "d": d.hex()}
    return {"k": "deliver", "keep": -1, "flip": -1, "lost": False, "regfail": False}


def quiet_run(puts=()):
    return {"op": "run", "crash": -1, "rec": "ok", "puts": list(puts)}


def gen_case(rng, cid):
    npaths = rng.choice([1, 2, 2, 3, 3, 4])
    paths = mk_paths(rng, npaths)
    maxa = rng.choice([1, 2, 3, 3, 5])
    used, contents, created = set(), [], set()
    events = []
    order = list(range(1, npaths + 1))
    rng.shuffle(order)
    pending_create = order[:]
    nev = rng.randint(3, 9)
    for i in range(nev):
        r = rng.random()
        if pending_create and (i == 0 or r < 0.3):
            p = pending_create.pop()
            b = rand_content(rng, used)
            contents.append(b)
            created.add(p)
            events.append({"op": "create", "p": p, "b": b.hex()})
        elif r < 0.72 or not created:
            run = {"op": "run", "crash": -1, "rec": "ok", "puts": []}
            if rng.random() < 0.3:
                run["crash"] = rng.randint(0, 11)
            rr = rng.random()
            if rr < 0.1:
                run["rec"] = "drop"
            elif rr < 0.2:
                run["rec"] = "lost"
            elif rr < 0.32:
                run["rec"] = "idxfail"
            run["puts"] = [rand_fault(rng, contents) for _ in range(rng.randint(0, npaths + 1))]
            events.append(run)
        elif r < 0.78:
            events.append({"op": "vanish", "p": rng.choice(sorted(created))})
        elif r < 0.83:
            events.append({"op": "prune"})
        elif r < 0.87:
            events.append({"op": "requeue"})
        elif r < 0.90:
            events.append({"op": "dismiss"})
        elif r < 0.935:
            events.append({"op": "hubmark", "p": rng.choice(sorted(created))})
            if rng.random() < 0.5:
                events.append({"op": "hubdeleteraw", "p": events[-1]["p"]})
        elif r < 0.96:
            events.append({"op": "hubdeleteraw", "p": rng.choice(sorted(created))})
        else:
            events.append({"op": "hubremove", "p": rng.choice(sorted(created))})
    if rng.random() < 0.5:
        # the quiescent tail: no crash, reconcile answered - the transfers themselves may still suffer
        noisy = rng.random() < 0.5
        events += [quiet_run([rand_fault(rng, contents) for _ in range(rng.randint(0, npaths))] if noisy else ())
                   for _ in range(maxa)]
    return {"id": cid, "max_attempts": maxa, "paths": paths, "events": events}


def gen_resume_case(rng, cid):
    """Resume chains on one file: consecutive passes whose bodies are cut short, some of the
    partial answers lost, so that the spoke's checkpoint (RecordProgress) lags or matches the
    hub's staged length; then clean passes.  Exercises every branch of the offset/staged logic."""
    size = rng.choice([6, 8, 9, 12, 16, 26])
    b = bytes((17 * i + rng.randrange(7)) % 256 for i in range(size))
    maxa = rng.choice([3, 4, 5, 6])
    D = {"k": "deliver", "keep": -1, "flip": -1, "lost": False, "regfail": False}
    events = [{"op": "create", "p": 1, "b": b.hex()}]
    paths = ["metrics/cpu/2026/08/07/14/cpu_%03d.parquet" % rng.randint(1, 9)]
    if rng.random() < 0.3:
        paths.append("metrics/cpu/2026/08/07/15/cpu_001.parquet")
        paths.sort()
        events[0]["p"] = paths.index([p for p in paths if "/14/" in p][0]) + 1
    for i in range(rng.randint(2, maxa - 1)):
        f = dict(D, keep=rng.randint(0, max(1, size // 2)), lost=rng.random() < 0.45)
        if rng.random() < 0.12:
            f["flip"] = rng.randint(0, 3)
        if rng.random() < 0.1:
            f = dict(f, k="retry", mark=False)
        run = {"op": "run", "crash": -1, "rec": "ok", "puts": [f]}
        if rng.random() < 0.12:
            run["crash"] = rng.randint(4, 8)
        events.append(run)
    events += [quiet_run() for _ in range(maxa)]
    return {"id": cid, "max_attempts": maxa, "paths": paths, "events": events}


def gen_big_case(rng, cid, conc):
    """One reconcile batch with more indexed candidates than one existence-check window: a spoke
    returning with many lost acknowledgements, hub-side removals of early, middle and late files."""
    n = min(conc + rng.randint(8, conc // 2 + 12), 120) if conc >= 1 else 40
    names = set()
    while len(names) < n:
        names.add("metrics/cpu/2026/08/%02d/%02d/cpu_%03d.parquet" % (rng.choice([7, 8]), rng.choice([13, 14]), rng.randint(1, 99)))
    paths = sorted(names)
    D = {"k": "deliver", "keep": -1, "flip": -1, "lost": True, "regfail": False}
    events = [{"op": "create", "p": i + 1, "b": bytes([i % 251, (7 * i) % 256]).hex()} for i in range(n)]
    # the number of indexed candidates of the next reconcile (= lost acknowledgements) must EXCEED one
    # window whatever the random draws are: at most 3 acknowledgements arrive, all others are lost
    acked = set(rng.sample(range(n), rng.randint(0, 3)))
    lost = [dict(D, lost=i not in acked) for i in range(n)]
    events.append({"op": "run", "crash": -1, "rec": "ok", "puts": lost})
    cand = [i + 1 for i in range(n) if i not in acked]
    early = rng.choice(cand[:max(1, min(conc, len(cand)) // 2)])      # always inside the FIRST window
    for p in sorted(set([early, rng.choice(cand), cand[-1 - rng.randint(0, 2)]])):
        events.append({"op": "hubremove", "p": p})
    if rng.random() < 0.5:
        events.append({"op": "hubmark", "p": rng.randint(1, n)})
    events.append(quiet_run())
    events.append(quiet_run())
    return {"id": cid, "max_attempts": 3, "paths": paths, "events": events}


def corpus_cases():
    """Hand-written edge cases of every branch of the modelled code (run first)."""
    P = ["metrics/cpu/2026/08/07/14/cpu_001.parquet", "metrics/cpu/2026/08/07/15/cpu_001.parquet"]
    D = {"k": "deliver", "keep": -1, "flip": -1, "lost": False, "regfail": False}
    c = bytes(range(10, 18)).hex()
    c2 = bytes(range(40, 46)).hex()

    def run(puts=(), crash=-1, rec="ok"):
        return {"op": "run", "crash": crash, "rec": rec, "puts": list(puts)}
    out = []
    # lost acknowledgement, resolved by the next reconcile
    out.append([{"op": "create", "p": 1, "b": c}, run([dict(D, lost=True)]), run()])
    # short body, resume, commit
    out.append([{"op": "create", "p": 1, "b": c}, run([dict(D, keep=3)]), run(), run()])
    # short body twice with a checkpoint the hub does not hold (second keep shorter: offset mismatch)
    out.append([{"op": "create", "p": 1, "b": c}, run([dict(D, keep=5)]), run([dict(D, keep=0, lost=True)]), run(), run()])
    # corrupted prefix, resumed, mismatch, stale checkpoint, restart from zero
    out.append([{"op": "create", "p": 1, "b": c}, run([dict(D, keep=4, flip=1)]), run(), run(), run(), run()])
    # the spoke's checkpoint LAGS the hub's staged prefix: short body acknowledged (checkpoint 3), resume cut short
    # again and that partial answer lost (hub stages 5, checkpoint stays 3), clean resume from 3
    out.append([{"op": "create", "p": 1, "b": c}, run([dict(D, keep=3)]), run([dict(D, keep=2, lost=True)]), run(), run(), run()])
    c26 = bytes(range(100, 126)).hex()
    out.append([{"op": "create", "p": 1, "b": c26}, run([dict(D, keep=10)]), run([dict(D, keep=15, lost=True)]), run(), run(), run()])
    # ... and the checkpoint AHEAD of the hub (staging swept / shorter): hub answers the truth
    out.append([{"op": "create", "p": 1, "b": c}, run([dict(D, keep=5)]), run([dict(D, keep=1, lost=True)]),
                run([dict(D, keep=0)]), run(), run()])
    # hub index refuses writes: during the reconcile that has to forget a stale receipt (the batch must fail,
    # never vouch for the vanished file), during a reconcile with nothing to forget, and during Record
    out.append([{"op": "create", "p": 1, "b": c}, run([dict(D, lost=True)]), {"op": "hubremove", "p": 1}, run(rec="idxfail"), run(), run()])
    out.append([{"op": "create", "p": 1, "b": c}, {"op": "create", "p": 2, "b": c2}, run([dict(D, lost=True), dict(D, lost=True)]),
                {"op": "hubremove", "p": 2}, run(rec="idxfail"), run(rec="idxfail"), run()])
    out.append([{"op": "create", "p": 1, "b": c}, run([dict(D, lost=True)]), run(rec="idxfail"), run()])
    out.append([{"op": "create", "p": 1, "b": c}, run(), {"op": "hubmark", "p": 1}, {"op": "hubdeleteraw", "p": 1}, {"op": "prune"}, run(rec="idxfail")])
    out.append([{"op": "create", "p": 1, "b": c}, run([dict(D, idxfail=True)]), run([dict(D, idxfail=True)]), run()])
    out.append([{"op": "create", "p": 1, "b": c}, run([dict(D, idxfail=True, lost=True)]), {"op": "hubremove", "p": 1}, run(rec="idxfail"), run()])
    # the transfer fails and the spoke's storage errors on Exists: nothing may be skipped (file present or not)
    XE = {"k": "existserr", "keep": -1, "flip": -1, "lost": False, "regfail": False, "reached": False}
    out.append([{"op": "create", "p": 1, "b": c}, run([XE]), run()])
    out.append([{"op": "create", "p": 1, "b": c}, run([dict(XE, reached=True)]), run([XE]), run()])
    out.append([{"op": "create", "p": 1, "b": c}, run(crash=2), {"op": "vanish", "p": 1}, run([XE]), run([XE]), run()])
    # corrupted full body
    out.append([{"op": "create", "p": 1, "b": c}, run([dict(D, flip=7)]), run()])
    # register failure after promote, then redelivery re-registers
    out.append([{"op": "create", "p": 1, "b": c}, run([dict(D, regfail=True)]), run()])
    out.append([{"op": "create", "p": 1, "b": c}, run([dict(D, regfail=True)]), run([dict(D, regfail=True)]), run()])
    # crash at every point of a two-file pass, then a clean pass
    for k in range(0, 12):
        out.append([{"op": "create", "p": 1, "b": c}, {"op": "create", "p": 2, "b": c2}, run(crash=k), run()])
    # crash after the hub committed (answer never processed), restart
    out.append([{"op": "create", "p": 1, "b": c}, run(crash=5), run()])
    # scripted conflict / backpressure / drop
    out.append([{"op": "create", "p": 1, "b": c}, run([{"k": "conflict", "d": c2, **{k: D[k] for k in ("keep", "flip", "lost", "regfail")}}]), run(),
                {"op": "requeue"}, run()])
    out.append([{"op": "create", "p": 1, "b": c}, run([{"k": "conflict", "d": c, **{k: D[k] for k in ("keep", "flip", "lost", "regfail")}}]), run()])
    out.append([{"op": "create", "p": 1, "b": c}, run([dict(D, k="backpressure")]), run([dict(D, k="drop")]), run()])
    # file vanishes before / after discovery
    out.append([{"op": "create", "p": 1, "b": c}, run(crash=2), {"op": "vanish", "p": 1}, run()])
    out.append([{"op": "create", "p": 1, "b": c}, run([dict(D, keep=2)]), {"op": "vanish", "p": 1}, run()])
    # pruned ledger row, rediscovery, hub says present
    out.append([{"op": "create", "p": 1, "b": c}, run(), {"op": "prune"}, run()])
    # hub compaction of the received file, pruned row, rediscovery
    out.append([{"op": "create", "p": 1, "b": c}, run(), {"op": "hubmark", "p": 1}, {"op": "hubdeleteraw", "p": 1}, {"op": "prune"}, run()])
    # deferred source deletion: the raw file outlives the compaction mark; pruned row, rediscovery
    out.append([{"op": "create", "p": 1, "b": c}, run(), {"op": "hubmark", "p": 1}, {"op": "prune"}, run(),
                {"op": "hubdeleteraw", "p": 1}, {"op": "prune"}, run(), run()])
    R = {"k": "retry", "keep": -1, "flip": -1, "lost": False, "regfail": False, "mark": True}
    # duplicate delivery (transport retry after a lost ack) INSIDE the window between the compaction
    # mark and the deletion of the raw file, then the deletion completes, then the spoke asks again
    out.append([{"op": "create", "p": 1, "b": c}, run([dict(R, lost=True)]), {"op": "hubdeleteraw", "p": 1}, run(), run()])
    out.append([{"op": "create", "p": 1, "b": c}, run([dict(R)]), {"op": "hubdeleteraw", "p": 1}, {"op": "prune"}, run(), run()])
    out.append([{"op": "create", "p": 1, "b": c}, run(), {"op": "hubmark", "p": 1}, {"op": "prune"}, run([dict(R, mark=False)]),
                {"op": "hubdeleteraw", "p": 1}, {"op": "hubremove", "p": 1}, {"op": "prune"}, run(), run()])
    out.append([{"op": "create", "p": 1, "b": c}, run([dict(R, keep=3, mark=False)]), run([dict(R, keep=3, lost=True)]), run()])
    # a transfer answered "conflict" in every pass: terminal at once, and stays so
    CF = {"k": "conflict", "d": c2, "keep": -1, "flip": -1, "lost": False, "regfail": False}
    out.append([{"op": "create", "p": 1, "b": c}, run([CF]), run([CF]), run([CF])])
    out.append([{"op": "create", "p": 1, "b": c}, {"op": "create", "p": 2, "b": c2}, run([CF, dict(D, k="backpressure")]),
                run([CF, CF]), run([CF, dict(D, k="drop")])])
    # hub compaction while the spoke has not seen the ack: re-send answered already-present
    out.append([{"op": "create", "p": 1, "b": c}, run([dict(D, lost=True)]), {"op": "hubmark", "p": 1}, {"op": "hubdeleteraw", "p": 1},
                run([], rec="drop"), run()])
    # genuine hub removal: stale receipt forgotten, file stored again
    out.append([{"op": "create", "p": 1, "b": c}, run(), {"op": "hubremove", "p": 1}, {"op": "prune"}, run(), run()])
    # retries exhausted -> failed -> dismiss -> requeue
    out.append([{"op": "create", "p": 1, "b": c}] + [run([dict(D, k="drop")]) for _ in range(3)] +
               [{"op": "dismiss"}, run(), {"op": "requeue"}, run()])
    # empty file, one-byte file
    out.append([{"op": "create", "p": 1, "b": ""}, run(), {"op": "create", "p": 2, "b": "07"}, run([dict(D, keep=0)]), run(), run()])
    # reconcile lost / dropped
    out.append([{"op": "create", "p": 1, "b": c}, run(), {"op": "hubremove", "p": 1}, {"op": "prune"}, run(rec="lost"), run(rec="drop"), run()])
    cases = []
    for i, evs in enumerate(out):
        cases.append({"id": 900000 + i, "max_attempts": 3 if i % 2 else 5, "paths": P, "events": evs, "corpus": True})
    d = os.path.join(vlib.ROOT, "corpus", PID)
    if os.path.isdir(d):
        for fn in sorted(os.listdir(d)):
            if fn.endswith(".json"):
                obj = json.load(open(os.path.join(d, fn)))
                c0 = obj.get("case", obj)
                cases.append({"id": 950000 + len(cases), "max_attempts": c0["max_attempts"], "paths": c0["paths"],
                              "events": c0["events"], "corpus": True})
    return cases


# ------------------------------------------------------------------------------------------
# Coq printing
# ------------------------------------------------------------------------------------------

def cbytes_hex(h):
    b = bytes.fromhex(h)
    return "[" + "; ".join(str(x) for x in b) + "]" if b else "[]"


def copt(x, f):
    return "None" if x is None else "(Some %s)" % f(x)


def fault_to_coq(f):
    if f["k"] == "drop":
        return "FDropBefore"
    if f["k"] == "existserr":
        return "(FExistsErr %s)" % cbool(f.get("reached", False))
    if f["k"] == "backpressure":
        return "FBackpressure"
    if f["k"] == "conflict":
        return "(FConflict %s)" % cbytes_hex(f["d"])
    if f["k"] == "retry":
        keep = "None" if f["keep"] < 0 else "(Some %d)" % f["keep"]
        flip = "None" if f["flip"] < 0 else "(Some %d)" % f["flip"]
        return "(FRetry {| bm_keep := %s; bm_flip := %s |} %s %s)" % (keep, flip, cbool(f.get("mark", False)), cbool(f["lost"]))
    keep = "None" if f["keep"] < 0 else "(Some %d)" % f["keep"]
    flip = "None" if f["flip"] < 0 else "(Some %d)" % f["flip"]
    # a failed receipt write and a failed RegisterFile are the same hub-side failure for the model:
    # the request errors after the promote (or before any change when the file already exists)
    return "(FDeliver {| bm_keep := %s; bm_flip := %s |} %s %s)" % (keep, flip, cbool(f["lost"]), cbool(f["regfail"] or f.get("idxfail", False)))


def event_to_coq(e):
    op = e["op"]
    if op == "create":
        return "(ECreate %d %s)" % (e["p"], cbytes_hex(e["b"]))
    if op == "vanish":
        return "(EVanish %d)" % e["p"]
    if op == "prune":
        return "EPrune"
    if op == "requeue":
        return "ERequeue"
    if op == "dismiss":
        return "EDismiss"
    if op == "hubmark":
        return "(EHubMarkCompacted %d)" % e["p"]
    if op == "hubdeleteraw":
        return "(EHubDeleteRaw %d)" % e["p"]
    if op == "hubremove":
        return "(EHubRemove %d)" % e["p"]
    crash = "None" if e["crash"] < 0 else "(Some %d%%nat)" % e["crash"]
    rec = {"ok": "ROk", "drop": "RDropBefore", "lost": "RLostReply", "idxfail": "RIndexFail"}[e["rec"]]
    return "(ERun {| s_crash := %s; s_rec := %s; s_puts := %s |})" % (crash, rec, clist([fault_to_coq(f) for f in e["puts"]]))


class Unmappable(Exception):
    pass


class Table:
    """content table of a case: every byte string is written once, observations refer to it by index"""

    def __init__(self):
        self.idx, self.items = {}, []

    def of(self, h):
        if h not in self.idx:
            self.idx[h] = len(self.items)
            self.items.append(h)
        return self.idx[h]


BASE_HOUR = calendar.timegm((2026, 8, 1, 0, 0, 0)) // 3600


def obs_to_coq(o, sha2content, npaths, tab):
    def dig(s):
        if s not in sha2content:
            raise Unmappable("digest %s observed on the implementation is not the digest of any content of the case" % s)
        return tab.of(sha2content[s])
    rows = []
    for r in o["led"]:
        if r["state"] not in STATES:
            raise Unmappable("ledger state %r" % r["state"])
        rows.append("OR %d %d %d %d %s %s %d %d %s" % (
            r["id"], r["p"], dig(r["sha"]), r["size"], cz(r["pt"] - BASE_HOUR), STATES[r["state"]], r["att"], r["sent"], cbool(r["dism"])))
    keys = [str(i) for i in range(1, npaths + 1)]
    final = [copt(o["final"][k], lambda x: "%d" % tab.of(x)) for k in keys]
    part = [copt(o["part"][k], lambda x: "%d" % tab.of(x)) for k in keys]
    rcpt = [copt(o["rcpt"][k], lambda x: "(%d, %s)" % (dig(x["sha"]), cbool(x["compacted"]))) for k in keys]
    commits = ["%d" % o["commits"][k] for k in keys]

    def st(s):
        return "None" if s == "" else "(Some %s)" % STATES[s]
    trans = ["(%s, %s, %s)" % (t[0], st(t[1]), st(t[2])) for t in sorted(o["trans"], key=lambda t: int(t[0]))]
    return "{| o_led := %s; o_final := %s; o_part := %s; o_rcpt := %s; o_commits := %s; o_trans := %s |}" % (
        clist(rows), clist(final), clist(part), clist(rcpt), clist(commits), clist(trans))


def case_to_coq(c):
    sha2content = {}
    for e in c["events"]:
        if e["op"] == "create":
            sha2content[hashlib.sha256(bytes.fromhex(e["b"])).hexdigest()] = e["b"]
        if e["op"] == "run":
            for f in e["puts"]:
                if f["k"] == "conflict":
                    sha2content[hashlib.sha256(bytes.fromhex(f["d"])).hexdigest()] = f["d"]
    n = len(c["paths"])
    tab = Table()
    pts = clist([cz(path_hours(p) - BASE_HOUR) for p in c["paths"]])
    steps, prev = [], None
    for e, o in zip(c["events"], c["obs"]):
        key = json.dumps({k: o[k] for k in ("led", "final", "part", "rcpt", "commits")}, sort_keys=True)
        if prev is not None and key == prev and not o["trans"]:
            steps.append("(%s, None)" % event_to_coq(e))
        else:
            steps.append("(%s, Some %s)" % (event_to_coq(e), obs_to_coq(o, sha2content, n, tab)))
        prev = key
    return "{| c_tab := %s; c_pt := %s; c_max := %d; c_steps := %s |}" % (
        clist([cbytes_hex(h) for h in tab.items]), pts, c["max_attempts"], clist(steps))


HEADER = ("From Coq Require Import List NArith ZArith Bool.\nFrom Arc Require Import EdgeSync.Model.\n"
          "Import ListNotations.\nOpen Scope N_scope.\n")


def evaluate(cases, name, chunk=None):
    """-> (disagree indices, oracle-fail indices, {index: reason} for observations that cannot even be expressed).
    Chunks are compiled by parallel coqc processes (parsing the literals dominates)."""
    from concurrent.futures import ThreadPoolExecutor
    terms, idx, bad = [], [], {}
    for i, c in enumerate(cases):
        stray = [s for o in c["obs"] for s in o.get("stray", [])]
        if stray:
            bad[i] = "unexpected hub objects: %s" % stray[:3]
            continue
        try:
            terms.append(case_to_coq(c))
            idx.append(i)
        except Unmappable as e:
            bad[i] = str(e)
    workers = max(2, min(8, vlib.NCPU // 2))
    if chunk is None:
        chunk = max(20, min(80, -(-len(terms) // workers)))
    jobs = [(off, terms[off:off + chunk]) for off in range(0, len(terms), chunk)]

    def one(job):
        off, part = job
        return off, vlib.coq_check_cases(PID, HEADER, "ccase", part, {"agree": "case_agrees", "oracle": "case_oracle"},
                                         chunk=chunk, name="%s_%d" % (name, off))
    dis, orf = [], []
    with ThreadPoolExecutor(max_workers=workers) as ex:
        for off, r in ex.map(one, jobs):
            dis += [idx[off + x] for x in r["agree"]]
            orf += [idx[off + x] for x in r["oracle"]]
    return sorted(dis), sorted(orf), bad


# ------------------------------------------------------------------------------------------

def has_fault(c):
    for e in c["events"]:
        if e["op"] == "run":
            if e["crash"] >= 0 or e["rec"] != "ok":
                return True
            for f in e["puts"]:
                if f["k"] != "deliver" or f["keep"] >= 0 or f["flip"] >= 0 or f["lost"] or f["regfail"] or f.get("idxfail"):
                    return True
    return False


def effective_fault(c):
    """A fault or crash actually took effect on the implementation (a scripted put was consumed
    or the run was cut short)."""
    for e, o in zip(c["events"], c["obs"]):
        if e["op"] == "run":
            if o.get("crashed") or (e["rec"] != "ok" and "Reconcile" in (o.get("points") or [])):
                return True
            for f, k in zip(e["puts"], o.get("calls") or []):
                if f["k"] != "deliver" or f["keep"] >= 0 or f["flip"] >= 0 or f["lost"] or f["regfail"] or f.get("idxfail"):
                    return True
    return False


def shrink_case(c, fails):
    cur = {k: c[k] for k in ("id", "max_attempts", "paths", "events")}
    budget = 40
    deadline = time.time() + 150          # shrinking is a convenience: never let it dominate the run
    inner = fails

    def fails(cand):
        return time.time() < deadline and inner(cand)
    changed = True
    while changed and budget > 0:
        changed = False
        for i in range(len(cur["events"]) - 1, -1, -1):
            cand = dict(cur, events=cur["events"][:i] + cur["events"][i + 1:])
            budget -= 1
            if cand["events"] and fails(cand):
                cur, changed = cand, True
                break
            if budget <= 0:
                break
    # simplify fault scripts
    for i, e in enumerate(cur["events"]):
        if budget <= 0:
            break
        if e["op"] == "run" and (e["puts"] or e["crash"] >= 0):
            for cand_e in ([dict(e, puts=[])] if e["puts"] else []) + ([dict(e, crash=-1)] if e["crash"] >= 0 else []):
                cand = dict(cur, events=cur["events"][:i] + [cand_e] + cur["events"][i + 1:])
                budget -= 1
                if fails(cand):
                    cur = cand
    return cur


def setup():
    translate_params()


def warm():
    run_impl([], "warm")


# ------------------------------------------------------------------------------------------
# translator: constants and guard sets from the current source
# ------------------------------------------------------------------------------------------

GUARDED = ["MarkInFlight", "RecordProgress", "MarkSynced", "MarkConflicted", "MarkFailed", "MarkSkipped"]


def translate_params():
    src = open(os.path.join(vlib.REPO, "internal/edgesync/ledger.go")).read()
    consts = dict(re.findall(r'^\s*(State\w+)\s+SyncState\s*=\s*"(\w+)"', src, re.M))
    if len(consts) < 6:
        raise vlib.TieBroken("SyncState constants not found in ledger.go")
    guards = {}
    for fn in GUARDED:
        m = re.search(r"^func \(l \*Ledger\) %s\(.*?^}" % fn, src, re.M | re.S)
        if not m:
            raise vlib.TieBroken("ledger.go: func (l *Ledger) %s not found" % fn)
        body = m.group(0)
        ct = re.search(r"l\.checkTransition\(ctx, res, hubID, path((?:,\s*State\w+)+)\)", body)
        if not ct:
            raise vlib.TieBroken("ledger.go: %s no longer ends in checkTransition(..., <from states>)" % fn)
        froms = re.findall(r"State\w+", ct.group(1))
        # the WHERE clause must bind exactly the same states
        upd = re.search(r"ExecContext\(ctx, `(.*?)`,(.*?)\)\s*\n\s*if err", body, re.S)
        if not upd:
            raise vlib.TieBroken("ledger.go: %s: guarded UPDATE not found" % fn)
        sql, args = upd.group(1), upd.group(2)
        where = sql.split("WHERE", 1)[1] if "WHERE" in sql else ""
        nwhere = where.count("?")
        argstates = re.findall(r"string\((State\w+)\)", args)
        where_states = argstates[len(argstates) - (nwhere - 2):] if nwhere >= 3 else []
        if sorted(where_states) != sorted(froms):
            raise vlib.TieBroken("ledger.go: %s: WHERE binds %s but checkTransition names %s" % (fn, where_states, froms))
        guards[fn] = [consts[s] for s in froms]
    m = re.search(r"^func \(l \*Ledger\) RecoverInFlight\(.*?^}", src, re.M | re.S)
    rec = re.search(r"`UPDATE sync_ledger SET state = \? WHERE state = \?`,\s*string\((State\w+)\), string\((State\w+)\)", m.group(0) if m else "")
    if not rec:
        raise vlib.TieBroken("ledger.go: RecoverInFlight UPDATE not found")
    vals = vlib.go_eval_consts([("DefaultMaxAttempts", "internal/edgesync/agent.go", "DefaultMaxAttempts")])
    # batching constants of the hub (they size the generator's large-batch family; a constant that
    # disappears is not a broken tie - the family then uses its default sizes)
    batching = {}
    for name, rel in (("confirmExistenceConcurrency", "internal/edgesync/reconcile.go"),
                      ("MaxReconcileEntriesDefault", "internal/edgesync/reconcile.go")):
        try:
            batching[name] = vlib.go_eval_consts([(name, rel, name)])[name]
        except vlib.TieBroken:
            batching[name] = None
    body = "(* GENERATED by tools/props/C27.py from the current /repo sources - do not edit *)\n"
    body += "From Coq Require Import List String NArith.\nImport ListNotations.\nOpen Scope string_scope.\n"
    body += "Definition default_max_attempts : N := %d%%N.\n" % vals["DefaultMaxAttempts"]
    for fn in GUARDED:
        body += "Definition from_%s : list string := [%s].\n" % (fn, "; ".join('"%s"' % s for s in guards[fn]))
    body += 'Definition recover_to : string := "%s".\nDefinition recover_from : string := "%s".\n' % (
        consts[rec.group(1)], consts[rec.group(2)])
    for name, v in sorted(batching.items()):
        body += "(* %s = %s (sizes the large-batch correspondence family) *)\n" % (name, v)
    vlib.write_params("Params_EdgeSync", body)
    return {"default_max_attempts": vals["DefaultMaxAttempts"], "guards": guards, "batching": batching}


def run(res, tier, seed):
    rng = random.Random(seed * 7919 + 27)
    t0 = time.time()
    try:
        params = translate_params()
    finally:
        res.stage("translate_params", t0)
    res.cov["params"] = params

    failed = vlib.std_proof_stage(res, PID, AREA, MODULES, THEOREMS,
                                  extra_targets=["theories/EdgeSync/Obligations.vo"])
    res.cov["trusted_base"] += [
        "SHA-256 idealised as an injective function (Section hypothesis H_inj of every content theorem); the correspondence instantiates it with the identity and maps observed digests back to contents",
        "spoke paths are immutable and never reused (ledger.Track's documented PRECONDITION): ECreate on a used path is a no-op in the model and never generated",
        "spoke backend faults: a transient error of storage.Backend.Exists during skipIfVanished is injected by a wrapper around the spoke's LocalBackend (a ReadTo error of the source is indistinguishable from a dropped request at the transport and is covered by the drop fault)",
        "hub index write failures are injected with PRAGMA query_only on the hub database (pinned to one connection) for the duration of one hub call: Reconcile (ForgetBatch) or Receive (Record); the model folds a failed Record into the same hub-side failure as a failed RegisterFile",
        "environment steps are harness emulations: hub compaction = HubIndex.MarkCompacted of a file that exists and HAS a receipt, followed at any later point by the deletion of the raw file (two separate events; a received file compacted before its receipt exists is outside the model), hub removal = delete of a file compaction has not consumed, PruneSynced with the retention elapsed for every synced row; a transport-level retry (same request delivered twice, first answer lost, optionally with the compaction mark in between) is a fault of the harness transport",
        "modelled configuration: BatchSize = 0 (one reconcile page, no 413 splitting), MaxConcurrent = 1, one spoke id, resumable LocalBackend on the hub, requests for one path are not concurrent; the HTTP encoding between HTTPTransport and the hub handler is replaced by the in-memory transport of the harness",
        "SQLite statements and LocalBackend rename are atomic (process-crash model); crash points = before every ledger write / transport call of agent.go (inserted by textual overlay of the current agent.go)",
        "air-gap states (exported) and bundle import are outside C27's network path and not modelled",
    ]

    if tier == "thorough" and hasattr(vlib, "coqchk_stage"):
        ok, _ = vlib.coqchk_stage(res, MODULES)
        if not ok:
            failed.append(("coqchk", "coqchk rejected the compiled development or reported inadmissible axioms"))
    n = 330 if tier == "quick" else 6000
    conc = (params.get("batching") or {}).get("confirmExistenceConcurrency") or 32
    t1 = time.time()
    cases = corpus_cases() + [gen_case(rng, i) for i in range(n)]
    cases += [gen_resume_case(rng, 500000 + i) for i in range(45 if tier == "quick" else 600)]
    cases += [gen_big_case(rng, 600000 + i, conc) for i in range(3 if tier == "quick" else 25)]
    out = run_impl(cases, tier)
    res.stage("impl_harness", t1)
    t2 = time.time()
    dis, orf, bad = evaluate(out, "Cases_%s" % tier)
    res.stage("coq_eval", t2)

    res.cov["evaluations"] = sum(len(c["events"]) for c in out)
    keys = {json.dumps({k: c[k] for k in ("max_attempts", "paths", "events")}, sort_keys=True) for c in out if effective_fault(c)}
    res.cov["distinct_nontrivial"] = len(keys)
    res.cov["histories"] = len(out)
    res.cov["rule"] = ("multi-run histories (file creation/vanishing, agent runs with per-call fault scripts and crash points, pruning, "
                       "requeue/dismiss, hub compaction/removal) + hand-written branch corpus; evaluations = events compared (state after each "
                       "event); non-trivial = at least one transport fault, reconcile fault or crash actually TOOK EFFECT on the implementation "
                       "(scripted fault consumed by a real PutFile call / run cut short); distinct by (max_attempts, paths, events)")
    res.cov["model_vs_impl_disagreements"] = len(dis) + len(bad)
    res.cov["oracle_failures"] = len(orf)
    hist = {"events": {}, "faults_consumed": {}, "crashed_runs": 0, "final_states": {}, "put_outcomes": {}}
    for c in out:
        for e, o in zip(c["events"], c["obs"]):
            hist["events"][e["op"]] = hist["events"].get(e["op"], 0) + 1
            if e["op"] == "run":
                hist["crashed_runs"] += 1 if o.get("crashed") else 0
                for f, k in zip(e["puts"], o.get("calls") or []):
                    kind = (f["k"] + ("+mark" if f.get("mark") else "") + ("+lostack" if f["k"] == "retry" and f["lost"] else "")) if f["k"] != "deliver" else "deliver" + ("+short" if f["keep"] >= 0 else "") + (
                        "+corrupt" if f["flip"] >= 0 else "") + ("+lostack" if f["lost"] else "") + ("+regfail" if f["regfail"] else "") + ("+idxfail" if f.get("idxfail") else "")
                    hist["faults_consumed"][kind] = hist["faults_consumed"].get(kind, 0) + 1
                r = o.get("result") or {}
                for k in ("Sent", "AlreadyPresent", "Partial", "Failed", "Skipped"):
                    if r.get(k):
                        hist["put_outcomes"][k] = hist["put_outcomes"].get(k, 0) + r[k]
        for r in c["obs"][-1]["led"]:
            hist["final_states"][r["state"]] = hist["final_states"].get(r["state"], 0) + 1
    res.cov["histogram"] = hist
    res.cov["samples"] = [{k: c[k] for k in ("max_attempts", "paths", "events")} for c in (out[1], out[len(out) // 2])]

    reported = False
    for i in sorted(orf, key=lambda j: len(out[j]["events"]))[:1]:
        c = out[i]

        def fails(cand):
            o = run_impl([cand], "shrink")
            _, o2, b2 = evaluate(o, "Shrink")
            return bool(o2)
        small = shrink_case(c, fails) if len(orf) < 20 else c
        small_out = run_impl([small], "shrink")[0]
        res.violation("property oracle fails on the implementation's observations (hub content / double store / transitions / synced-implies-held / quiescence)",
                      {"kind": "oracle", "case": small_out, "how_to_replay": "python3 tools/check.py C27 --replay <this file>"})
        reported = True
        break
    if failed and not reported:
        res.violation("proof obligation(s) no longer check: " + "; ".join(r for _, r in failed),
                      {"kind": "obligation-failed", "theorems": [t for t, _ in failed], "detail": [r for _, r in failed]},
                      no_input=True, suffix="obligation")
    if (dis or bad) and not reported:
        i = sorted(dis + sorted(bad), key=lambda j: len(out[j]["events"]))[0]
        c = out[i]

        def fails2(cand):
            o = run_impl([cand], "shrink")
            d2, _, b2 = evaluate(o, "Shrink")
            return bool(d2 or b2)
        small = shrink_case(c, fails2) if len(dis) + len(bad) < 60 else {k: c[k] for k in ("id", "max_attempts", "paths", "events")}
        small_out = run_impl([small], "shrink")[0]
        d3, o3, b3 = evaluate([small_out], "Shrink")
        res.violation("model and implementation disagree on a sync history" + (": " + bad[i] if i in bad else ""),
                      {"kind": "correspondence", "correspondence": TIE_NAME, "case": small_out,
                       "disagreeing_cases": len(dis) + len(bad), "oracle_fails_on_impl": bool(o3)},
                      no_input=not o3, suffix="corr")


def replay(res, path):
    obj = json.load(open(path))
    c = obj.get("case")
    if not c:
        print("replay file names no concrete case:", obj.get("summary"))
        return 1
    c = {k: c[k] for k in ("id", "max_attempts", "paths", "events")}
    out = run_impl([c], "replay")
    d, o, b = evaluate(out, "Replay")
    print("final ledger:", [(r["p"], r["state"], r["att"], r["sent"]) for r in out[0]["obs"][-1]["led"]],
          "| model disagrees:", bool(d or b), "| oracle fails:", bool(o))
    return 1 if (d or o or b) else 0
