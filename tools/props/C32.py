"""C32 - Writes land only where the caller is allowed to write.

Proof: coq/theories/Recovery (shared with C05: one model of the write routes).
  C32_live                      every endpoint, every payload, every header/query combination, every
                                policy: each buffer write goes to the database the handler resolved and
                                to a measurement that was permission-checked (code as it is: or to the
                                empty measurement), and only when every check allowed
  C32_live_rows_dir             the rows of a buffer write are stored under exactly that directory
  C32_replay_guarded/_refuted   WAL replay keeps / leaves the live directories
  C32_replicated_*              the replica route: row-format entries always land in "default" (code as
                                it is), raw columnar entries keep their database; with the repair every
                                replicated row lands under the request's database and measurement
  C32_empty_measurement_unchecked
Tie: the REAL msgpack / line-protocol / import handlers behind their own RegisterRoutes with a
recording RBACChecker stub (keep-alive connection), real WAL writer with the replication hook
feeding the real Coordinator.buildReplicationIngestHandler of a replica, crash + the recovery
statements of main(); directories of ALL stored rows after flush, after crash-recovery and on
the replica are compared with the model inside Coq and checked against the permission checks
the stub recorded.
"""
import json
import random
import time

import vlib
import lib_recovery as L
from props import C05 as C5

AREA = "Recovery"
MODULES = ["Arc.Recovery.Props", "Arc.Recovery.Obligations"]
# primary: the repaired code; then all variants; then the refutations of the old variants
THEOREMS = [("Arc.Recovery.Obligations", t) for t in (
    "C32_deployed_live", "C32_deployed_replay_dirs", "C32_deployed_replicated_rows")] + [
    ("Arc.Recovery.Props", t) for t in (
        "C32_live_repaired", "C32_replicated_rows_fixed", "C32_live_rows_dir", "C32_replicated_raw_guarded",
        "C32_live", "C32_replay_guarded")] + [("Arc.Recovery.Obligations", "C32_deployed_replay_guarded")] + [
    ("Arc.Recovery.Props", t) for t in (
        "C32_replay_refuted", "C32_replicated_rows_default", "C32_replicated_refuted", "C32_empty_measurement_unchecked")]
TIE_NAME = ("C32 correspondence (api write handlers + recording RBAC stub + WAL replay + replica ingest handler "
            "vs Arc.Recovery.Model.front/run_case) / Params_Recovery")
PID = "C32"
T0 = C5.T0

FLAG_OF = {"routing-key-column": "routing_last", "row-format-entry-replicated-to-default": "repl_rows",
           "empty-measurement-unchecked": "empty_meas_checked"}


def witness_cases():
    routing = [C5._pt(b"cpu", [], [(b"v", ("i", 1))], T0), C5._pt(b"cpu", [(b"_database", b"otherdb")], [(b"v", ("i", 2))], T0 + 1)]
    plain = [C5._pt(b"cpu", [(b"host", b"a")], [(b"v", ("i", 2))], T0 + 5)]
    empty = ("m", [(b"m", ("s", b"")), (b"columns", ("m", [(b"time", ("a", [("i", T0)])), (b"v", ("a", [("i", 1)]))]))])
    pol = dict(allow_all=False, allow=[("mydb", "cpu")])

    def lp(points):
        e = C5._lp(points)
        e.update(pol)
        return e

    def msg(p):
        e = C5._msg(p)
        e.update(pol)
        return e
    out = [
        ("routing-key-column", [dict(op="start"), lp(routing)] + L.RESTART),
        ("row-format-entry-replicated-to-default", [dict(op="start", repl=True), lp(plain), dict(op="flush")]),
        ("empty-measurement-unchecked", [dict(op="start"), msg(empty), dict(op="flush")]),
    ]
    return [(sig, dict(id=900000 + i, events=[dict(e) for e in evs], profile="witness:" + sig)) for i, (sig, evs) in enumerate(out)]


def regression_cases():
    """fixed cases for shapes earlier versions did not exercise; each must satisfy the property"""
    pol = dict(allow_all=False, allow=[("mydb", "cpu")])

    def msg(p):
        e = C5._msg(p)
        e.update(pol)
        return e
    st = dict(op="start", repl=True)

    def batch(items):
        return ("m", [(b"batch", ("a", items))])
    out = [
        # {m: cpu, columns, m: disk}: the caller may write cpu only; every consumer must read the LAST m
        ("duplicate-m-allowed-first", [st, msg(C5._col(("s", b"cpu"), T0, 1, second_m=("s", b"disk"))), dict(op="flush")] + L.RESTART),
        ("duplicate-m-allowed-last", [st, msg(C5._col(("s", b"disk"), T0, 2, second_m=("s", b"cpu"))), dict(op="flush")] + L.RESTART),
        ("duplicate-m-map16", [st, msg(C5._col(("s", b"cpu"), T0, 3, width="16", second_m=("s", b"mem"))), dict(op="flush")] + L.RESTART),
        # records two and three list levels deep: every nested measurement must be checked (and the
        # buffer refuses nested lists)
        ("nested-array-batch-batch-forbidden", [st, msg(("a", [batch([batch([C5._col(("s", b"secret"), T0, 7)])])])), dict(op="flush")] + L.RESTART),
        ("nested-batch-batch-batch-forbidden", [st, msg(batch([batch([batch([C5._col(("s", b"secret"), T0, 8)])]), C5._col(("s", b"cpu"), T0, 9)])),
                                                dict(op="flush")] + L.RESTART),
        ("nested-array-batch-batch-allowed", [st, msg(("a", [C5._col(("s", b"cpu"), T0, 10), batch([batch([C5._col(("s", b"cpu"), T0, 11)])])])),
                                              dict(op="flush")] + L.RESTART),
        ("duplicate-columns", [st, msg(("m", [(b"columns", ("m", [(b"time", ("a", [("i", T0)])), (b"a", ("a", [("i", 1)]))])),
                                               (b"m", ("s", b"cpu")),
                                               (b"columns", ("m", [(b"time", ("a", [("i", T0 + 9)])), (b"b", ("a", [("i", 2)]))]))])),
                               dict(op="flush")] + L.RESTART),
    ]
    return [dict(id=800000 + i, events=[dict(e) for e in evs], profile="regression:" + name, policy=pol["allow"])
            for i, (name, evs) in enumerate(out)]


def has_routing_name(case):
    names = set(L.ROUTING)
    for e in case["events"]:
        if e["op"] != "write":
            continue
        r = e["req"]
        if r["kind"] == "lp":
            for p in r["points"]:
                if any(k in names for k, _ in p["tags"]) or any(k in names for k, _ in p["fields"]):
                    return True
        else:
            def walk(v, depth=0):
                if isinstance(v, tuple) and v[0] == "m":
                    for k, x in v[1]:
                        k = L.key_bytes(k)
                        if (k in names and depth > 0) or (k in (b"database", b"_database", b"measurement", b"_measurement") and depth == 0):
                            return True
                        if walk(x, depth + 1):
                            return True
                if isinstance(v, tuple) and v[0] == "a":
                    return any(walk(x, depth + 1) for x in v[1])
                return False
            if walk(r["payload"]):
                return True
    return False


def signatures(case, obs, variant):
    sig = set(s for s in C5.signatures(case, obs) if s == "routing-key-column")
    repl = any(e["op"] == "start" and e.get("repl") for e in case["events"])
    wi = 0
    for e in case["events"]:
        if e["op"] != "write":
            continue
        r = e["req"]
        acked = obs["acks"][wi] in (200, 204, 500)     # a write rejected by the conversion (500) was appended and replicated before
        wi += 1
        if r["kind"] == "msg":
            for item, top in C5._items_of(r["payload"]):
                m = item.get(b"m")
                if isinstance(m, tuple) and m[0] == "s" and m[1] == b"":
                    sig.add("empty-measurement-unchecked")
        if repl and acked:
            rowpath = r["kind"] == "lp" or any(not top or b"columns" not in item for item, top in C5._items_of(r["payload"]))
            if rowpath:
                sig.add("row-format-entry-replicated-to-default")
    return sig


def gen_case(rng, cid):
    db_ok = rng.choice(L.DBS).decode()
    meas_ok = rng.sample(L.MEAS, rng.randint(1, 2))
    allow = [(db_ok, m.decode()) for m in meas_ok]
    repl = rng.random() < 0.6
    evs = [dict(op="start", repl=repl)]
    for _ in range(rng.randint(1, 4)):
        r = rng.random()
        db = db_ok if r < 0.75 else rng.choice([d.decode() for d in L.DBS] + ["default", "9bad", "a/b", ""])
        pool = meas_ok if rng.random() < 0.7 else L.MEAS + [b"9x", b"cp.u"]
        if rng.random() < 0.06:
            item = L.gen_columnar_item(rng, 0.5, False, 0.1, 0.0, 0.0, meas_pool=[b""])
            req = dict(kind="msg", hdb=db or None, payload=item if rng.random() < 0.5 else ("a", [item]), shape="col")
        else:
            req = L.gen_request(rng, db or None, routing_p=0.7, wild_ts=False, mixed_p=0.0, int_m_p=0.05, meas_pool=pool,
                                wire_p=0.25, dup_p=0.2, nested_p=0.12)
        if req["kind"] == "lp" and not db:
            req["hdb"] = None
        evs.append(dict(op="write", allow_all=False, allow=allow, req=req))
    evs.append(dict(op="flush"))
    if rng.random() < 0.6:
        evs += [dict(e) for e in L.RESTART]
    return dict(id=cid, events=evs, profile="repl" if repl else "local", policy=allow)


def evaluate(cases, variant, tag):
    obs = L.run_harness(PID, [L.harness_events(c) for c in cases], tag=tag)
    if len(obs) != len(cases):
        raise vlib.TieBroken("harness returned %d results for %d cases" % (len(obs), len(cases)))
    for o in obs:
        for chk in o["checked"]:
            for (_, _, perm) in chk:
                if perm != "write":
                    raise vlib.TieBroken("a write handler checked permission %r" % perm)
    L.reset_interner()
    terms = [L.case_coq(c, o, variant) for c, o in zip(cases, obs)]
    return obs, L.coq_verdicts(PID, terms, name="Cases_" + tag)


def _still(case, variant, pred):
    try:
        o, c = evaluate([case], variant, "shrink")
    except vlib.TieBroken:
        return False
    return bool(pred(c[0], case, o[0]))


def shrink(case, variant, pred):
    """event / point removal (the trailing restart, if any, is kept)"""
    tail = len(L.RESTART) if [e["op"] for e in case["events"][-len(L.RESTART):]] == [e["op"] for e in L.RESTART] else 0
    if tail:
        return C5.shrink(case, variant, pred)
    padded = dict(case, events=case["events"] + [dict(e) for e in L.RESTART])
    return C5.shrink(padded, variant, pred) if pred(padded) else case


def setup():
    L.write_params()


def warm():
    L.run_harness(PID, [], tag="warm")


def run(res, tier, seed):
    rng = random.Random(seed * 15485863 + 32)
    t0 = time.time()
    try:
        variant, facts = L.write_params()
    finally:
        res.stage("translate_params", t0)
    res.cov["params"] = {"deployed_variant": variant, "facts": facts}
    failed = vlib.std_proof_stage(res, PID, AREA, MODULES, THEOREMS, extra_targets=["theories/Recovery/Obligations.vo"])
    res.cov["trusted_base"] += [
        "front ends modelled from the decoded request: msgpack library decode (generic path; typed fast path = generic, C02) and the "
        "LP text parser (C01) are upstream - the generator emits escape-free LP and the real handlers parse it",
        "Sender/Receiver transport delivers the hook's payload bytes unchanged (C24): the harness feeds them to the real "
        "Coordinator.buildReplicationIngestHandler (in-package composition, no TCP)",
        "CSV / Parquet / TLE imports are not covered (C31); LP import is",
        "the recording stub implements api.RBACChecker; auth middleware (token -> TokenInfo) is outside (C20/C21)",
    ]
    if tier == "thorough":
        ok, _ = vlib.coqchk_stage(res, MODULES)
        if not ok:
            failed.append(("coqchk", "coqchk did not accept the compiled development"))

    n = 380 if tier == "quick" else 6000
    wit = witness_cases()
    cases = [c for _, c in wit] + regression_cases() + [gen_case(rng, i) for i in range(n)]
    t1 = time.time()
    obs, codes = [], []
    for off in range(0, len(cases), 400):
        o, c = evaluate(cases[off:off + 400], variant, "%s_%d" % (tier, off))
        obs += o
        codes += c
    res.stage("harness_and_coq_eval", t1)

    supported = [i for i, c in enumerate(codes) if c & 1]
    dis = [i for i in supported if not codes[i] & 2]
    orf = [i for i in supported if not codes[i] & 8]
    known = {e["signature"]: e for e in vlib.known_for(PID)}

    res.cov["evaluations"] = len(supported)
    res.cov["unsupported_by_model"] = len(cases) - len(supported)
    res.cov["distinct_nontrivial"] = len({C5.canon(cases[i]) for i in supported if has_routing_name(cases[i])})
    res.cov["rule"] = ("1-4 write requests (LP v1/v2/simple/import, msgpack columnar/row/batch/array) against a caller allowed ONE database "
                       "and 1-2 measurements; database from header and/or query parameter in every combination (also invalid / foreign), "
                       "routing-like names (database, _database, measurement, _measurement, m) as tags, fields, columns and top-level "
                       "payload keys; flush, and in 60% crash + recovery; 60% with a replica attached; non-trivial = the payloads contain "
                       ">= 1 routing-like name (every policy denies the other databases); distinct by event list")
    res.cov["model_vs_impl_disagreements"] = len(dis)
    res.cov["oracle_failures"] = len(orf)
    res.cov["histogram"] = {
        "acks": {str(k): sum(1 for i in supported for a in obs[i]["acks"] if a == k) for k in (200, 204, 400, 403, 500)},
        "requests": {k: sum(1 for i in supported for e in cases[i]["events"] if e["op"] == "write" and
                            (e["req"]["ep"] if e["req"]["kind"] == "lp" else "msg:" + e["req"].get("shape", "?")) == k)
                     for k in ("v1", "v2", "simple", "import", "msg:col", "msg:row", "msg:batch", "msg:array", "msg:nested")},
        "with_replica": sum(1 for i in supported if cases[i].get("profile") == "repl"),
        "with_crash_recovery": sum(1 for i in supported if any(e["op"] == "recover" for e in cases[i]["events"])),
        "permission_checks_recorded": sum(len(c) for i in supported for c in obs[i]["checked"]),
        "stored_rows": sum(len(obs[i]["stored"]) for i in supported), "replica_rows": sum(len(obs[i]["replica"]) for i in supported),
        "distinct_directories": len({r["dir"] for i in supported for r in obs[i]["stored"] + obs[i]["replica"]}),
    }
    res.cov["samples"] = [dict(L.case_summary(cases[i], obs[i]), policy=cases[i].get("policy"),
                               checked=obs[i]["checked"], replica_dirs=sorted({r["dir"] for r in obs[i]["replica"]}))
                          for i in [k for k in supported if cases[k]["id"] < 800000][:2]]

    widx = {c["id"]: k for k, c in enumerate(cases)}
    for sig, c in wit:
        k = widx[c["id"]]
        fails = bool(codes[k] & 1) and not codes[k] & 8
        agrees = bool(codes[k] & 2)
        if fails and sig in known and agrees:
            res.known_finding("%s [%s]" % (known[sig]["what"], sig))
        elif fails:
            res.violation("rows are stored outside the checked directories on the %s witness and %s" % (
                sig, "the finding is not listed as open" if agrees else "differently from the model's prediction"),
                {"kind": "oracle", "signature": sig, "case": L.case_to_json(c), "observed": obs[k],
                 "how_to_replay": "python3 tools/check.py C32 --replay <this file>"})

    unexplained = []
    for k in orf:
        if cases[k]["id"] >= 900000 or not (codes[k] & 2):
            continue
        sigs = {s for s in signatures(cases[k], obs[k], variant) if s in known and not variant[FLAG_OF[s]]}
        if not sigs:
            unexplained.append(k)
    res.cov["oracle_failures_in_known_classes"] = sum(1 for k in orf if cases[k]["id"] < 900000 and codes[k] & 2) - len(unexplained)
    for k in unexplained[:3]:
        small = shrink(cases[k], variant, lambda c: _still(c, variant, lambda code, c2, o2: (code & 1) and not (code & 8) and not
                                                          {s for s in signatures(c2, o2, variant) if s in known}))
        o2, c2 = evaluate([small], variant, "shrunk")
        res.violation("a row is stored in a directory no permission check of its request covered (outside every listed class)",
                      {"kind": "oracle", "case": L.case_to_json(small), "observed": o2[0], "model_agrees": bool(c2[0] & 2),
                       "how_to_replay": "python3 tools/check.py C32 --replay <this file>"})
    L.report_disagreements(res, PID, cases, obs, codes, dis, 8, evaluate, lambda c, v, pred: shrink(c, v, pred),
                           variant, TIE_NAME, "a request history")
    if failed and not res.violations:
        res.violation("proof obligation(s) no longer check: " + "; ".join(r for _, r in failed),
                      {"kind": "obligation-failed", "theorems": [t for t, _ in failed], "detail": [r for _, r in failed]},
                      no_input=True, suffix="obligation")


def replay(res, path):
    obj = json.load(open(path))
    if not obj.get("case"):
        print("replay file names no concrete case:", obj.get("summary"))
        return 1
    case = L.case_from_json(obj["case"])
    variant, _ = L.write_params()
    vlib.coq_make(["theories/Recovery/Obligations.vo", "theories/Recovery/Props.vo"])
    o, c = evaluate([case], variant, "replay")
    code = c[0]
    print(json.dumps(dict(L.case_summary(case, o[0]), checked=o[0]["checked"],
                          stored_dirs=sorted({r["dir"] for r in o[0]["stored"]}),
                          replica_dirs=sorted({r["dir"] for r in o[0]["replica"]})), indent=1)[:4000])
    print("model supports the case:", bool(code & 1), "| model agrees:", bool(code & 2), "| C32 oracle holds:", bool(code & 8))
    return 0 if (code & 1 and code & 2 and code & 8) else 1
