"""C20 - Permission decisions always reflect the current RBAC state.

Proof: coq/theories/Rbac (C20_coherent_guarded / C20_coherent_fixed for every operation
sequence, any invalidation table and key shape; C20_delete_org_refuted, C20_key_refuted).
Tie 1 (translator): for every mutation method of rbac_manager.go (direct path) and every
Apply* of cluster_rbac_apply.go, the Invalidate* call on its success path, and the fields of
permissionCacheKey, are re-extracted from the current source into coq/gen/Params_Rbac.v;
Obligations.v re-checks "every decision-affecting mutation invalidates" against them.
Tie 2 (correspondence): generated operation sequences run on the real RBACManager /
AuthManager on SQLite (direct and cluster-apply), every answer compared with the model
inside Coq; oracle = a fresh manager with empty caches on the same database.
"""
import json
import os
import random
import re
import time

import vlib
from vlib import cz, cn, cbool, clist

AREA = "Rbac"
PKG = "./internal/auth/"
THEOREMS = [("Arc.Rbac.Obligations", t) for t in (
    # PRIMARY: coherence of the code as it is now (tables and key shape re-extracted each run)
    "C20_deployed_coherent", "C20_direct_missing_none", "C20_cluster_missing_none", "C20_deployed_key_has_tokeninfo")] + \
    [("Arc.Rbac.Props", t) for t in ("C20_coherent_fixed", "C20_coherent_guarded",
                                      # statements about the variants before eac348f / ed2e486
                                      "C20_delete_org_refuted", "C20_key_refuted")]
MODULES = ["Arc.Rbac.Props", "Arc.Rbac.Obligations"]
TIE_NAME = ("C20 correspondence (operation sequences on the real RBACManager vs Arc.Rbac.Model.run / spec_run) / "
            "Params_Rbac (invalidation per mutation, permissionCacheKey fields)")
SEC = 10 ** 9
T0 = 1_700_000_000 * SEC

KINDS = ["KCreateOrg", "KUpdateOrg", "KDeleteOrg", "KRealignOrg", "KCreateTeam", "KUpdateTeam", "KDeleteTeam", "KCreateRole", "KUpdateRole",
         "KDeleteRole", "KCreateMP", "KDeleteMP", "KAddMember", "KRemoveMember", "KCreateToken", "KDeleteToken"]
DIRECT_METHODS = {"KCreateOrg": "CreateOrganization", "KUpdateOrg": "UpdateOrganization", "KDeleteOrg": "DeleteOrganization",
                  "KCreateTeam": "CreateTeam", "KUpdateTeam": "UpdateTeam", "KDeleteTeam": "DeleteTeam",
                  "KCreateRole": "CreateRole", "KUpdateRole": "UpdateRole", "KDeleteRole": "DeleteRole",
                  "KCreateMP": "CreateMeasurementPermission", "KDeleteMP": "DeleteMeasurementPermission",
                  "KAddMember": "AddTokenToTeam", "KRemoveMember": "RemoveTokenFromTeam"}
CLUSTER_METHODS = {k: "Apply" + v for k, v in DIRECT_METHODS.items()}
TOKEN_METHODS = {"direct": {"KCreateToken": ("internal/auth/auth.go", "insertToken"), "KDeleteToken": ("internal/auth/auth.go", "DeleteToken")},
                 "cluster": {"KCreateToken": ("internal/auth/cluster_apply.go", "ApplyCreateToken"),
                             "KDeleteToken": ("internal/auth/cluster_apply.go", "ApplyDeleteToken")}}


def func_body(text, recv, name, rel):
    m = re.search(r"^func \(\w+ \*%s\) %s\(" % (recv, re.escape(name)), text, re.M)
    if not m:
        raise vlib.TieBroken("method (*%s).%s not found in %s" % (recv, name, rel))
    n = text.find("\nfunc ", m.end())
    return text[m.start():(n if n >= 0 else len(text))]


def strip_block(body, header_re):
    """remove the block statement `if <header> { ... }` (brace matching) from a function body"""
    m = re.search(header_re, body)
    if not m:
        return body
    i = body.index("{", m.end() - 1)
    depth = 0
    j = i
    while j < len(body):
        ch = body[j]
        if ch == "{":
            depth += 1
        elif ch == "}":
            depth -= 1
            if depth == 0:
                break
        elif ch == "`":
            j = body.index("`", j + 1)
        elif ch == '"':
            j += 1
            while body[j] != '"':
                j += 2 if body[j] == "\\" else 1
        j += 1
    return body[:m.start()] + body[j + 1:]


def success_path_inval(body, what):
    """Invalidate* call that is a top-level statement of the function body (one tab), after the
    last SQL write: executed on every successful return."""
    lines = body.split("\n")
    last_exec = max([i for i, l in enumerate(lines) if re.search(r"\.(Exec|ExecContext)\(", l)] or [-1])
    if last_exec < 0:
        raise vlib.TieBroken("%s: no SQL write found" % what)
    found = "INone"
    for l in lines[last_exec:]:
        m = re.match(r"^\t(?:rm|am)\.(InvalidateAllCache|InvalidateTokenCache)\((.*)\)\s*$", l)
        if m:
            if m.group(1) == "InvalidateAllCache":
                return "IAll"
            if re.fullmatch(r"(tokenID|entry\.TokenID)", m.group(2).strip()):
                found = "IToken"
    return found


def translate_params():
    rel_d, rel_c = "internal/auth/rbac_manager.go", "internal/auth/cluster_rbac_apply.go"
    src_d = open(os.path.join(vlib.REPO, rel_d)).read()
    src_c = open(os.path.join(vlib.REPO, rel_c)).read()
    have = {(f["recv"], f["name"]): f for f in vlib.goast("funcs", rel_d, rel_c, "internal/auth/auth.go", "internal/auth/cluster_apply.go")}
    direct, cluster = {}, {}
    for k, name in DIRECT_METHODS.items():
        if ("*RBACManager", name) not in have:
            raise vlib.TieBroken("mutation method RBACManager.%s not found" % name)
        body = strip_block(func_body(src_d, "RBACManager", name, rel_d), r"\tif rm\.getProposer\(\) != nil \{")
        direct[k] = success_path_inval(body, "RBACManager.%s (direct path)" % name)
    for k, name in CLUSTER_METHODS.items():
        if ("*RBACManager", name) not in have:
            raise vlib.TieBroken("apply method RBACManager.%s not found" % name)
        cluster[k] = success_path_inval(func_body(src_c, "RBACManager", name, rel_c), "RBACManager.%s" % name)
    # the upgrade-seed REALIGN branch of ApplyCreateOrganization (name collision under another id: the
    # local organization is deleted - cascading - and re-inserted): what it invalidates before returning
    body = func_body(src_c, "RBACManager", "ApplyCreateOrganization", rel_c)
    m = re.search(r'UNIQUE constraint failed"\) \{', body)
    if not m or "tx.Commit()" not in body[m.end():]:
        raise vlib.TieBroken("realign branch (UNIQUE constraint failed ... tx.Commit()) of ApplyCreateOrganization not found")
    tail = body[m.end():]
    tail = tail[tail.index("tx.Commit()"):]
    tail = tail[:tail.index("return nil")]
    cluster["KRealignOrg"] = "IAll" if re.search(r"^\s*rm\.InvalidateAllCache\(\)\s*$", tail, re.M) else "INone"
    direct["KRealignOrg"] = "IAll"      # no such path in direct mode: CreateOrganization rejects a duplicate name
    for mode, tbl in (("direct", direct), ("cluster", cluster)):
        for k, (rel, name) in TOKEN_METHODS[mode].items():
            f = have.get(("*AuthManager", name))
            if f is None:
                raise vlib.TieBroken("AuthManager.%s not found" % name)
            calls = f["calls"] or []
            tbl[k] = "IAll" if "InvalidateAllCache" in calls else ("IToken" if "InvalidateTokenCache" in calls else "INone")
    m = re.search(r"type permissionCacheKey struct \{(.*?)\n\}", src_d, re.S)
    if not m:
        raise vlib.TieBroken("type permissionCacheKey not found")
    fields = re.findall(r"^\s*(\w+)\s+\w+", m.group(1), re.M)
    base = ["tokenID", "database", "measurement", "permission"]
    if sorted(fields) == sorted(base):
        key_ti = False
    elif sorted(fields) == sorted(base + ["tokenPerms", "tokenEnabled"]):
        sites = re.findall(r"permissionCacheKey\{(.*?)\}", src_d, re.S)
        if len(sites) < 2 or not all("tokenPerms:" in s and "tokenEnabled:" in s for s in sites):
            raise vlib.TieBroken("permissionCacheKey has tokenPerms/tokenEnabled but a construction site does not set them")
        key_ti = True
    else:
        raise vlib.TieBroken("unrecognised permissionCacheKey fields %r" % fields)
    body = "(* GENERATED by tools/props/C20.py from the current /repo sources - do not edit *)\n"
    body += "From Arc Require Import Rbac.Model.\n"
    for nm, tbl, where in (("direct_inval", direct, "rbac_manager.go methods, path after `if rm.getProposer() != nil {...}`; token rows: auth.go"),
                           ("cluster_inval", cluster, "cluster_rbac_apply.go Apply* methods; token rows: cluster_apply.go")):
        body += "(* Invalidate* statement on the success path: %s *)\nDefinition %s (k : mkind) : inval :=\n  match k with\n" % (where, nm)
        for k in KINDS:
            body += "  | %s => %s\n" % (k, tbl[k])
        body += "  end.\n"
    body += "(* permissionCacheKey fields: %s *)\nDefinition perm_key_has_tokeninfo : bool := %s.\n" % (", ".join(fields), cbool(key_ti))
    vlib.write_params("Params_Rbac", body)
    return {"direct_inval": direct, "cluster_inval": cluster, "perm_key_fields": fields, "perm_key_has_tokeninfo": key_ti}


# ---------------------------------------------------------------------------------------
# harness
# ---------------------------------------------------------------------------------------
def overlay():
    ov = {}
    for rel in ("internal/auth/rbac_manager.go", "internal/auth/cluster_rbac_apply.go"):
        text = open(os.path.join(vlib.REPO, rel)).read()
        if rel.endswith("rbac_manager.go") and text.count("time.Now()") < 5:
            raise vlib.TieBroken("time.Now() no longer used in %s (controlled clock cannot be injected)" % rel)
        ov[rel] = vlib.gen_file(os.path.join("C20", rel), text.replace("time.Now()", "verifRbacNow()"))
    # token creation speed only (same code path)
    rel = "internal/auth/auth.go"
    text = open(os.path.join(vlib.REPO, rel)).read()
    text, n = re.subn(r"^const pbkdf2Iterations = [\d_]+", "const pbkdf2Iterations = 1", text, flags=re.M)
    if n == 1:
        ov[rel] = vlib.gen_file(os.path.join("C20", rel), text)
    ov["internal/auth/zz_rbac_verif_test.go"] = os.path.join(vlib.ROOT, "harness/rbac/rbac_verif_test.go")
    ov["internal/license/zz_verif_client.go"] = os.path.join(vlib.ROOT, "harness/rbac/license_verif.go")
    return ov


def run_impl(cases, tag):
    d = os.path.join(vlib.WORK, "cases", "C20")
    os.makedirs(d, exist_ok=True)
    cin, cout = os.path.join(d, tag + "_in.json"), os.path.join(d, tag + "_out.json")
    json.dump([{k: v for k, v in c.items() if k not in ("fam", "obs", "nondet")} for c in cases], open(cin, "w"))
    if os.path.exists(cout):
        os.remove(cout)
    rc, out = vlib.go_test(PKG, "^TestVerifRbac$", overlay=overlay(), env={"VERIF_CASES": cin, "VERIF_OUT": cout}, name="C20_" + tag, timeout=1800)
    if rc != 0 or not os.path.exists(cout):
        raise vlib.TieBroken("C20 harness failed against the current source (rc=%d):\n%s" % (rc, out[-3000:]))
    obs = json.load(open(cout))
    if len(obs) != len(cases):
        raise vlib.TieBroken("C20 harness returned %d results for %d cases" % (len(obs), len(cases)))
    for o in obs:
        if o.get("fatal"):
            raise vlib.TieBroken("C20 harness: case %s: %s" % (o["id"], o["fatal"]))
    return [dict(c, obs=o["outs"]) for c, o in zip(cases, obs)]


# ---------------------------------------------------------------------------------------
# case generation
# ---------------------------------------------------------------------------------------
DBS = ["prod", "prod_us", "production", "staging", "dev_metrics", "x", "metrics", "bus", "prod_", "pro", "p_"]
MEAS = ["", "", "cpu", "cpu_metrics", "mem", "m", "x_m", "cpus"]
PATS_OK = ["*", "prod", "prod_*", "prod*", "*_metrics", "*_us", "staging", "*abc", "p_*", "dev_metrics", "cpu", "cpu*", "*_m", "x", "-_*"]
PATS_BAD = ["", "a*b", "**", "pr od", "*a*", "a.b"]


def mut(kind, **kw):
    d = {"op": "mut", "kind": kind}
    d.update(kw)
    return d


def chk(ti, db, meas, perm):
    return {"op": "check", "req": {"ti": ti, "db": db, "meas": meas, "perm": perm}}


def ti_of(tid, perms, enabled=True):
    return {"id": tid, "perms": list(perms), "enabled": enabled}


def witness_cases():
    w = []
    setup = [mut("create_org"), mut("create_team", a=1), mut("create_role", a=1, pat="*", perms=[2]), mut("create_token"),
             mut("add_member", a=1, b=1)]
    for mode in ("direct", "cluster"):
        # C20_delete_org_refuted
        w.append({"fam": "W:delete-org:" + mode, "mode": mode, "enabled": True, "ttl": 30 * SEC, "t0": T0,
                  "ops": setup + [chk(ti_of(1, []), "prod", "", 2), mut("delete_org", id=1), chk(ti_of(1, []), "prod", "", 2)]})
        # C20_key_refuted (permissions narrowed, then the enabled flag)
        w.append({"fam": "W:narrow:" + mode, "mode": mode, "enabled": True, "ttl": 30 * SEC, "t0": T0,
                  "ops": [chk(ti_of(1, [2]), "prod", "", 2), chk(ti_of(1, []), "prod", "", 2)]})
        w.append({"fam": "W:disabled-flag:" + mode, "mode": mode, "enabled": True, "ttl": 30 * SEC, "t0": T0,
                  "ops": setup + [chk(ti_of(1, []), "prod", "", 2), chk(ti_of(1, [], False), "prod", "", 2)]})
        # the non-vacuity sequence of Props.v
        w.append({"fam": "W:nonvac:" + mode, "mode": mode, "enabled": True, "ttl": 30 * SEC, "t0": T0,
                  "ops": setup + [chk(ti_of(1, []), "prod", "", 2), mut("update_team", id=1, en=False), chk(ti_of(1, []), "prod", "", 2),
                                  mut("update_team", id=1, en=True),
                                  {"op": "batch", "reqs": [{"ti": ti_of(1, []), "db": "prod", "meas": "", "perm": 2}, {"ti": None, "db": "prod", "meas": "", "perm": 2}]},
                                  mut("remove_member", a=1, b=1), chk(ti_of(1, []), "prod", "", 2)]})
    return w


class Tracker:
    """what exists (approximately) - only to make generated operations mostly valid"""

    def __init__(self):
        self.n = {"org": 0, "team": 0, "role": 0, "mp": 0, "tok": 0}
        self.live = {"org": set(), "team": set(), "role": set(), "mp": set(), "tok": set()}
        self.deadtok = set()
        self.tokperms = {}
        self.checked = []

    def new(self, k):
        self.n[k] += 1
        self.live[k].add(self.n[k])
        return self.n[k]

    def pick(self, rng, k, wrong=0.12):
        if self.live[k] and rng.random() > wrong:
            return rng.choice(sorted(self.live[k]))
        return rng.randint(1, max(2, self.n[k] + 1))


def gen_sequence(rng, mode, enabled, ttl, allow_bad):
    """allow_bad: may contain the operations that fall outside the guarded theorem (direct
    DeleteOrganization between checks, changing a token's TokenInfo between checks)"""
    tr = Tracker()
    ops = []

    def valid_perms():
        return rng.sample([1, 2, 3, 4], rng.randint(1, 2)) if rng.random() > 0.08 else rng.choice([[], [5], [2, 6]])

    def pat():
        return rng.choice(PATS_OK) if rng.random() > 0.1 else rng.choice(PATS_BAD)

    # set-up prefix: mostly a usable hierarchy
    for _ in range(rng.randint(1, 2)):
        ops.append(mut("create_org"))
        tr.new("org")
    for _ in range(rng.randint(1, 3)):
        o = tr.pick(rng, "org", 0.05)
        ops.append(mut("create_team", a=o))
        if o in tr.live["org"]:
            tr.new("team")
    for _ in range(rng.randint(1, 2)):
        ops.append(mut("create_token"))
        t = tr.new("tok")
        tr.tokperms[t] = rng.choice([[], [], [2], [2, 3], [1], [5]])
    for _ in range(rng.randint(1, 3)):
        t = tr.pick(rng, "team", 0.05)
        p, ps = pat(), valid_perms()
        ops.append(mut("create_role", a=t, pat=p, perms=ps))
        if t in tr.live["team"] and p in PATS_OK and ps and all(x <= 4 for x in ps):
            tr.new("role")
    for _ in range(rng.randint(0, 2)):
        r = tr.pick(rng, "role", 0.05)
        p, ps = pat(), valid_perms()
        ops.append(mut("create_mp", a=r, pat=p, perms=ps))
        if r in tr.live["role"] and p in PATS_OK and ps and all(x <= 4 for x in ps):
            tr.new("mp")
    for _ in range(rng.randint(1, 3)):
        ops.append(mut("add_member", a=tr.pick(rng, "tok", 0.05), b=tr.pick(rng, "team", 0.05)))

    def a_check():
        if tr.checked and rng.random() < 0.6:
            tid, db, meas, perm = rng.choice(tr.checked)
        else:
            cand = sorted(tr.live["tok"] - tr.deadtok) or [7]
            tid = rng.choice(cand) if rng.random() > 0.05 else 7
            db, meas, perm = rng.choice(DBS), rng.choice(MEAS), rng.choice([2, 2, 3, 4, 1])
            tr.checked.append((tid, db, meas, perm))
        if tid in tr.deadtok:
            tid = 7
        if rng.random() < 0.04:
            return {"ti": None, "db": db, "meas": meas, "perm": perm}
        return {"ti": ti_of(tid, tr.tokperms.get(tid, [])), "db": db, "meas": meas, "perm": perm}

    for _ in range(rng.randint(6, 12)):
        x = rng.random()
        if x < 0.42:
            r = a_check()
            ops.append({"op": "check", "req": r})
        elif x < 0.50:
            ops.append({"op": "batch", "reqs": [a_check() for _ in range(rng.randint(1, 4))]})
        elif x < 0.53:
            ops.append({"op": "tick", "dt": rng.choice([1 * SEC, ttl // 2, ttl - 1, ttl, ttl + 1, 2 * ttl])})
        elif x < 0.55:
            ops.append({"op": "janitor"})
        elif x < 0.57 and tr.checked:
            tid, db, meas, perm = rng.choice(tr.checked)
            if rng.random() < 0.5:
                ops.append({"op": "drop_tok", "id": tid})
            else:
                ops.append({"op": "drop_perm", "req": {"ti": ti_of(tid, tr.tokperms.get(tid, [])), "db": db, "meas": meas, "perm": perm}})
        elif x < 0.60 and allow_bad and tr.live["tok"]:
            t = rng.choice(sorted(tr.live["tok"]))          # the token's own permissions change (AuthManager.UpdateToken)
            tr.tokperms[t] = rng.choice([[], [2], [3], [1], [2, 3, 4]])
        else:
            k = rng.choice(["update_team", "update_team", "delete_team", "create_role", "update_role", "update_role", "delete_role",
                            "create_mp", "delete_mp", "add_member", "remove_member", "remove_member", "create_team", "create_org",
                            "update_org", "create_token", "delete_token", "delete_org", "delete_org"] + (["realign_org"] * 2 if mode == "cluster" else []))
            if k == "update_team":
                ops.append(mut(k, id=tr.pick(rng, "team"), en=rng.random() < 0.5))
            elif k == "delete_team":
                t = tr.pick(rng, "team")
                ops.append(mut(k, id=t))
                tr.live["team"].discard(t)
            elif k == "create_role":
                t = tr.pick(rng, "team")
                p, ps = pat(), valid_perms()
                ops.append(mut(k, a=t, pat=p, perms=ps))
                if t in tr.live["team"] and p in PATS_OK and ps and all(x <= 4 for x in ps):
                    tr.new("role")
            elif k == "update_role":
                o = mut(k, id=tr.pick(rng, "role"))
                y = rng.random()
                if y < 0.45:
                    o["pat"] = pat()
                elif y < 0.9:
                    o["perms"] = valid_perms()
                elif y < 0.95:
                    o["pat"], o["perms"] = pat(), valid_perms()
                ops.append(o)
            elif k == "delete_role":
                r = tr.pick(rng, "role")
                ops.append(mut(k, id=r))
                tr.live["role"].discard(r)
            elif k == "create_mp":
                r = tr.pick(rng, "role")
                p, ps = pat(), valid_perms()
                ops.append(mut(k, a=r, pat=p, perms=ps))
                if r in tr.live["role"] and p in PATS_OK and ps and all(x <= 4 for x in ps):
                    tr.new("mp")
            elif k == "delete_mp":
                m_ = tr.pick(rng, "mp")
                ops.append(mut(k, id=m_))
                tr.live["mp"].discard(m_)
            elif k in ("add_member", "remove_member"):
                ops.append(mut(k, a=tr.pick(rng, "tok"), b=tr.pick(rng, "team")))
            elif k == "create_team":
                o = tr.pick(rng, "org")
                ops.append(mut(k, a=o))
                if o in tr.live["org"]:
                    tr.new("team")
            elif k == "create_org":
                ops.append(mut(k))
                tr.new("org")
            elif k == "update_org":
                ops.append(mut(k, id=tr.pick(rng, "org"), en=rng.random() < 0.5))
            elif k == "delete_org":
                o = tr.pick(rng, "org")
                ops.append(mut(k, id=o))
                tr.live["org"].discard(o)
            elif k == "realign_org":
                o = tr.pick(rng, "org")
                ops.append(mut(k, id=o))
                if o in tr.live["org"]:
                    tr.live["org"].discard(o)
                    tr.new("org")
            elif k == "create_token":
                ops.append(mut(k))
                t = tr.new("tok")
                tr.tokperms[t] = rng.choice([[], [2], [1]])
            elif k == "delete_token":
                t = tr.pick(rng, "tok")
                ops.append(mut(k, id=t))
                tr.live["tok"].discard(t)
                tr.deadtok.add(t)
    # close with re-checks of everything that was checked (the checks after the last mutation)
    for tid, db, meas, perm in tr.checked[:4]:
        if tid not in tr.deadtok:
            ops.append(chk(ti_of(tid, tr.tokperms.get(tid, [])), db, meas, perm))
    return {"fam": ("R:bad:" if allow_bad else "R:guarded:") + mode + ("" if enabled else ":unlicensed"),
            "mode": mode, "enabled": enabled, "ttl": ttl, "t0": T0, "ops": ops}


def malformed_cases(rng, n):
    """requests / mutations with odd arguments: empty names, unknown ids, invalid patterns only"""
    out = []
    for i in range(n):
        mode = rng.choice(["direct", "cluster"])
        ops = [mut("create_org"), mut("create_team", a=rng.choice([1, 2])), mut("create_token")]
        for _ in range(rng.randint(4, 9)):
            ops.append(rng.choice([
                mut("create_role", a=rng.randint(0, 3), pat=rng.choice(PATS_BAD + ["*"]), perms=rng.choice([[], [5], [2], [9]])),
                mut("create_mp", a=rng.randint(0, 3), pat=rng.choice(PATS_BAD + ["cpu*"]), perms=rng.choice([[], [2]])),
                mut("update_role", id=rng.randint(0, 3)), mut("update_role", id=rng.randint(1, 2), pat=rng.choice(PATS_BAD)),
                mut("add_member", a=rng.randint(0, 3), b=rng.randint(0, 3)), mut("remove_member", a=rng.randint(0, 3), b=rng.randint(0, 3)),
                mut("delete_team", id=rng.randint(2, 5)), mut("delete_role", id=rng.randint(0, 3)), mut("delete_mp", id=rng.randint(0, 3)),
                mut("delete_token", id=rng.randint(2, 4)), mut("update_team", id=rng.randint(2, 5), en=False),
                mut("update_org", id=rng.randint(2, 5), en=False),
                chk(ti_of(1, [rng.choice([1, 2, 5])]), rng.choice(["", "prod", "*", "a b"]), rng.choice(["", "*", "cpu"]), rng.choice([1, 2, 3, 4])),
                chk(None, "prod", "", 2)]))
        out.append({"fam": "M:malformed:" + mode, "mode": mode, "enabled": True, "ttl": 30 * SEC, "t0": T0, "ops": ops})
    return out


def pattern_grid():
    """every wildcard form against every name, as database pattern of a role and as measurement pattern"""
    out = []
    setup = [mut("create_org"), mut("create_team", a=1), mut("create_token"), mut("add_member", a=1, b=1)]
    for i, p in enumerate(PATS_OK):
        mode = ("direct", "cluster")[i % 2]
        ops = setup + [mut("create_role", a=1, pat=p, perms=[2]),
                       {"op": "batch", "reqs": [{"ti": ti_of(1, []), "db": d, "meas": "", "perm": 2} for d in DBS + ["", "*"]]}]
        out.append({"fam": "P:db-pattern:" + mode, "mode": mode, "enabled": True, "ttl": 30 * SEC, "t0": T0, "ops": ops})
        ops = setup + [mut("create_role", a=1, pat="*", perms=[3]), mut("create_mp", a=1, pat=p, perms=[2]),
                       {"op": "batch", "reqs": [{"ti": ti_of(1, []), "db": "prod", "meas": m_, "perm": perm}
                                                for m_ in sorted(set(MEAS)) + DBS[:7] for perm in (2, 3)]}]
        out.append({"fam": "P:meas-pattern:" + mode, "mode": mode, "enabled": True, "ttl": 30 * SEC, "t0": T0, "ops": ops})
    return out


def janitor_cases(rng, n):
    """the two caches expire independently: token data loaded at t0, a decision computed later
    (still from that data) outlives it; the cleanup loop then drops the data only; a membership
    change must nevertheless purge the decision"""
    out = []
    ttl = 30 * SEC
    for i in range(n):
        mode = ("direct", "cluster")[i % 2]
        member_first = rng.random() < 0.6
        ops = [mut("create_org"), mut("create_team", a=1), mut("create_role", a=1, pat=rng.choice(["*", "prod*", "prod_*"]), perms=[2]),
               mut("create_token"), mut("create_token")]
        if member_first:
            ops.append(mut("add_member", a=1, b=1))
        ti = ti_of(1, rng.choice([[], [], [3]]))
        a, b = rng.sample(["prod", "prod_us", "production", "prod_"], 2)
        ops += [chk(ti, a, "", 2), {"op": "tick", "dt": rng.choice([ttl // 2, ttl // 3, ttl - 1])}, chk(ti, b, "", 2)]
        if rng.random() < 0.5:
            ops.append(chk(ti_of(2, []), a, "", 2))
        ops += [{"op": "tick", "dt": rng.choice([ttl // 2 + SEC, ttl // 2, 2 * ttl // 3, ttl // 3 + 1])}, {"op": "janitor"}]
        ops.append(mut("remove_member", a=1, b=1) if member_first else mut("add_member", a=1, b=1))
        ops += [chk(ti, b, "", 2), chk(ti, a, "", 2), {"op": "batch", "reqs": [{"ti": ti, "db": b, "meas": "", "perm": 2}, {"ti": ti_of(2, []), "db": a, "meas": "", "perm": 2}]}]
        if rng.random() < 0.5:
            ops += [mut("add_member", a=1, b=1) if member_first else mut("remove_member", a=1, b=1), {"op": "janitor"}, chk(ti, b, "", 2)]
        out.append({"fam": "J:janitor:" + mode, "mode": mode, "enabled": True, "ttl": ttl, "t0": T0, "ops": ops})
    return out


def eviction_cases(rng, n):
    """tiny MaxCacheSize: checks of other tokens evict (at random, independently in the two
    caches) this token's data and/or decisions.  Which entry Go's map iteration evicts is not
    reproduced by the model: these cases are judged by the cache-free oracle only."""
    out = []
    for i in range(n):
        mode = ("direct", "cluster")[i % 2]
        ops = [mut("create_org"), mut("create_team", a=1), mut("create_team", a=1), mut("create_role", a=1, pat="*", perms=[2]),
               mut("create_role", a=2, pat="prod*", perms=[3])] + [mut("create_token") for _ in range(4)]
        members = set()
        for t in (1, 2, 3):
            if rng.random() < 0.6:
                ops.append(mut("add_member", a=t, b=1))
                members.add((t, 1))
        keys = [(t, d, p) for t in (1, 2, 3, 4) for d in ("prod", "staging") for p in (2, 3)]
        for _ in range(rng.randint(10, 18)):
            x = rng.random()
            if x < 0.7:
                t, d, p = rng.choice(keys)
                ops.append(chk(ti_of(t, []), d, "", p))
            elif x < 0.78:
                ops.append({"op": "batch", "reqs": [{"ti": ti_of(t, []), "db": d, "meas": "", "perm": p} for t, d, p in rng.sample(keys, 3)]})
            else:
                t, tm = rng.choice([1, 2, 3]), rng.choice([1, 2])
                if (t, tm) in members:
                    ops.append(mut("remove_member", a=t, b=tm))
                    members.discard((t, tm))
                else:
                    ops.append(mut("add_member", a=t, b=tm))
                    members.add((t, tm))
        for t, d, p in keys[:8]:
            ops.append(chk(ti_of(t, []), d, "", p))
        out.append({"fam": "E:evict:" + mode, "mode": mode, "enabled": True, "ttl": 30 * SEC, "t0": T0, "max": rng.choice([1, 2, 2, 3]),
                    "nondet": True, "ops": ops})
    return out


ROLE_MOVES = [("prod*", "dev*", "production"), ("prod_*", "*_metrics", "prod_us"), ("*", "staging", "prod"), ("prod", "prod*", "prod"),
              ("*_us", "prod_*", "bus_us"), ("prod*", "prod_*", "production"), ("*_metrics", "*", "dev_metrics"), ("x", "p_*", "x"),
              ("prod_*", "prod*", "prod_us"), ("staging", "*abc", "staging")]


def role_move_cases():
    """a role's database pattern is moved after a decision for a database matched by the OLD
    pattern was cached (UpdateRole / ApplyUpdateRole must flush it); same for permissions and
    for a second role created later"""
    out = []
    for mode in ("direct", "cluster"):
        for old, new, db in ROLE_MOVES:
            setup = [mut("create_org"), mut("create_team", a=1), mut("create_role", a=1, pat=old, perms=[2]), mut("create_token"),
                     mut("add_member", a=1, b=1)]
            ti = ti_of(1, [])
            ops = setup + [chk(ti, db, "", 2), chk(ti, "staging", "", 2), mut("update_role", id=1, pat=new), chk(ti, db, "", 2),
                           chk(ti, "staging", "", 2), mut("update_role", id=1, perms=[3]), chk(ti, db, "", 2), chk(ti, db, "", 3),
                           mut("create_role", a=1, pat=old, perms=[2, 3]), chk(ti, db, "", 2),
                           {"op": "batch", "reqs": [{"ti": ti, "db": db, "meas": "", "perm": 3}, {"ti": ti, "db": "staging", "meas": "", "perm": 2}]},
                           mut("update_role", id=2, pat=new, perms=[4]), chk(ti, db, "", 2), chk(ti, db, "", 3)]
            out.append({"fam": "U:role-move:" + mode, "mode": mode, "enabled": True, "ttl": 30 * SEC, "t0": T0, "ops": ops})
    return out


def realign_cases(rng, n):
    """cluster-apply mode: an organization with team, role and membership exists locally; a
    decision is cached; then a CreateOrganization for the SAME NAME under another id is applied
    (upgrade seed): the local row is deleted (cascade) and re-inserted"""
    out = []
    for i in range(n):
        ops = [mut("create_org"), mut("create_org"), mut("create_team", a=1), mut("create_team", a=2),
               mut("create_role", a=1, pat=rng.choice(["*", "prod*"]), perms=[2]), mut("create_role", a=2, pat="*", perms=[3]),
               mut("create_token"), mut("create_token"), mut("add_member", a=1, b=1)]
        if rng.random() < 0.5:
            ops.append(mut("add_member", a=2, b=2))
        ti, tj = ti_of(1, []), ti_of(2, rng.choice([[], [2]]))
        ops += [chk(ti, "prod", "", 2), chk(tj, "prod", "", 3), chk(ti, "staging", "", 2)]
        victim = rng.choice([1, 1, 2, 3])
        ops += [mut("realign_org", id=victim), chk(ti, "prod", "", 2), chk(tj, "prod", "", 3),
                {"op": "batch", "reqs": [{"ti": ti, "db": "staging", "meas": "", "perm": 2}, {"ti": tj, "db": "prod", "meas": "", "perm": 3}]},
                mut("create_team", a=3), mut("create_team", a=victim), mut("realign_org", id=3), chk(ti, "prod", "", 2)]
        out.append({"fam": "O:realign:cluster", "mode": "cluster", "enabled": True, "ttl": 30 * SEC, "t0": T0, "ops": ops})
    return out


def gen_cases(rng, tier):
    n = 110 if tier == "quick" else 1500
    cases = witness_cases() + pattern_grid() + role_move_cases() + realign_cases(rng, 16 if tier == "quick" else 200) + janitor_cases(rng, 40 if tier == "quick" else 400) + \
        eviction_cases(rng, 40 if tier == "quick" else 400)
    for i in range(n):
        for mode in ("direct", "cluster"):
            cases.append(gen_sequence(rng, mode, True, 30 * SEC, allow_bad=False))
            cases.append(gen_sequence(rng, mode, True, 30 * SEC, allow_bad=True))
    for i in range(n // 5):
        cases.append(gen_sequence(rng, rng.choice(["direct", "cluster"]), False, 30 * SEC, allow_bad=True))
    cases += malformed_cases(rng, n // 3)
    for i, c in enumerate(cases):
        c["id"] = i
    return cases


# ---------------------------------------------------------------------------------------
# Coq evaluation
# ---------------------------------------------------------------------------------------
class Names:
    """shared header definitions (strings, TokenInfos, queries) so that the case terms stay small"""

    def __init__(self):
        self.strs, self.tis, self.qs = {}, {}, {}
        self.lines = []

    def s(self, x):
        if x not in self.strs:
            self.strs[x] = "S%d" % len(self.strs)
            self.lines.append("Definition %s : str := %s." % (self.strs[x], vlib.cbytes(x)))
        return self.strs[x]

    def perms(self, ps):
        return "[" + "; ".join("%d" % p for p in ps) + "]%N" if ps else "(@nil N)"

    def ti(self, t):
        if t is None:
            return "None"
        k = json.dumps(t, sort_keys=True)
        if k not in self.tis:
            self.tis[k] = "T%d" % len(self.tis)
            self.lines.append("Definition %s : option tinfo := Some {| ti_id := %s; ti_perms := %s; ti_enabled := %s |}." % (
                self.tis[k], cn(t["id"]), self.perms(t["perms"]), cbool(t["enabled"])))
        return self.tis[k]

    def q(self, r):
        k = (r["db"], r["meas"], r["perm"])
        if k not in self.qs:
            self.qs[k] = "Q%d" % len(self.qs)
            self.lines.append("Definition %s : query := {| q_db := %s; q_meas := %s; q_perm := %s |}." % (
                self.qs[k], self.s(r["db"]), self.s(r["meas"]), cn(r["perm"])))
        return self.qs[k]


def op_to_coq(o, nm):
    k = o["op"]
    if k == "check":
        return "OCheck %s %s" % (nm.ti(o["req"]["ti"]), nm.q(o["req"]))
    if k == "batch":
        return "OBatch %s" % clist(["(%s, %s)" % (nm.ti(r["ti"]), nm.q(r)) for r in o["reqs"]])
    if k == "tick":
        return "OTick %s" % cz(o["dt"])
    if k == "drop_tok":
        return "ODropTok %s" % cn(o["id"])
    if k == "janitor":
        return "OJanitor"
    if k == "drop_perm":
        r = o["req"]
        return "ODropPerm (KEY %s %s)" % (nm.ti(r["ti"]), nm.q(r))
    kind = o["kind"]
    i, a, b = cn(o.get("id", 0)), cn(o.get("a", 0)), cn(o.get("b", 0))
    ps = nm.perms(o.get("perms") or [])
    if kind == "create_org":
        m = "CreateOrg"
    elif kind == "update_org":
        m = "UpdateOrg %s %s" % (i, cbool(o["en"]))
    elif kind == "delete_org":
        m = "DeleteOrg %s" % i
    elif kind == "realign_org":
        m = "RealignOrg %s" % i
    elif kind == "create_team":
        m = "CreateTeam %s" % a
    elif kind == "update_team":
        m = "UpdateTeam %s %s" % (i, cbool(o["en"]))
    elif kind == "delete_team":
        m = "DeleteTeam %s" % i
    elif kind == "create_role":
        m = "CreateRole %s %s %s" % (a, nm.s(o["pat"]), ps)
    elif kind == "update_role":
        m = "UpdateRole %s %s %s" % (i, "(Some %s)" % nm.s(o["pat"]) if o.get("pat") is not None else "None", ps)
    elif kind == "delete_role":
        m = "DeleteRole %s" % i
    elif kind == "create_mp":
        m = "CreateMP %s %s %s" % (a, nm.s(o["pat"]), ps)
    elif kind == "delete_mp":
        m = "DeleteMP %s" % i
    elif kind == "add_member":
        m = "AddMember %s %s" % (a, b)
    elif kind == "remove_member":
        m = "RemoveMember %s %s" % (a, b)
    elif kind == "create_token":
        m = "CreateToken"
    elif kind == "delete_token":
        m = "DeleteToken %s" % i
    else:
        raise vlib.InfraError("unknown mutation " + kind)
    return "OMut (%s)" % m


SRC = {"token": "SToken", "rbac": "SRbac", "denied": "SDenied"}


def decs_to_coq(ds):
    return clist(["(%s, %s)" % (cbool(d["allowed"]), SRC.get(d["source"], "SDenied")) for d in ds])


def out_to_coq(o, fresh):
    if o["kind"] == "mut":
        return "OutMut %s %s" % (cbool(o["ok"]), cn(o["id"] if o["ok"] else 0))
    if o["kind"] == "dec":
        return "OutDec %s" % decs_to_coq(o["fresh"] if fresh else o["decs"])
    return "OutNone"


HEADER = ("From Coq Require Import List ZArith NArith Bool.\nFrom Arc Require Import Rbac.Model.\nFrom ArcGen Require Import Params_Rbac.\n"
          "Import ListNotations.\n"
          "Definition CFG (direct enabled : bool) (ttl : Z) : cfg := {| c_enabled := enabled; c_ttl := ttl; c_key_ti := perm_key_has_tokeninfo; "
          "c_inval := if direct then direct_inval else cluster_inval |}.\n"
          "Definition KEY (ti : option tinfo) (q : query) : pkey := match ti with Some t => mk_key (CFG true true 0) t q | None => "
          "{| k_tid := 0; k_db := []; k_meas := []; k_perm := 0; k_ti := None |} end.\n")


def case_to_coq(c, nm):
    return "{| k_cfg := CFG %s %s %s; k_t0 := %s; k_ops := %s; k_obs := %s; k_fresh := %s |}" % (
        cbool(c["mode"] == "direct"), cbool(c["enabled"]), cz(c["ttl"]), cz(c["t0"]),
        clist([op_to_coq(o, nm) for o in c["ops"]]),
        clist([out_to_coq(o, False) for o in c["obs"]]), clist([out_to_coq(o, True) for o in c["obs"]]))


def eval_in_coq(cases, name, chunk=150):
    from concurrent.futures import ThreadPoolExecutor
    preds = {"agree": "case_agrees", "oracle": "case_oracle", "by_table": "fixed_by_table", "by_key": "fixed_by_key", "by_both": "fixed_by_both"}
    offs = list(range(0, len(cases), chunk))

    def one(off):
        nm = Names()
        terms = [case_to_coq(c, nm) for c in cases[off:off + chunk]]
        return off, vlib.coq_check_cases("C20", HEADER + "\n".join(nm.lines) + "\n", "ccase", terms, preds, chunk=chunk, name="%s_%d" % (name, off), timeout=1500)
    res = {k: [] for k in preds}
    with ThreadPoolExecutor(max_workers=4) as ex:
        for off, r in ex.map(one, offs):
            for k in preds:
                res[k] += [off + x for x in r[k]]
    return res


def nontrivial(c):
    """a mutation between two checks of the same key"""
    seen = {}
    last_mut = -1
    for i, o in enumerate(c["ops"]):
        if o["op"] == "mut":
            last_mut = i
        reqs = [o["req"]] if o["op"] == "check" else (o["reqs"] if o["op"] == "batch" else [])
        for r in reqs:
            if r["ti"] is None:
                continue
            k = (r["ti"]["id"], r["db"], r["meas"], r["perm"])
            if k in seen and seen[k] < last_mut:
                return True
            seen.setdefault(k, i)
    return False


def canon(c):
    return json.dumps({k: c.get(k) for k in ("mode", "enabled", "ttl", "max", "ops")}, sort_keys=True)


def corpus_cases():
    """minimised past disagreements / refutation witnesses kept in corpus/C20 (run first)"""
    d = os.path.join(vlib.ROOT, "corpus", "C20")
    out = []
    for fn in sorted(os.listdir(d)) if os.path.isdir(d) else []:
        if fn.endswith(".json"):
            c = dict(json.load(open(os.path.join(d, fn)))["case"])
            c.pop("obs", None)
            c["fam"] = "K:corpus:" + fn[:-5]
            out.append(c)
    return out


def setup():
    translate_params()


def warm():
    run_impl([], "warm")


def shrink_ops(c, pred_key):
    """greedy removal of operations; every round tries all single removals in ONE harness run /
    one coqc run.  pred_key: "oracle" or "agree" (the predicate that must stay false)."""
    cur = dict(c)
    cur.pop("obs", None)
    for _ in range(len(c["ops"])):
        cands = [dict(cur, ops=cur["ops"][:i] + cur["ops"][i + 1:], id=i) for i in range(len(cur["ops"])) if len(cur["ops"]) > 1]
        if not cands:
            break
        try:
            outs = run_impl(cands, "shrink")
            bad = eval_in_coq(outs, "Shrink_C20")[pred_key]
        except (vlib.TieBroken, vlib.InfraError):
            break
        if not bad:
            break
        cur = dict(cands[bad[0]])
    return cur


def run(res, tier, seed):
    rng = random.Random(seed * 7919 + 20)
    t0 = time.time()
    try:
        params = translate_params()
    finally:
        res.stage("translate_params", t0)
    res.cov["params"] = params
    failed = vlib.std_proof_stage(res, "C20", AREA, MODULES, THEOREMS, extra_targets=["theories/Rbac/Obligations.vo"])
    res.cov["trusted_base"] += [
        "SQLite (foreign_keys=ON, ON DELETE CASCADE, AUTOINCREMENT) is modelled by apply_mut / cascade; validated only by the correspondence",
        "the TokenInfo handed to a check is an input of the model (in the server it is what VerifyToken returned, see C21); a deleted token is never checked again",
        "cluster-apply mode: a stand-in for the Raft FSM (validates like the FSM, stamps per-table ids) calls the real Apply* of this node; other nodes' replication lag is outside the model",
        "licence gate: license.NewVerifClient (injected with build tag verif) supplies an in-memory licence with or without the rbac feature",
        "eviction at capacity and the one-minute cleanup loop are the model's ODropPerm / ODropTok (any entry may vanish); maps' random eviction choice is not reproduced",
        "the Invalidate* statement 'on the success path' of each mutation is recognised textually (top-level statement of the function body after its last SQL write)",
    ]
    if tier == "thorough":
        ok, _ = vlib.coqchk_stage(res, MODULES)
        if not ok:
            failed.append(("coqchk", "coqchk did not accept the compiled development"))
    t1 = time.time()
    cases = corpus_cases() + gen_cases(rng, tier)
    for i, c in enumerate(cases):
        c["id"] = i
    out = run_impl(cases, tier)
    res.stage("impl_harness", t1)
    t2 = time.time()
    ev = eval_in_coq(out, "Cases_C20_%s" % tier)
    res.stage("coq_eval", t2)
    nondet = {i for i, c in enumerate(out) if c.get("nondet")}
    dis, orf = [i for i in ev["agree"] if i not in nondet], ev["oracle"]
    res.cov["oracle_only_cases"] = len(nondet)
    not_by_table, not_by_key, not_by_both = set(ev["by_table"]), set(ev["by_key"]), set(ev["by_both"])

    res.cov["evaluations"] = len(out)
    res.cov["distinct_nontrivial"] = len({canon(c) for c in out if nontrivial(c)})
    res.cov["rule"] = ("operation sequences (set-up of organization/team/role/measurement permission/token/membership, then 6-12 random "
                       "mutations, single and batched checks, clock ticks, entry drops; invalid patterns/ids/permissions; both modes; "
                       "licensed and unlicensed) + the refutation witnesses; non-trivial = a mutation falls between two checks of the "
                       "same (token, database, measurement, permission); distinct by (mode, licence, ttl, operations)")
    res.cov["model_vs_impl_disagreements"] = len(dis)
    res.cov["oracle_failures"] = len(orf)
    kinds = {}
    nchecks = nmut_ok = nmut_fail = 0
    for c in out:
        for o, r in zip(c["ops"], c["obs"]):
            k = o["op"] if o["op"] != "mut" else "mut:" + o["kind"]
            kinds[k] = kinds.get(k, 0) + 1
            if r["kind"] == "dec":
                nchecks += len(r["decs"])
            elif r["kind"] == "mut":
                nmut_ok += r["ok"]
                nmut_fail += not r["ok"]
    fam = {}
    for c in out:
        f = ":".join(c["fam"].split(":")[:2])
        fam[f] = fam.get(f, 0) + 1
    res.cov["histogram"] = {"families": fam, "operations": kinds, "decisions_compared": nchecks, "mutations_succeeded": nmut_ok,
                            "mutations_rejected": nmut_fail,
                            "sequence_length": {str(k): sum(1 for c in out if len(c["ops"]) == k) for k in sorted({len(c["ops"]) for c in out})},
                            "allowed_by": {s: sum(1 for c in out for r in c["obs"] if r["kind"] == "dec" for d in r["decs"] if d["source"] == s)
                                           for s in ("token", "rbac", "denied")}}
    res.cov["samples"] = [out[0], out[len(out) // 2]]

    known = {e["signature"]: e for e in vlib.known_for("C20")}
    SIG_ORG, SIG_KEY = "direct-delete-organization-no-invalidation", "perm-cache-key-ignores-token-permissions"
    NEED = {k: "all" for k in ("KDeleteOrg", "KRealignOrg", "KUpdateTeam", "KDeleteTeam", "KCreateRole", "KUpdateRole", "KDeleteRole", "KCreateMP", "KDeleteMP")}
    NEED.update({"KAddMember": "token", "KRemoveMember": "token"})      # Arc.Rbac.Model.need_of

    def missing(tbl):
        return [k for k in KINDS if (NEED.get(k) == "all" and tbl[k] != "IAll") or (NEED.get(k) == "token" and tbl[k] == "INone")]
    missing_direct = missing(params["direct_inval"])
    counts = {SIG_ORG: 0, SIG_KEY: 0}
    reported = False
    disset = set(dis)
    for idx in orf:
        c = out[idx]
        predicted = idx not in disset
        # attribution: which repair alone makes the model coherent on this case
        by_table = idx not in not_by_table
        by_key = idx not in not_by_key
        by_both = idx not in not_by_both
        sigs = []
        if by_table and not by_key:
            sigs = [SIG_ORG]
        elif by_key and not by_table:
            sigs = [SIG_KEY]
        elif (by_table and by_key) or by_both:
            sigs = [SIG_ORG, SIG_KEY]          # both defects are involved (either repair alone / only both together)
        ok_known = bool(sigs) and predicted and all(s in known for s in sigs)
        if SIG_ORG in sigs and not (c["mode"] == "direct" and "KDeleteOrg" in missing_direct
                                    and any(o["op"] == "mut" and o["kind"] == "delete_org" for o in c["ops"])):
            ok_known = False
        if SIG_KEY in sigs and params["perm_key_has_tokeninfo"]:
            ok_known = False
        if ok_known:
            for s in sigs:
                counts[s] += 1
        elif not reported:
            small = shrink_ops(c, "oracle")
            so = run_impl([dict(small, id=0)], "shrink")[0]
            res.violation("the real RBACManager answered a check differently from a fresh manager on the same database (family %s)%s" % (
                c["fam"], "" if predicted else "; the model does not predict this answer"),
                {"kind": "stale-decision", "case": so, "how_to_replay": "python3 tools/check.py C20 --replay <this file>"})
            reported = True
    if counts[SIG_ORG]:
        res.known_finding("%s: direct-mode DeleteOrganization invalidates neither RBAC cache; after the cascade removed the teams/roles/"
                          "memberships a cached allow is still returned (%d sequences, as predicted by the model; proposed repair "
                          "fixes/C20_delete_org_invalidate.patch)" % (SIG_ORG, counts[SIG_ORG]))
    if counts[SIG_KEY]:
        res.known_finding("%s: the permission cache key ignores TokenInfo.Permissions/Enabled; after a token's own permissions are narrowed "
                          "the cached allow is returned until the entry expires (%d sequences, as predicted by the model; proposed repair "
                          "fixes/C20_perm_cache_key.patch)" % (SIG_KEY, counts[SIG_KEY]))
    if failed and not reported:
        res.violation("proof obligation(s) no longer check: " + "; ".join(r for _, r in failed),
                      {"kind": "obligation-failed", "theorems": [t for t, _ in failed], "detail": [r for _, r in failed]},
                      no_input=True, suffix="obligation")
        reported = True
    if dis and not reported:
        c = out[dis[0]]

        small = shrink_ops(c, "agree")
        so = run_impl([dict(small, id=0)], "shrink")[0]
        e2 = eval_in_coq([so], "Shrink_C20")
        res.violation("model and implementation disagree on an operation sequence (family %s; %d disagreeing cases)" % (c["fam"], len(dis)),
                      {"kind": "correspondence", "correspondence": TIE_NAME, "case": so, "disagreeing_cases": len(dis),
                       "oracle_fails_on_impl": bool(e2["oracle"])}, no_input=not e2["oracle"], suffix="corr")


def replay(res, path):
    obj = json.load(open(path))
    c = obj.get("case")
    if not c:
        print("replay file names no concrete case:", obj.get("summary"))
        return 1
    translate_params()
    c = dict(c, id=0)
    c.pop("obs", None)
    c.setdefault("fam", "replay")
    out = run_impl([c], "replay")
    ev = eval_in_coq(out, "Replay_C20")
    for o, r in zip(out[0]["ops"], out[0]["obs"]):
        print(json.dumps(o), "->", json.dumps({k: v for k, v in r.items() if k in ("ok", "id", "decs", "fresh", "err")}))
    print("model disagrees:", bool(ev["agree"]), "| cached answers differ from a fresh manager:", bool(ev["oracle"]))
    return 1 if (ev["agree"] or ev["oracle"]) else 0
