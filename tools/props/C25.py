"""C25 - Peer file replication never exposes a bad file and converges.

Proof: coq/theories/FileRepl over the file-system model of coq/theories/Storage.
Theorems tied to the CURRENT code (presence judged on the final path since b7c1b90, a pull
that runs out of attempts without candidate peers counted as failed since ca914ab; model
configuration cfg_fix_presence = cfg_fix_nopeers = true): C25_final_only_verified(_jobs) for
ALL fault sequences, hostile peers and crash points, C25_presence_truthful_with_fix,
C25_convergence_with_fix, C25_gate_truthful_with_fixes.  Statements about the OLD variant
(flags false), kept as the record of the two repaired defects and re-checked so that a revert
is recognised: C25_presence_truthful_refuted / _guarded, C25_convergence_refuted / _guarded,
C25_gate_refuted_no_peers.
Tie: the real Puller + LocalBackend + FetchClient against a scripted TCP peer (every fetch
outcome on real bytes), jobs run synchronously, bytes at the final/.part paths + counters +
catch-up gate after each job compared with the model inside Coq.
"""
import json
import os
import random
import time

import vlib
from vlib import cz, cbool, clist
from lib_storage import hx, ch, chopt, unh, coq_check

AREA = "FileRepl"
MODULES = ["Arc.FileRepl.Props"]
PRIMARY = ("C25_final_only_verified", "C25_final_only_verified_jobs", "C25_presence_truthful_with_fix",
           "C25_convergence_with_fix", "C25_gate_truthful_with_fixes")                       # about the current code
OLD_VARIANT = ("C25_presence_truthful_refuted", "C25_presence_truthful_guarded", "C25_convergence_refuted",
               "C25_convergence_guarded", "C25_gate_refuted_no_peers")                       # about the code before b7c1b90 / ca914ab
THEOREMS = [("Arc.FileRepl.Props", t) for t in PRIMARY + OLD_VARIANT]
CODE_FLAGS = (True, True)        # the model configuration that IS the current code: (cfg_fix_presence, cfg_fix_nopeers)
TIE_NAME = "C25 correspondence (filereplication.Puller + FetchClient + storage.LocalBackend vs Arc.FileRepl.Model.run_job)"
HEADER = ("From Coq Require Import List NArith ZArith Bool String.\nFrom Arc Require Import Storage.Model Storage.Hex FileRepl.Model.\n"
          "Import ListNotations.\nOpen Scope string_scope.\n")

SIG_STALE = "stale-full-size-part-counted-present"
SIG_NOPEERS = "no-candidate-peers-on-last-attempt-not-counted-failed"


# ---------------------------------------------------------------------------------------
# responses
# ---------------------------------------------------------------------------------------

def honest():
    return {"kind": "serve", "off_delta": 0, "size_delta": 0, "sha_wrong": False, "trunc": -1, "flips": [], "alt": None}


def is_honest(r):
    return r == honest()


def serve(**kw):
    r = honest()
    r.update(kw)
    return r


def gen_resp(rng, content):
    n = len(content)
    k = rng.random()
    if k < 0.33:
        return honest()
    if k < 0.43:
        return {"kind": "dial"}
    if k < 0.48:
        return {"kind": "noack"}
    if k < 0.62:
        return {"kind": "err", "err": rng.choice(["generic", "notfound", "badoffset"])}
    m = rng.random()
    if m < 0.12:
        return serve(off_delta=rng.choice([-1, 1]))
    if m < 0.24:
        return serve(size_delta=rng.choice([-1, 1, 2]))
    if m < 0.34:
        return serve(sha_wrong=True)
    if m < 0.62:
        return serve(trunc=rng.randint(0, n))                        # truncation at any byte
    if m < 0.86:
        if n == 0:
            return serve(trunc=0)
        return serve(flips=sorted(set(rng.randrange(n) for _ in range(rng.choice([1, 1, 2])))))   # corruption of any byte
    if m < 0.93:
        return serve(flips=[rng.randrange(max(n, 1))], trunc=rng.randint(0, n))
    alt = bytes(rng.randrange(256) for _ in range(rng.choice([n, n, max(0, n - 1), n + 2])))
    return serve(alt=hx(alt))


def gen_case(rng, i):
    n = rng.choice([0, 1, 2, 5, 5, 16, 16, 33])
    content = bytes(rng.randrange(256) for _ in range(n))
    size = n if rng.random() < 0.9 else rng.choice([n + 1, max(0, n - 1), 0])
    sha_ok = rng.random() < 0.93
    maxa = rng.choice([1, 2, 3, 3, 4])
    f0 = None
    if rng.random() < 0.08:
        f0 = content
    elif rng.random() < 0.04:
        f0 = rng.choice([content[:max(0, n - 1)], b"zz", bytes(n)])      # not what the manifest says: excluded from the oracles
    r = rng.random()
    if r < 0.5:
        p0 = None
    elif r < 0.65:
        p0 = content[:rng.randint(0, n)]
    elif r < 0.8:
        p0 = bytes(rng.randrange(256) for _ in range(rng.randint(0, max(n - 1, 0))))
    elif r < 0.92:
        p0 = bytes(rng.randrange(256) for _ in range(n))
    else:
        p0 = bytes(rng.randrange(256) for _ in range(n + 3))
    jobs = []
    nj = rng.choice([1, 2, 2, 3])
    for j in range(nj):
        last_honest = (j == nj - 1 and rng.random() < 0.6)
        script = []
        for a in range(maxa if last_honest else rng.randint(1, maxa)):
            if last_honest:
                script.append([honest() for _ in range(rng.choice([1, 1, 2]))])
            else:
                np = rng.choice([0, 1, 1, 1, 2, 3]) if rng.random() < 0.9 else 0
                script.append([gen_resp(rng, content) for _ in range(np)])
        jobs.append({"catchup": j == 0 and rng.random() < 0.5, "script": script})
    return mk_case(content, sha_ok, size, maxa, f0, p0, jobs, "gen%d" % i)


def mk_case(content, sha_ok, size, maxa, f0, p0, jobs, label):
    return {"label": label, "content": hx(content), "sha_ok": sha_ok, "size": size, "max_attempts": maxa,
            "final0": None if f0 is None else hx(f0), "part0": None if p0 is None else hx(p0), "jobs": jobs}


def witness_cases():
    c = bytes(range(1, 17))
    corrupt = serve(flips=[3])
    return [
        # one corrupted full-length transfer; the next attempt's pre-check sees the .part and counts the file as present
        mk_case(c, True, 16, 2, None, None, [{"catchup": False, "script": [[corrupt], [honest()]]}], "W1-corrupt-then-retry"),
        # same across two jobs, the second one entirely honest (faults have stopped), through catch-up: gate opens
        mk_case(c, True, 16, 1, None, None, [{"catchup": True, "script": [[corrupt]]}, {"catchup": False, "script": [[honest()]]}], "W2-corrupt-then-honest-job"),
        # zero-size entry: any failed first attempt leaves an empty .part = "complete"
        mk_case(b"", True, 0, 2, None, None, [{"catchup": False, "script": [[{"kind": "dial"}], [honest()]]}], "W3-empty-file-dial-failure"),
        # stale full-size .part left by a crash before the hash check
        mk_case(c, True, 16, 3, None, bytes(16), [{"catchup": True, "script": [[honest()], [honest()], [honest()]]}], "W4-stale-part-from-crash"),
        # no candidate peers on every attempt of a catch-up pull: neither failed nor succeeded, gate opens
        mk_case(c, True, 16, 3, None, None, [{"catchup": True, "script": [[], [], []]}], "W5-no-peers-catchup"),
        # truncated, then resumed correctly
        mk_case(c, True, 16, 3, None, None, [{"catchup": True, "script": [[serve(trunc=5)], [honest()]]}], "W6-truncate-resume"),
        # corrupted + truncated, then honest resume over the corrupt prefix -> mismatch -> full-size .part
        mk_case(c, True, 16, 3, None, None, [{"catchup": False, "script": [[serve(trunc=9, flips=[2])], [honest()], [honest()]]}], "W7-corrupt-prefix-resume"),
    ]


def nontrivial(c):
    """>= 1 fault followed by a later attempt (in the same or a later job)."""
    seen_fault = False
    for j in c["jobs"]:
        for attempt in j["script"]:
            if seen_fault:
                return True
            if not attempt or any(not is_honest(r) for r in attempt):
                seen_fault = True
    return False


def job_honest(c, j):
    return (len(j["script"]) == c["max_attempts"] and all(len(a) >= 1 and all(is_honest(r) for r in a) for a in j["script"]))


# ---------------------------------------------------------------------------------------
# Coq printing
# ---------------------------------------------------------------------------------------

def resp_to_coq(r):
    if r["kind"] == "dial":
        return "RDial"
    if r["kind"] == "noack":
        return "(RPeer (fun _ => SNoAck))"
    if r["kind"] == "err":
        return "(RPeer (fun _ => SErr %s))" % {"generic": "EGeneric", "notfound": "ENotFound", "badoffset": "EBadOffset"}[r["err"]]
    return "(RPeer (scripted ct sh (Build_smod %s %s %s %s %s %s)))" % (
        cz(r["off_delta"]), cz(r["size_delta"]), cbool(r["sha_wrong"]),
        "None" if r["trunc"] < 0 else "(Some %d%%nat)" % r["trunc"],
        "[" + "; ".join("%d%%nat" % i for i in r["flips"]) + "]" if r["flips"] else "(@nil nat)",
        "None" if r["alt"] is None else "(Some %s)" % ch(bytes.fromhex(r["alt"])))


def case_to_coq(c, fix_presence=False, fix_nopeers=False):
    jobs = []
    for j in c["jobs"]:
        script = clist([clist([resp_to_coq(r) for r in a]) if a else "(@nil response)" for a in j["script"]]) if j["script"] else "(@nil (list response))"
        jobs.append("(Build_job %s %s, %s)" % (script, cbool(j["catchup"]), cbool(job_honest(c, j))))
    obs = []
    for o in c["obs"]:
        mid = clist([chopt(unh(m)) for m in o.get("mid") or []]) if o.get("mid") else "(@nil (option bytes))"
        obs.append("(Build_jobobs %s %s %s %s %s %s)" % (chopt(unh(o["final"])), chopt(unh(o["part"])), clist([cz(x) for x in o["cnt"]]),
                                                          cbool(o["fully"]), cbool(o["cu_failed"]), mid))
    return "(mk_rcase %s %s %s (Build_config %d%%nat %s %s) %s %s (fun ct sh => %s) %s)" % (
        ch(bytes.fromhex(c["content"])), cbool(c["sha_ok"]), cz(c["size"]), c["max_attempts"], cbool(fix_presence), cbool(fix_nopeers),
        chopt(unh(c["final0"])), chopt(unh(c["part0"])), clist(jobs), clist(obs))


def run_impl(cases, tag):
    inp = [{k: c[k] for k in ("content", "sha_ok", "size", "max_attempts", "final0", "part0", "jobs")} for c in cases]
    out = vlib.run_go_harness("C25", "./internal/cluster/filereplication/", "^TestVerifFileRepl$",
                              {"internal/cluster/filereplication/zz_filerepl_verif_test.go": "harness/filerepl/filerepl_verif_test.go"},
                              inp, tag=tag,
                              # observation point between "last body byte written" and the digest verdict
                              rewrites={"internal/cluster/filereplication/fetch_client.go": [("hasher.Sum(nil)", "verifSum(hasher, byteOffset)", 1)]})
    if len(out) != len(cases):
        raise vlib.TieBroken("C25 harness returned %d results for %d cases" % (len(out), len(cases)))
    res = []
    for c, o in zip(cases, out):
        if len(o.get("obs") or []) != len(c["jobs"]):
            raise vlib.TieBroken("C25 harness returned %d job observations for %d jobs" % (len(o.get("obs") or []), len(c["jobs"])))
        res.append(dict(c, obs=o["obs"]))
    return res


PREDS = {"agree": "rcase_agrees", "ofinal": "oracle_final", "opresence": "oracle_presence", "oconverge": "oracle_converge"}


def evaluate(cases, name, fix_presence=False, fix_nopeers=False):
    if not cases:
        return {k: [] for k in PREDS}
    return coq_check("C25", HEADER, "rcase", [case_to_coq(c, fix_presence, fix_nopeers) for c in cases], PREDS, name=name, chunk=140)


def setup():
    pass


def warm():
    run_impl([], "warm")


# ---------------------------------------------------------------------------------------
# verdicts
# ---------------------------------------------------------------------------------------

def explain(c):
    """Python re-statement of the three oracles on the implementation's observations; returns
    the list of (job index, oracle, signature-or-None) for every job where an oracle fails."""
    content = bytes.fromhex(c["content"])
    f0 = unh(c["final0"])
    if f0 is not None and not (c["sha_ok"] and f0 == content and len(f0) == c["size"]):
        return []                                  # initial final file is not what the manifest says: outside the theorems' domain
    consistent = c["sha_ok"] and len(content) == c["size"]
    out = []
    prev = [0] * 6
    for i, (j, o) in enumerate(zip(c["jobs"], c["obs"])):
        fin, part = unh(o["final"]), unh(o["part"])
        final_ok = fin is not None and c["sha_ok"] and fin == content and len(fin) == c["size"]
        d = [a - b for a, b in zip(o["cnt"], prev)]
        prev = o["cnt"]
        bad_mid = [m for m in (o.get("mid") or []) if m is not None and not (c["sha_ok"] and unh(m) == content and len(unh(m)) == c["size"])]
        if bad_mid:
            out.append((i, "final-transient", None))
            continue
        if fin is not None and not final_ok:
            out.append((i, "final", None))
            continue
        if final_ok:
            continue
        counted = d[0] + d[1] > 0
        stale = fin is None and part is not None and len(part) == c["size"] and d[0] > 0
        nopeers = (not counted) and d[2] == 0 and d[4] >= 1 and o["fully"]
        if counted:
            out.append((i, "presence", SIG_STALE if stale else None))
        elif o["fully"]:
            # gate open without a counted pull in this job: either nothing was attempted because no peers
            # were resolvable on any attempt, or the gate was opened by an earlier job (already reported)
            earlier = any(x[0] < i for x in out)
            out.append((i, "gate", SIG_NOPEERS if nopeers else (out[-1][2] if earlier else None)))
        if consistent and job_honest(c, j) and not counted and not o["fully"]:
            out.append((i, "converge", None))
    return out


def shrink_case(c, pred):
    """Greedy removal of jobs, attempts and responses while pred(case) holds."""
    def variants(x):
        for ji in range(len(x["jobs"])):
            if len(x["jobs"]) > 1:
                y = dict(x, jobs=x["jobs"][:ji] + x["jobs"][ji + 1:])
                yield y
            for ai in range(len(x["jobs"][ji]["script"])):
                sc = x["jobs"][ji]["script"]
                nj = dict(x["jobs"][ji], script=sc[:ai] + sc[ai + 1:])
                yield dict(x, jobs=x["jobs"][:ji] + [nj] + x["jobs"][ji + 1:])
                for ri in range(len(sc[ai])):
                    na = sc[ai][:ri] + sc[ai][ri + 1:]
                    nj = dict(x["jobs"][ji], script=sc[:ai] + [na] + sc[ai + 1:])
                    yield dict(x, jobs=x["jobs"][:ji] + [nj] + x["jobs"][ji + 1:])
        if x["part0"] is not None:
            yield dict(x, part0=None)
    cur = {k: v for k, v in c.items() if k != "obs"}
    budget = 60
    changed = True
    while changed and budget > 0:
        changed = False
        for v in variants(cur):
            budget -= 1
            if budget <= 0:
                break
            if pred(v):
                cur, changed = v, True
                break
    return cur


def detect_flags(out):
    """Which of the two repairs the CURRENT code already contains, judged on the witnesses."""
    by = {c["label"]: c for c in out}
    w1, w5 = by["W1-corrupt-then-retry"], by["W5-no-peers-catchup"]
    fix_presence = not (w1["obs"][0]["final"] is None and w1["obs"][0]["cnt"][0] > 0)
    fix_nopeers = not w5["obs"][0]["fully"]
    return fix_presence, fix_nopeers


def run(res, tier, seed):
    rng = random.Random(seed * 7919 + 25)
    failed = vlib.std_proof_stage(res, "C25", AREA, MODULES, THEOREMS)
    res.cov["trusted_base"] += [
        "SHA-256 is a Section variable H of the theorems (no property of it is needed for C25_final_only_verified / presence / gate; convergence assumes the manifest records H(content)); in case files H is an injective stand-in, i.e. SHA-256 is assumed collision-free on the bytes exercised",
        "file system oracle of area Storage (process-crash model; WriteReader/AppendReader/StatFile/ReadToAt/Delete step lists proved atomic in C08)",
        "one worker per path (the puller's inflight set), sequential jobs; Go scheduling of the pipe/writer goroutine inside pullOnce is abstracted to its joined result (wg.Wait); context cancellation, storage I/O errors, queue overflow and backends without AppendReader are not modelled",
        "peers are arbitrary functions of the requested offset in the theorems; the harness exercises them through the real FetchClient over loopback TCP with a scripted server (HMAC/nonce of the request is produced but not checked by the scripted peer)",
    ]
    n = int((400 if tier == "quick" else 6000) * float(os.environ.get("VERIF_SCALE") or "1"))
    t1 = time.time()
    cases = witness_cases() + [gen_case(rng, i) for i in range(n)]
    out = run_impl(cases, tier)
    res.stage("impl_harness", t1)
    seenp, seenn = detect_flags(out)
    res.cov["code_contains_repairs"] = {"presence_on_final_path": seenp, "no_peers_counts_as_failure": seenn}
    res.cov["theorems_tied_to_current_code"] = list(PRIMARY)
    res.cov["theorems_about_old_variant"] = list(OLD_VARIANT)
    fixp, fixn = CODE_FLAGS         # the model is evaluated as the current code; a revert shows up as oracle failures + disagreement
    t2 = time.time()
    r = evaluate(out, "Cases_" + tier, fixp, fixn)
    res.stage("coq_eval", t2)

    keys = {json.dumps({k: c[k] for k in ("content", "sha_ok", "size", "max_attempts", "final0", "part0", "jobs")}, sort_keys=True)
            for c in out if nontrivial(c)}
    res.cov["evaluations"] = len(out)
    res.cov["distinct_nontrivial"] = len(keys)
    res.cov["rule"] = ("7 fixed witness sequences + generated cases: file of 0..33 bytes, consistent or inconsistent manifest, final/.part left by earlier attempts "
                       "(absent, true prefix, garbage shorter/equal/longer), 1-3 successive pulls (first optionally through RunCatchUp) of 1-4 attempts x 0-3 candidate peers, each "
                       "response one of: honest, dial failure, no ack, error ack (generic/not_found/bad_offset), wrong offset echo/size/hash in the ack, truncation at any byte, "
                       "corruption of any byte(s), other content; non-trivial = at least one fault followed by a later attempt; distinct by full case")
    res.cov["model_vs_impl_disagreements"] = len(r["agree"])
    oracle_fail = sorted(set(r["ofinal"]) | set(r["opresence"]) | set(r["oconverge"]))
    res.cov["oracle_failures"] = len(oracle_fail)
    kinds = {}
    for c in out:
        for j in c["jobs"]:
            for a in j["script"]:
                if not a:
                    kinds["no-peers"] = kinds.get("no-peers", 0) + 1
                for x in a:
                    k = x["kind"] if x["kind"] != "serve" else ("honest" if is_honest(x) else "serve:" + "+".join(
                        m for m in ("off_delta", "size_delta", "sha_wrong", "flips", "alt") if x[m] not in (0, False, [], None)) + ("+trunc" if x["trunc"] >= 0 else ""))
                    if x["kind"] == "err":
                        k = "err:" + x["err"]
                    kinds[k] = kinds.get(k, 0) + 1
    res.cov["histogram"] = {"responses": kinds, "jobs_per_case": {str(k): sum(1 for c in out if len(c["jobs"]) == k) for k in (1, 2, 3)},
                            "catchup_cases": sum(1 for c in out if c["jobs"][0]["catchup"]),
                            "file_sizes": {str(k): sum(1 for c in out if len(c["content"]) // 2 == k) for k in (0, 1, 2, 5, 16, 33)},
                            "final_present_at_end": sum(1 for c in out if c["obs"][-1]["final"] is not None),
                            "oracle_final_failures": len(r["ofinal"]), "oracle_presence_failures": len(r["opresence"]), "oracle_converge_failures": len(r["oconverge"])}
    res.cov["samples"] = [{k: out[0][k] for k in out[0]}, {k: out[len(out) // 2][k] for k in out[0]}]

    known = {e["signature"]: e for e in vlib.known_for("C25")}
    reproduced = {}
    reported = False
    agree_bad = set(r["agree"])
    for idx in oracle_fail:
        c = out[idx]
        ex = explain(c)
        bad = [x for x in ex if x[2] is None or x[2] not in known]
        if idx in r["ofinal"]:
            bad = bad or [(0, "final", None)]
        if not ex and idx not in r["ofinal"]:
            bad = [(0, "oracle-mismatch", None)]            # Coq oracle fails but the python re-statement does not: treat as unexplained
        if bad or idx in agree_bad:
            if not reported:
                res.violation("replication oracle fails on the real puller (%s) and is not covered by a known finding" % (bad[0][1] if bad else "model predicts otherwise"),
                              {"kind": "oracle", "case": {k: c[k] for k in c if k != "obs"}, "observed": c["obs"], "explanation": ex,
                               "model_agrees": idx not in agree_bad})
                reported = True
        else:
            for _, _, sig in ex:
                reproduced.setdefault(sig, c["label"])
    for sig, label in sorted(reproduced.items()):
        res.known_finding("%s [signature %s; first reproduced by case %s]" % (known[sig]["what"], sig, label))
    res.cov["known_finding_cases"] = {sig: sum(1 for idx in oracle_fail if any(x[2] == sig for x in explain(out[idx]))) for sig in reproduced}

    if failed and not reported:
        res.violation("proof obligation(s) no longer check: " + "; ".join(x for _, x in failed),
                      {"kind": "obligation-failed", "theorems": [t for t, _ in failed], "detail": [x for _, x in failed]}, no_input=True, suffix="obligation")
    if r["agree"] and not reported:
        c = out[r["agree"][0]]

        def still(cand):
            o = run_impl([dict(cand, label="shrink")], "shrink")
            return bool(evaluate(o, "Shrink", fixp, fixn)["agree"])
        small = shrink_case(c, still) if len(r["agree"]) < 100 else {k: v for k, v in c.items() if k != "obs"}
        so = run_impl([dict(small, label="shrunk")], "shrink")
        ev = evaluate(so, "Shrink", fixp, fixn)
        ofail = bool(ev["ofinal"] or ev["opresence"] or ev["oconverge"])
        unexplained = ofail and any(x[2] is None or x[2] not in known for x in explain(so[0]))
        res.violation("model and implementation disagree on a replication history",
                      {"kind": "correspondence", "correspondence": TIE_NAME, "case": small, "observed": so[0]["obs"], "disagreeing_cases": len(r["agree"]),
                       "oracle_fails_on_impl": ofail, "explanation": explain(so[0])}, no_input=not unexplained, suffix="corr")


def replay(res, path):
    obj = json.load(open(path))
    c = obj.get("case")
    if not c:
        print("replay file names no concrete case:", obj.get("summary"))
        return 1
    fixp, fixn = CODE_FLAGS
    out = run_impl([dict(c, label="replay")], "replay")
    r = evaluate(out, "Replay", fixp, fixn)
    ex = explain(out[0])
    print("observed:", json.dumps(out[0]["obs"]))
    print("model disagrees:", bool(r["agree"]), "| oracle failures:", ex)
    return 1 if (r["agree"] or r["ofinal"] or r["opresence"] or r["oconverge"]) else 0
